//go:build verif

package roles

// Property C18: the RBAC manager grants a provider no permission beyond what is
// allowed. The oracle is a reference RBAC evaluator transcribed from the
// Kubernetes authorizer's rule semantics (RuleAllows and the rbac/v1 helpers
// VerbMatches, APIGroupMatches, ResourceMatches, ResourceNameMatches,
// NonResourceURLMatches). It shares no code with requests.go: it never expands
// rules or builds a tree, it evaluates concrete request attributes against
// rbacv1.PolicyRule values. For every case a finite universe of concrete
// request attributes is enumerated: every literal that occurs in any rule
// involved plus one fresh literal per dimension standing for "anything else".

import (
	"context"
	"fmt"
	"sort"
	"strings"
	"testing"

	rbacv1 "k8s.io/api/rbac/v1"
	metav1 "k8s.io/apimachinery/pkg/apis/meta/v1"
	"k8s.io/apimachinery/pkg/runtime"
	"k8s.io/apimachinery/pkg/types"
	utilrand "k8s.io/apimachinery/pkg/util/rand"
	"k8s.io/utils/ptr"
	"pgregory.net/rapid"
	"sigs.k8s.io/controller-runtime/pkg/client"
	"sigs.k8s.io/controller-runtime/pkg/manager"
	"sigs.k8s.io/controller-runtime/pkg/reconcile"

	xpv1 "github.com/crossplane/crossplane-runtime/apis/common/v1"

	extv1 "github.com/crossplane/crossplane/apis/apiextensions/v1"
	pkgv1 "github.com/crossplane/crossplane/apis/pkg/v1"
	"github.com/crossplane/crossplane/internal/controller/rbac/definition"
	"github.com/crossplane/crossplane/internal/verifkit"
	"github.com/crossplane/crossplane/internal/verifsim"
)

// ---------------------------------------------------------------------------
// reference RBAC evaluator (Kubernetes authorizer semantics)

// c18Attr is one concrete request as the Kubernetes authorizer sees it.
type c18Attr struct {
	Res                              bool // resource request (else: non-resource request)
	Verb, Group, Resource, Sub, Name string
	URL                              string
}

func (a c18Attr) String() string {
	if !a.Res {
		return fmt.Sprintf("{verb=%q nonResourceURL=%q}", a.Verb, a.URL)
	}
	r := a.Resource
	if a.Sub != "" {
		r += "/" + a.Sub
	}
	return fmt.Sprintf("{verb=%q apiGroup=%q resource=%q name=%q}", a.Verb, a.Group, r, a.Name)
}

func c18VerbMatches(r rbacv1.PolicyRule, verb string) bool {
	for _, v := range r.Verbs {
		if v == "*" || v == verb {
			return true
		}
	}
	return false
}

func c18GroupMatches(r rbacv1.PolicyRule, group string) bool {
	for _, g := range r.APIGroups {
		if g == "*" || g == group {
			return true
		}
	}
	return false
}

func c18ResourceMatches(r rbacv1.PolicyRule, resource, sub string) bool {
	combined := resource
	if sub != "" {
		combined = resource + "/" + sub
	}
	for _, rr := range r.Resources {
		if rr == "*" || rr == combined {
			return true
		}
		if sub == "" {
			continue
		}
		// "*/subresource" matches that subresource of every resource.
		if len(rr) == len(sub)+2 && strings.HasPrefix(rr, "*/") && strings.HasSuffix(rr, sub) {
			return true
		}
	}
	return false
}

func c18NameMatches(r rbacv1.PolicyRule, name string) bool {
	if len(r.ResourceNames) == 0 {
		return true // empty means every name; there is no wildcard for names
	}
	for _, n := range r.ResourceNames {
		if n == name {
			return true
		}
	}
	return false
}

func c18URLMatches(r rbacv1.PolicyRule, url string) bool {
	for _, u := range r.NonResourceURLs {
		if u == "*" || u == url {
			return true
		}
		if strings.HasSuffix(u, "*") && strings.HasPrefix(url, strings.TrimRight(u, "*")) {
			return true
		}
	}
	return false
}

func c18RuleAllows(a c18Attr, r rbacv1.PolicyRule) bool {
	if a.Res {
		return c18VerbMatches(r, a.Verb) && c18GroupMatches(r, a.Group) && c18ResourceMatches(r, a.Resource, a.Sub) && c18NameMatches(r, a.Name)
	}
	return c18VerbMatches(r, a.Verb) && c18URLMatches(r, a.URL)
}

func c18RulesAllow(a c18Attr, rs []rbacv1.PolicyRule) bool {
	for i := range rs {
		if c18RuleAllows(a, rs[i]) {
			return true
		}
	}
	return false
}

// c18Universe enumerates concrete request attributes: all literals occurring in
// the rule sets plus a fresh literal per dimension. Matching only uses equality,
// "*", "*/sub" and URL prefixes, so any other concrete request behaves like one
// of these.
func c18Universe(sets ...[]rbacv1.PolicyRule) []c18Attr {
	verbs := map[string]bool{"zzverb": true}
	groups := map[string]bool{"zz.fresh.group": true}
	bases := map[string]bool{"zzresource": true}
	subs := map[string]bool{"": true, "zzsub": true}
	names := map[string]bool{"": true, "zzname": true}
	urls := map[string]bool{"/zzurl": true}
	for _, rs := range sets {
		for _, r := range rs {
			for _, v := range r.Verbs {
				if v != "*" {
					verbs[v] = true
				}
			}
			for _, g := range r.APIGroups {
				if g != "*" {
					groups[g] = true
				}
			}
			for _, res := range r.Resources {
				if res == "*" {
					continue
				}
				b, s, has := strings.Cut(res, "/")
				if b != "*" {
					bases[b] = true
				}
				if has {
					subs[s] = true
				}
			}
			for _, n := range r.ResourceNames {
				names[n] = true
			}
			for _, u := range r.NonResourceURLs {
				if u == "*" {
					continue
				}
				if strings.HasSuffix(u, "*") {
					p := strings.TrimRight(u, "*")
					urls[p] = true
					urls[p+"zzfresh"] = true
					continue
				}
				urls[u] = true
			}
		}
	}
	vs, gs, bs, ss, ns, us := c18Sorted(verbs), c18Sorted(groups), c18Sorted(bases), c18Sorted(subs), c18Sorted(names), c18Sorted(urls)
	out := make([]c18Attr, 0, len(vs)*(len(gs)*len(bs)*len(ss)*len(ns)+len(us)))
	for _, v := range vs {
		for _, g := range gs {
			for _, b := range bs {
				for _, s := range ss {
					for _, n := range ns {
						out = append(out, c18Attr{Res: true, Verb: v, Group: g, Resource: b, Sub: s, Name: n})
					}
				}
			}
		}
		for _, u := range us {
			out = append(out, c18Attr{Verb: v, URL: u})
		}
	}
	return out
}

func c18Sorted(m map[string]bool) []string {
	out := make([]string, 0, len(m))
	for k := range m {
		out = append(out, k)
	}
	sort.Strings(out)
	return out
}

// c18Uncovered returns a concrete request the requested rules allow but the
// allow-list does not (nil if the requests are covered).
func c18Uncovered(requests, allow []rbacv1.PolicyRule) *c18Attr {
	for _, a := range c18Universe(requests, allow) {
		if c18RulesAllow(a, requests) && !c18RulesAllow(a, allow) {
			a := a
			return &a
		}
	}
	return nil
}

func c18GrantsAnything(rs []rbacv1.PolicyRule) bool {
	for _, a := range c18Universe(rs) {
		if c18RulesAllow(a, rs) {
			return true
		}
	}
	return false
}

// ---------------------------------------------------------------------------
// generators

var (
	c18Groups    = []string{"", "apps", "example.org", "coordination.k8s.io", "*"}
	c18Resources = []string{"pods", "secrets", "widgets", "leases", "pods/status", "widgets/status", "*/status", "*/finalizers", "widgets/finalizers", "*"}
	c18Verbs     = []string{"get", "list", "watch", "update", "create", "delete", "*"}
	c18Names     = []string{"a", "b", "*", ""}
	c18URLs      = []string{"/healthz", "/api", "/api/*", "/api/v1", "/apis/*", "*", "/metrics"}
)

func c18Subset(t *rapid.T, label string, alphabet []string, min, max int) []string {
	if max > len(alphabet) {
		max = len(alphabet)
	}
	l := rapid.SliceOfNDistinct(rapid.SampledFrom(alphabet), min, max, rapid.ID[string]).Draw(t, label)
	if len(l) == 0 {
		return nil
	}
	return l
}

// c18Rule draws a policy rule. Allow-list rules are what the API server admits
// for a ClusterRole (at least one verb; either non-resource URLs only, or at
// least one API group and one resource). Permission requests come from a
// package's metadata and are only schema-checked, so they may have empty lists
// or mix resources and URLs.
func c18Rule(t *rapid.T, allowList bool) rbacv1.PolicyRule {
	min := 0
	if allowList {
		min = 1
	}
	r := rbacv1.PolicyRule{}
	kind := rapid.IntRange(0, 9).Draw(t, "rulekind")
	if kind <= 6 || kind == 9 {
		r.APIGroups = c18Subset(t, "groups", c18Groups, min, 3)
		r.Resources = c18Subset(t, "resources", c18Resources, min, 3)
		if rapid.IntRange(0, 2).Draw(t, "named") == 0 {
			r.ResourceNames = c18Subset(t, "names", c18Names, 1, 2)
		}
	}
	if kind >= 7 && (kind < 9 || !allowList) {
		r.NonResourceURLs = c18Subset(t, "urls", c18URLs, 1, 3)
	}
	r.Verbs = c18Subset(t, "verbs", c18Verbs, min, 3)
	return r
}

// c18Derive narrows an allow-list rule into a request (so that "covered" is
// frequent) and sometimes widens one dimension again (near misses).
func c18Derive(t *rapid.T, a rbacv1.PolicyRule) rbacv1.PolicyRule {
	pick := func(label string, l, alphabet []string) []string {
		if len(l) == 0 {
			return nil
		}
		sub := c18Subset(t, label, l, 1, len(l))
		for i := range sub {
			if sub[i] == "*" && alphabet != nil && rapid.Bool().Draw(t, label+"-lit") {
				sub[i] = rapid.SampledFrom(alphabet).Draw(t, label+"-litv")
			}
		}
		return sub
	}
	r := rbacv1.PolicyRule{
		APIGroups:       pick("dgroups", a.APIGroups, c18Groups),
		Resources:       pick("dresources", a.Resources, c18Resources),
		Verbs:           pick("dverbs", a.Verbs, c18Verbs),
		NonResourceURLs: pick("durls", a.NonResourceURLs, c18URLs),
	}
	if len(a.ResourceNames) == 0 {
		if rapid.IntRange(0, 2).Draw(t, "dnamed") == 0 {
			r.ResourceNames = c18Subset(t, "dnames", c18Names, 1, 2)
		}
	} else {
		r.ResourceNames = pick("dnames", a.ResourceNames, nil)
	}
	switch rapid.IntRange(0, 17).Draw(t, "widen") {
	case 0:
		r.APIGroups = append(r.APIGroups, rapid.SampledFrom(c18Groups).Draw(t, "wg"))
	case 1:
		r.Resources = append(r.Resources, rapid.SampledFrom(c18Resources).Draw(t, "wr"))
	case 2:
		r.Verbs = append(r.Verbs, rapid.SampledFrom(c18Verbs).Draw(t, "wv"))
	case 3:
		r.ResourceNames = nil
	case 4:
		r.NonResourceURLs = append(r.NonResourceURLs, rapid.SampledFrom(c18URLs).Draw(t, "wu"))
	case 5:
		r.ResourceNames = append(r.ResourceNames, rapid.SampledFrom(c18Names).Draw(t, "wn"))
	}
	return r
}

func c18AllowAndRequests(t *rapid.T) (allow, requests []rbacv1.PolicyRule) {
	na := rapid.IntRange(0, 4).Draw(t, "nallow")
	for i := 0; i < na; i++ {
		allow = append(allow, c18Rule(t, true))
	}
	nr := rapid.IntRange(0, 4).Draw(t, "nrequests")
	for i := 0; i < nr; i++ {
		if len(allow) > 0 && rapid.IntRange(0, 3).Draw(t, "derived") != 0 {
			requests = append(requests, c18Derive(t, allow[rapid.IntRange(0, len(allow)-1).Draw(t, "from")]))
		} else {
			requests = append(requests, c18Rule(t, false))
		}
	}
	return allow, requests
}

// ---------------------------------------------------------------------------
// simulated API server plumbing

const c18AllowRole = "crossplane:allowed-provider-permissions"

var c18Scheme = verifsim.NewScheme()

type c18Mgr struct {
	manager.Manager
	c client.Client
}

func (m c18Mgr) GetClient() client.Client   { return m.c }
func (m c18Mgr) GetScheme() *runtime.Scheme { return c18Scheme }

func c18NewSim(allow []rbacv1.PolicyRule, exists bool) *verifsim.Sim {
	s := verifsim.New(c18Scheme)
	if exists {
		s.MustCreate("admin", &rbacv1.ClusterRole{ObjectMeta: metav1.ObjectMeta{Name: c18AllowRole}, Rules: allow})
	}
	return s
}

func c18RoleKey(name string) verifsim.Key {
	return verifsim.Key{Group: rbacv1.GroupName, Kind: "ClusterRole", Name: name}
}

// ---------------------------------------------------------------------------
// (1) soundness of "covered": no rejection => the allow-list allows everything
// the requests allow.

func c18CheckValidator(allow, requests []rbacv1.PolicyRule) (rejected []Rule, violation string) {
	s := c18NewSim(allow, true)
	v := NewClusterRoleBackedValidator(s.Client("rbac-manager"), c18AllowRole)
	var err error
	func() {
		defer func() {
			if p := recover(); p != nil {
				violation = fmt.Sprintf("PANIC in ValidatePermissionRequests: %v", p)
			}
		}()
		rejected, err = v.ValidatePermissionRequests(context.Background(), requests...)
	}()
	if violation != "" {
		return nil, violation
	}
	if err != nil {
		return nil, fmt.Sprintf("ValidatePermissionRequests failed although the allow-list role exists: %v", err)
	}
	if len(rejected) > 0 {
		return rejected, ""
	}
	if a := c18Uncovered(requests, allow); a != nil {
		return nil, fmt.Sprintf("the validator rejected nothing, yet the requested rules allow %s which the allow-list role does not allow\nallow-list: %s\nrequests:   %s",
			a, verifkit.JSON(allow), verifkit.JSON(requests))
	}
	return nil, ""
}

func c18ValidatorProp(rec *verifkit.Recorder) func(t *rapid.T) {
	return func(t *rapid.T) {
		allow, requests := c18AllowAndRequests(t)
		rec.Eval()
		rejected, violation := c18CheckValidator(allow, requests)
		if violation != "" {
			t.Fatalf("%s", violation)
		}
		grants := c18GrantsAnything(requests)
		switch {
		case len(rejected) > 0 && c18Uncovered(requests, allow) == nil:
			rec.Label("rejected-though-covered(incomplete,allowed)")
		case len(rejected) > 0:
			rec.Label("rejected")
		case grants:
			rec.Label("accepted-nonempty")
		default:
			rec.Label("accepted-empty")
		}
		c18LabelRules(rec, "allow", allow)
		c18LabelRules(rec, "req", requests)
		if len(rejected) == 0 && grants {
			rec.NonTrivial(verifkit.JSON([]any{allow, requests}), func() any {
				return map[string]any{"allow": allow, "requests": requests, "verdict": "accepted"}
			})
		}
	}
}

func c18LabelRules(rec *verifkit.Recorder, side string, rs []rbacv1.PolicyRule) {
	seen := map[string]bool{}
	for _, r := range rs {
		if len(r.NonResourceURLs) > 0 {
			seen["url"] = true
			if len(r.APIGroups) > 0 {
				seen["mixed"] = true
			}
		}
		if len(r.ResourceNames) > 0 {
			seen["names"] = true
		}
		for _, n := range r.ResourceNames {
			if n == "*" {
				seen["name-star"] = true
			}
		}
		for _, l := range [][]string{r.APIGroups, r.Resources, r.Verbs, r.NonResourceURLs} {
			for _, e := range l {
				if e == "*" {
					seen["wildcard"] = true
				}
				if strings.HasPrefix(e, "*/") {
					seen["star-subresource"] = true
				}
			}
		}
		if len(r.Verbs) == 0 || (len(r.NonResourceURLs) == 0 && (len(r.APIGroups) == 0 || len(r.Resources) == 0)) {
			seen["empty-list"] = true
		}
	}
	for k := range seen {
		rec.Label(side + ":" + k)
	}
}

func TestVerifC18Validator(t *testing.T) {
	rec := verifkit.New(t, "C18", "0-4 allow-list rules and 0-4 permission requests (3/4 derived from an allow rule by narrowing, 1/3 of those widened again) over a small alphabet with wildcards, names, URLs, subresources; non-trivial = validator accepted requests that grant something; distinct=(allow,requests)")
	rapid.Check(t, c18ValidatorProp(rec))
}

func FuzzVerifC18Validator(f *testing.F) {
	rec := verifkit.New(f, "C18", "fuzz: allow-list rules vs permission requests")
	f.Fuzz(rapid.MakeFuzz(c18ValidatorProp(rec)))
}

// Small-scope exhaustive: every (allow rule, requested rule) pair of single
// rules over a tiny alphabet, no sampling.
func TestVerifC18ValidatorAllPairs(t *testing.T) {
	rec := verifkit.New(t, "C18", "exhaustive: all pairs (allow rule, requested rule) of single rules with groups in {'',apps,*} x resources in {pods,pods/status,*/status,*} x verbs in {get,*} x names in {none,[a],[*]} plus URL rules {/api,/api/*,*} x verbs; distinct=pair")
	var rules []rbacv1.PolicyRule
	for _, g := range []string{"", "apps", "*"} {
		for _, r := range []string{"pods", "pods/status", "*/status", "*"} {
			for _, v := range []string{"get", "*"} {
				for _, n := range [][]string{nil, {"a"}, {"*"}} {
					rules = append(rules, rbacv1.PolicyRule{APIGroups: []string{g}, Resources: []string{r}, Verbs: []string{v}, ResourceNames: n})
				}
			}
		}
	}
	for _, u := range []string{"/api", "/api/*", "*"} {
		for _, v := range []string{"get", "*"} {
			rules = append(rules, rbacv1.PolicyRule{NonResourceURLs: []string{u}, Verbs: []string{v}})
		}
	}
	bad := 0
	shard, shards := verifkit.Shard()
	for i, a := range rules {
		if i%shards != shard {
			continue
		}
		for _, q := range rules {
			rec.Eval()
			rej, v := c18CheckValidator([]rbacv1.PolicyRule{a}, []rbacv1.PolicyRule{q})
			if v != "" {
				if bad++; bad <= 3 {
					t.Errorf("%s", v)
				}
				continue
			}
			if len(rej) == 0 {
				rec.Label("pair:accepted")
				rec.NonTrivial(verifkit.JSON([]any{a, q}), func() any { return map[string]any{"allow": a, "request": q, "verdict": "accepted"} })
			} else if c18Uncovered([]rbacv1.PolicyRule{q}, []rbacv1.PolicyRule{a}) == nil {
				rec.Label("pair:rejected-though-covered(incomplete,allowed)")
			} else {
				rec.Label("pair:rejected")
			}
		}
	}
	if bad > 3 {
		t.Errorf("... and %d more pairs", bad-3)
	}
}

// Expand agrees with the reference on what a rule set allows: a concrete
// request is allowed by the rules iff one of the expanded granular rules,
// read back as a single-element policy rule, allows it. (Expand encodes "all
// names" as "*", so literal "*" names are left out of this law.)
func TestVerifC18Expand(t *testing.T) {
	rec := verifkit.New(t, "C18", "Expand preserves the meaning of 1-3 generated rules (without literal '*' resource names); distinct=rules")
	rapid.Check(t, func(t *rapid.T) {
		n := rapid.IntRange(1, 3).Draw(t, "n")
		var rs []rbacv1.PolicyRule
		for i := 0; i < n; i++ {
			r := c18Rule(t, rapid.Bool().Draw(t, "wellformed"))
			names := r.ResourceNames[:0:0]
			for _, nm := range r.ResourceNames {
				if nm != "*" {
					names = append(names, nm)
				}
			}
			if len(r.ResourceNames) > 0 && len(names) == 0 {
				names = []string{"a"}
			}
			r.ResourceNames = names
			rs = append(rs, r)
		}
		rec.Eval()
		ex, err := Expand(context.Background(), rs...)
		if err != nil {
			t.Fatalf("Expand: %v", err)
		}
		var back []rbacv1.PolicyRule
		for _, e := range ex {
			if e.NonResourceURL != "" {
				back = append(back, rbacv1.PolicyRule{NonResourceURLs: []string{e.NonResourceURL}, Verbs: []string{e.Verb}})
				continue
			}
			pr := rbacv1.PolicyRule{APIGroups: []string{e.APIGroup}, Resources: []string{e.Resource}, Verbs: []string{e.Verb}}
			if e.ResourceName != "*" {
				pr.ResourceNames = []string{e.ResourceName}
			}
			back = append(back, pr)
		}
		for _, a := range c18Universe(rs, back) {
			if c18RulesAllow(a, rs) != c18RulesAllow(a, back) {
				t.Fatalf("Expand changed the meaning of the rules for request %s: rules allow=%v expanded allow=%v\nrules: %s\nexpanded: %+v", a, c18RulesAllow(a, rs), c18RulesAllow(a, back), verifkit.JSON(rs), ex)
			}
		}
		if len(ex) > 0 {
			rec.NonTrivial(verifkit.JSON(rs), func() any { return map[string]any{"rules": rs, "expanded": len(ex)} })
		}
	})
}

// ---------------------------------------------------------------------------
// (2)+(3) the reconciler on the simulated API server

type c18Pkg struct {
	Registry, Org, Repo, Tag string
	Malformed                string // non-empty: use this text verbatim
	IsMalformed              bool
}

func (p c18Pkg) String() string {
	if p.IsMalformed {
		return p.Malformed
	}
	s := p.Org + "/" + p.Repo + p.Tag
	if p.Registry != "" {
		s = p.Registry + "/" + s
	}
	return s
}

// c18SameOrg is the oracle for "same registry and organisation"; it knows the
// parts by construction and never parses the reference.
func c18SameOrg(defaultRegistry string, a, b c18Pkg) bool {
	if a.IsMalformed || b.IsMalformed {
		return false
	}
	ra, rb := a.Registry, b.Registry
	if ra == "" {
		ra = defaultRegistry
	}
	if rb == "" {
		rb = defaultRegistry
	}
	return ra == rb && a.Org == b.Org
}

var (
	c18Registries = []string{"", "", "xpkg.upbound.io", "index.docker.io", "registry.example.com:5000", "evil.example.com"}
	c18Orgs       = []string{"acme", "acme", "evil", "acme2", "xpkg.upbound.io"}
	c18Repos      = []string{"provider-a", "provider-b", "provider-family", "acme/provider-c", "evil/provider-a"}
	c18Tags       = []string{":v1.0.0", ":v2.0.0", "", "@sha256:0123456789abcdef0123456789abcdef0123456789abcdef0123456789abcdef"}
	c18BadPkgs    = []string{"", "ACME/Provider-A:v1.0.0"}
)

func c18DrawPkg(t *rapid.T, label string) c18Pkg {
	if rapid.IntRange(0, 11).Draw(t, label+"-bad") == 0 {
		return c18Pkg{IsMalformed: true, Malformed: rapid.SampledFrom(c18BadPkgs).Draw(t, label+"-badv")}
	}
	p := c18Pkg{
		Registry: rapid.SampledFrom(c18Registries).Draw(t, label+"-reg"),
		Org:      rapid.SampledFrom(c18Orgs).Draw(t, label+"-org"),
		Repo:     rapid.SampledFrom(c18Repos).Draw(t, label+"-repo"),
		Tag:      rapid.SampledFrom(c18Tags).Draw(t, label+"-tag"),
	}
	return c18FixPkg(p)
}

// c18FixPkg keeps the by-construction reading of a package source valid: a
// first path component that looks like a host name is only an organisation if
// a registry is spelled out in front of it.
func c18FixPkg(p c18Pkg) c18Pkg {
	if !p.IsMalformed && p.Registry == "" && strings.ContainsAny(p.Org, ".:") {
		p.Registry = "evil.example.com"
	}
	return p
}

// Object references. CRD names are <plural>.<group> as the API server enforces;
// "nodot" is the malformed name the code comments on.
var (
	c18CRDNames = []string{"widgets.example.org", "gadgets.example.org", "buckets.s3.aws.example.org", "providerconfigs.aws.example.org", "things.other.io", "nodot"}
	c18OtherRef = []xpv1.TypedReference{
		{APIVersion: "v1", Kind: "ConfigMap", Name: "deployments.apps"},
		{APIVersion: "apiextensions.crossplane.io/v1", Kind: "CompositeResourceDefinition", Name: "xwidgets.example.org"},
		{APIVersion: "other.io/v1", Kind: "CustomResourceDefinition", Name: "deployments.apps"},
		{APIVersion: "apiextensions.k8s.io/v1", Kind: "customresourcedefinition", Name: "statefulsets.apps"},
		{APIVersion: "apiextensions.k8s.io/v1/v2", Kind: "CustomResourceDefinition", Name: "daemonsets.apps"},
		{APIVersion: "admissionregistration.k8s.io/v1", Kind: "ValidatingWebhookConfiguration", Name: "clusterroles.rbac.authorization.k8s.io"},
		{APIVersion: "CustomResourceDefinition", Kind: "apiextensions.k8s.io", Name: "nodes.core.example.org"},
	}
)

func c18DrawRefs(t *rapid.T, label string) []xpv1.TypedReference {
	n := rapid.IntRange(0, 4).Draw(t, label+"-n")
	var out []xpv1.TypedReference
	for i := 0; i < n; i++ {
		if rapid.IntRange(0, 3).Draw(t, label+"-other") == 0 {
			out = append(out, rapid.SampledFrom(c18OtherRef).Draw(t, label+"-o"))
			continue
		}
		out = append(out, xpv1.TypedReference{
			APIVersion: rapid.SampledFrom([]string{"apiextensions.k8s.io/v1", "apiextensions.k8s.io/v1", "apiextensions.k8s.io/v1beta1"}).Draw(t, label+"-v"),
			Kind:       "CustomResourceDefinition",
			Name:       rapid.SampledFrom(c18CRDNames).Draw(t, label+"-crd"),
		})
	}
	return out
}

// Tiny plural alphabet: short plurals whose concatenations collide ({db,
// instances} vs {dbinstances}, {ab,c} vs {a,bc} vs {abc} vs {a,b,c}), are
// prefixes of each other, or are identical across groups. Any rendering that
// keys groups by something coarser than their exact plural set shows up here.
var (
	c18TinyGroups   = []string{"sql.example.org", "rds.example.org", "x.example.org", "y.example.org"}
	c18TinyPlurals  = []string{"a", "b", "c", "ab", "bc", "abc", "db", "instances", "dbinstances"}
	c18TinyFamilies = [][][]string{
		{{"db", "instances"}, {"dbinstances"}, {"db"}, {"instances", "db"}},
		{{"ab", "c"}, {"a", "bc"}, {"abc"}, {"a", "b", "c"}, {"ab", "c"}},
		{{"a", "b"}, {"ab"}, {"a"}, {"b", "a"}},
		{{"b", "c"}, {"bc"}, {"b"}, {"abc"}},
	}
)

// c18DrawTinyPairs draws the (group, plural) pairs of 2-4 API groups.
func c18DrawTinyPairs(t *rapid.T) [][2]string {
	groups := c18Subset(t, "tinygroups", c18TinyGroups, 2, 4)
	fam := rapid.SampledFrom(c18TinyFamilies).Draw(t, "tinyfamily")
	var out [][2]string
	for _, g := range groups {
		var plurals []string
		if rapid.IntRange(0, 2).Draw(t, "tinyfree") == 0 {
			plurals = c18Subset(t, "tinyplurals", c18TinyPlurals, 1, 3)
		} else {
			plurals = rapid.SampledFrom(fam).Draw(t, "tinyset")
		}
		for _, p := range plurals {
			out = append(out, [2]string{g, p})
		}
	}
	return out
}

func c18PairRefs(pairs [][2]string) []xpv1.TypedReference {
	var out []xpv1.TypedReference
	for _, gp := range pairs {
		out = append(out, xpv1.TypedReference{APIVersion: "apiextensions.k8s.io/v1", Kind: "CustomResourceDefinition", Name: gp[1] + "." + gp[0]})
	}
	return out
}

// c18PluralClasses classifies how the plural sets of the groups relate.
func c18PluralClasses(pairs [][2]string) []string {
	sets := map[string]map[string]bool{}
	for _, gp := range pairs {
		if sets[gp[0]] == nil {
			sets[gp[0]] = map[string]bool{}
		}
		sets[gp[0]][gp[1]] = true
	}
	groups := make([]string, 0, len(sets))
	for g := range sets {
		groups = append(groups, g)
	}
	sort.Strings(groups)
	var concats func(rest []string, prefix string, out map[string]bool)
	concats = func(rest []string, prefix string, out map[string]bool) {
		if len(rest) == 0 {
			out[prefix] = true
			return
		}
		for i := range rest {
			next := append(append([]string{}, rest[:i]...), rest[i+1:]...)
			concats(next, prefix+rest[i], out)
		}
	}
	seen := map[string]bool{}
	for i := 0; i < len(groups); i++ {
		for j := i + 1; j < len(groups); j++ {
			a, b := c18Sorted(sets[groups[i]]), c18Sorted(sets[groups[j]])
			if strings.Join(a, ",") == strings.Join(b, ",") {
				seen["crd-groups:identical-plural-sets"] = true
				continue
			}
			ca, cb := map[string]bool{}, map[string]bool{}
			concats(a, "", ca)
			concats(b, "", cb)
			collide := false
			for k := range ca {
				if cb[k] {
					collide = true
				}
			}
			sa, sb := strings.Join(a, ""), strings.Join(b, "")
			switch {
			case collide:
				seen["crd-groups:concatenation-collision"] = true
			case strings.HasPrefix(sa, sb) || strings.HasPrefix(sb, sa):
				seen["crd-groups:prefix-relation"] = true
			default:
				seen["crd-groups:unrelated-plural-sets"] = true
			}
		}
	}
	return c18Sorted(seen)
}

// c18CRDRules spells the documented shape of CRD-derived access out as
// single-group pseudo-rules: the resource and its status (any verb), and for
// the system role the finalizers of the group's resources (update).
func c18CRDRules(pairs [][2]string, verbs []string, finalizers bool) []rbacv1.PolicyRule {
	var out []rbacv1.PolicyRule
	for _, gp := range pairs {
		out = append(out, rbacv1.PolicyRule{APIGroups: []string{gp[0]}, Resources: []string{gp[1], gp[1] + "/status"}, Verbs: verbs})
		if finalizers {
			out = append(out, rbacv1.PolicyRule{APIGroups: []string{gp[0]}, Resources: []string{"*/finalizers"}, Verbs: []string{"update"}})
		}
	}
	return out
}

// c18CheckProviderRole compares one rendered provider role with the (group,
// plural) pairs its CRDs define, on the whole request universe. Rules are
// evaluated as the authorizer does (every APIGroup x every Resource of a rule),
// never compared by shape.
func c18CheckProviderRole(name string, rules []rbacv1.PolicyRule, pairs [][2]string, extra ...[]rbacv1.PolicyRule) string {
	var upper, lower []rbacv1.PolicyRule
	what := ""
	switch {
	case strings.HasSuffix(name, ":aggregate-to-edit"):
		upper, lower, what = c18CRDRules(pairs, []string{"*"}, false), c18CRDRules(pairs, []string{"*"}, false), "edit"
	case strings.HasSuffix(name, ":aggregate-to-view"):
		upper, lower, what = c18CRDRules(pairs, []string{"get", "list", "watch"}, false), c18CRDRules(pairs, []string{"get", "list", "watch"}, false), "view"
	case strings.HasSuffix(name, ":system"):
		upper, lower, what = c18CRDRules(pairs, []string{"*"}, true), c18CRDRules(pairs, []string{"get"}, false), "system"
		upper = append(upper, c18Baseline...)
		for _, e := range extra {
			upper = append(upper, e...)
		}
	default:
		return fmt.Sprintf("unexpected provider role %q", name)
	}
	universe := c18Universe(rules, upper)
	for _, a := range universe { // grants beyond the defined pairs are reported first
		if c18RulesAllow(a, rules) && !c18RulesAllow(a, upper) {
			return fmt.Sprintf("%s role %s allows %s, but no CRD the revision (or a same-registry-and-org family member) owns defines that group/resource pair\ndefined (group, plural) pairs: %v\nrole rules: %s", what, name, a, pairs, verifkit.JSON(rules))
		}
	}
	for _, a := range universe {
		if !c18RulesAllow(a, rules) && c18RulesAllow(a, lower) {
			return fmt.Sprintf("%s role %s does not allow %s on a resource an owned CRD defines\ndefined (group, plural) pairs: %v\nrole rules: %s", what, name, a, pairs, verifkit.JSON(rules))
		}
	}
	return ""
}

// c18DefinedByCRDRefs is the oracle's reading of an object reference list: the
// (group, plural) pairs of the references that are CustomResourceDefinitions
// of the apiextensions.k8s.io group.
func c18DefinedByCRDRefs(refs []xpv1.TypedReference) [][2]string {
	var out [][2]string
	for _, r := range refs {
		parts := strings.Split(r.APIVersion, "/")
		if len(parts) != 2 || parts[0] != "apiextensions.k8s.io" || r.Kind != "CustomResourceDefinition" {
			continue
		}
		i := strings.Index(r.Name, ".")
		if i < 0 {
			continue
		}
		out = append(out, [2]string{r.Name[i+1:], r.Name[:i]})
	}
	return out
}

type c18Rev struct {
	Name   string
	Family string
	Pkg    c18Pkg
	Refs   []xpv1.TypedReference
}

type c18Scenario struct {
	DefaultRegistry string
	Allow           []rbacv1.PolicyRule
	AllowExists     bool
	Requests        []rbacv1.PolicyRule
	Target          c18Rev
	Siblings        []c18Rev
	Stale           bool // a system role from an earlier reconcile exists, with other rules
	Tiny            bool // CRDs over the tiny plural alphabet, spread over the target and its siblings
}

func c18DrawScenario(t *rapid.T) c18Scenario {
	sc := c18Scenario{DefaultRegistry: rapid.SampledFrom([]string{"xpkg.upbound.io", "index.docker.io"}).Draw(t, "defaultRegistry")}
	sc.Allow, sc.Requests = c18AllowAndRequests(t)
	if rapid.IntRange(0, 2).Draw(t, "norequests") == 0 {
		sc.Requests = nil
	}
	sc.AllowExists = rapid.IntRange(0, 9).Draw(t, "allowMissing") != 0
	if !sc.AllowExists {
		sc.Allow = nil
	}
	families := []string{"", "family-acme", "family-acme", "family-other"}
	sc.Target = c18Rev{Name: "provider-a-rev1", Family: rapid.SampledFrom(families).Draw(t, "family"), Pkg: c18DrawPkg(t, "pkg"), Refs: c18DrawRefs(t, "refs")}
	for i := 0; i < rapid.IntRange(0, 3).Draw(t, "nsiblings"); i++ {
		sb := c18Rev{Name: fmt.Sprintf("sibling-%d-rev1", i), Family: rapid.SampledFrom(families).Draw(t, "sfamily"), Refs: c18DrawRefs(t, "srefs")}
		switch rapid.IntRange(0, 3).Draw(t, "spkgkind") {
		case 0: // same org by construction, possibly spelled differently
			sb.Pkg = sc.Target.Pkg
			sb.Pkg.Repo = rapid.SampledFrom(c18Repos).Draw(t, "srepo")
			sb.Pkg.Tag = rapid.SampledFrom(c18Tags).Draw(t, "stag")
			if !sb.Pkg.IsMalformed && rapid.Bool().Draw(t, "respell") {
				switch sb.Pkg.Registry {
				case "":
					sb.Pkg.Registry = sc.DefaultRegistry
				case sc.DefaultRegistry:
					sb.Pkg.Registry = ""
				}
			}
			sb.Pkg = c18FixPkg(sb.Pkg)
		default:
			sb.Pkg = c18DrawPkg(t, "spkg")
		}
		sc.Siblings = append(sc.Siblings, sb)
	}
	sc.Stale = rapid.IntRange(0, 3).Draw(t, "stale") == 0
	sc.Tiny = rapid.IntRange(0, 2).Draw(t, "tiny") == 0
	if sc.Tiny {
		// Family members that really count: same family, same org.
		for i := range sc.Siblings {
			if rapid.Bool().Draw(t, "tinymember") {
				if sc.Target.Family == "" {
					sc.Target.Family = "family-acme"
				}
				if sc.Target.Pkg.IsMalformed {
					sc.Target.Pkg = c18Pkg{Org: "acme", Repo: "provider-a", Tag: ":v1.0.0"}
				}
				sc.Siblings[i].Family = sc.Target.Family
				sc.Siblings[i].Pkg = sc.Target.Pkg
				sc.Siblings[i].Pkg.Repo = "provider-b"
			}
		}
		owners := make([][][2]string, 1+len(sc.Siblings))
		for _, gp := range c18DrawTinyPairs(t) {
			o := rapid.IntRange(0, len(sc.Siblings)).Draw(t, "tinyowner")
			owners[o] = append(owners[o], gp)
		}
		keep := func(refs []xpv1.TypedReference) []xpv1.TypedReference { // non-CRD references stay
			var out []xpv1.TypedReference
			for _, r := range refs {
				if len(c18DefinedByCRDRefs([]xpv1.TypedReference{r})) == 0 {
					out = append(out, r)
				}
			}
			return out
		}
		sc.Target.Refs = append(keep(sc.Target.Refs), c18PairRefs(owners[0])...)
		for i := range sc.Siblings {
			sc.Siblings[i].Refs = append(keep(sc.Siblings[i].Refs), c18PairRefs(owners[i+1])...)
		}
	}
	return sc
}

func c18RevObject(r c18Rev) *pkgv1.ProviderRevision {
	pr := &pkgv1.ProviderRevision{ObjectMeta: metav1.ObjectMeta{Name: r.Name}}
	if r.Family != "" {
		pr.Labels = map[string]string{pkgv1.LabelProviderFamily: r.Family}
	}
	pr.Spec.Package = r.Pkg.String()
	pr.Spec.DesiredState = pkgv1.PackageRevisionActive
	pr.Spec.Revision = 1
	return pr
}

// The fixed baseline, transcribed from the documentation of rulesSystemExtra in
// roles.go (secrets, config maps, events, leases in the core and coordination
// groups, every verb). Deliberately not a reference to that variable.
var c18Baseline = []rbacv1.PolicyRule{{
	APIGroups: []string{"", "coordination.k8s.io"},
	Resources: []string{"secrets", "configmaps", "events", "leases"},
	Verbs:     []string{"*"},
}}

type c18Outcome struct {
	Violation    string
	RoleWrites   int
	SystemRules  []rbacv1.PolicyRule
	Uncovered    *c18Attr
	CodeRejected int
	Labels       []string
	Pairs        [][2]string
	RolesChecked int
}

func c18RunScenario(sc c18Scenario) (out c18Outcome) {
	ctx := context.Background()
	s := c18NewSim(sc.Allow, sc.AllowExists)
	setup := s.Client("package-manager")
	uids := map[string]types.UID{}
	for _, r := range append([]c18Rev{sc.Target}, sc.Siblings...) {
		pr := c18RevObject(r)
		if err := setup.Create(ctx, pr); err != nil {
			panic(err)
		}
		pr.Status.ObjectRefs = r.Refs
		if r.Name == sc.Target.Name {
			pr.Status.PermissionRequests = sc.Requests
		}
		if err := setup.Status().Update(ctx, pr); err != nil {
			panic(err)
		}
		uids[r.Name] = pr.GetUID()
	}
	sysName := SystemClusterRoleName(sc.Target.Name)
	if sc.Stale {
		stale := &rbacv1.ClusterRole{
			ObjectMeta: metav1.ObjectMeta{Name: sysName, OwnerReferences: []metav1.OwnerReference{{
				APIVersion: pkgv1.ProviderRevisionGroupVersionKind.GroupVersion().String(), Kind: pkgv1.ProviderRevisionKind,
				Name: sc.Target.Name, UID: uids[sc.Target.Name], Controller: ptr.To(true), BlockOwnerDeletion: ptr.To(true),
			}}},
			Rules: []rbacv1.PolicyRule{{APIGroups: []string{"stale.example.org"}, Resources: []string{"olds"}, Verbs: []string{"get"}}},
		}
		if err := setup.Create(ctx, stale); err != nil {
			panic(err)
		}
	}

	c := s.Client("rbac-manager")
	r := NewReconciler(c18Mgr{c: c},
		WithPermissionRequestsValidator(NewClusterRoleBackedValidator(c, c18AllowRole)),
		WithOrgDiffer(OrgDiffer{DefaultRegistry: sc.DefaultRegistry}))
	before := s.LogLen()
	func() {
		defer func() {
			if p := recover(); p != nil {
				out.Violation = fmt.Sprintf("PANIC in Reconcile: %v", p)
			}
		}()
		_, _ = r.Reconcile(ctx, reconcile.Request{NamespacedName: types.NamespacedName{Name: sc.Target.Name}})
	}()
	if out.Violation != "" {
		return out
	}
	writes := s.Log()[before:]

	// Independent verdict: is every requested rule covered by the allow-list?
	out.Uncovered = c18Uncovered(sc.Requests, sc.Allow)
	// The code's own verdict, observed through the same validator the reconciler uses.
	if sc.AllowExists {
		rej, err := NewClusterRoleBackedValidator(s.Client("observer"), c18AllowRole).ValidatePermissionRequests(ctx, sc.Requests...)
		if err == nil {
			out.CodeRejected = len(rej)
		}
	}

	var sysWrites []verifsim.Write
	for _, w := range writes {
		if w.Key.Group != rbacv1.GroupName || (w.Key.Kind != "ClusterRole" && w.Key.Kind != "ClusterRoleBinding") {
			continue
		}
		out.RoleWrites++
		if w.Key == c18RoleKey(sysName) && w.Err == "" && !w.DryRun && w.After != nil {
			sysWrites = append(sysWrites, w)
		}
	}

	// (3) any request that is not covered => no role is created or updated.
	if out.RoleWrites > 0 && out.Uncovered != nil {
		out.Violation = fmt.Sprintf("the permission requests allow %s which the allow-list role does not allow (allow-list role exists: %v), yet the reconcile wrote %d role(s): %s",
			out.Uncovered, sc.AllowExists, out.RoleWrites, c18WriteNames(writes))
		return out
	}
	if out.RoleWrites > 0 && out.CodeRejected > 0 {
		out.Violation = fmt.Sprintf("the validator rejects %d requested rule(s), yet the reconcile wrote %d role(s): %s", out.CodeRejected, out.RoleWrites, c18WriteNames(writes))
		return out
	}

	// (2) what the system role allows is within owned + same-org family CRDs,
	// the baseline and the (covered) requests.
	var owned []rbacv1.PolicyRule // pseudo-rules spelling out the allowed CRD-derived access
	var pairs [][2]string         // (group, plural) pairs of owned and counted family CRDs
	addOwned := func(refs []xpv1.TypedReference) int {
		d := c18DefinedByCRDRefs(refs)
		pairs = append(pairs, d...)
		for _, gp := range d {
			owned = append(owned,
				rbacv1.PolicyRule{APIGroups: []string{gp[0]}, Resources: []string{gp[1], gp[1] + "/status"}, Verbs: []string{"*"}},
				rbacv1.PolicyRule{APIGroups: []string{gp[0]}, Resources: []string{"*/finalizers"}, Verbs: []string{"update"}})
		}
		return len(d)
	}
	addOwned(sc.Target.Refs)
	for _, sb := range sc.Siblings {
		switch {
		case sc.Target.Family == "" || sb.Family != sc.Target.Family:
			out.Labels = append(out.Labels, "sibling:other-family")
		case !c18SameOrg(sc.DefaultRegistry, sc.Target.Pkg, sb.Pkg):
			out.Labels = append(out.Labels, "sibling:same-family-other-org")
		default:
			if addOwned(sb.Refs) > 0 {
				out.Labels = append(out.Labels, "sibling:same-family-same-org-with-crds")
			}
		}
	}
	out.Pairs = pairs
	// (2b) every role applied for the revision (edit, view, system) grants CRD
	// access on exactly the defined (group, plural) pairs.
	for _, w := range writes {
		if w.Key.Group != rbacv1.GroupName || w.Key.Kind != "ClusterRole" || w.Err != "" || w.DryRun || w.After == nil {
			continue
		}
		cr := &rbacv1.ClusterRole{}
		if err := runtime.DefaultUnstructuredConverter.FromUnstructured(w.After, cr); err != nil {
			panic(err)
		}
		if !strings.HasPrefix(cr.GetName(), "crossplane:provider:"+sc.Target.Name+":") {
			out.Violation = fmt.Sprintf("the reconcile of %s wrote ClusterRole %q", sc.Target.Name, cr.GetName())
			return out
		}
		if v := c18CheckProviderRole(cr.GetName(), cr.Rules, pairs, sc.Requests); v != "" {
			out.Violation = v
			return out
		}
		out.RolesChecked++
	}
	for _, w := range sysWrites {
		cr := &rbacv1.ClusterRole{}
		if err := runtime.DefaultUnstructuredConverter.FromUnstructured(w.After, cr); err != nil {
			panic(err)
		}
		out.SystemRules = cr.Rules
		for _, a := range c18Universe(cr.Rules, owned, c18Baseline, sc.Requests, sc.Allow) {
			if !c18RulesAllow(a, cr.Rules) {
				continue
			}
			if c18RulesAllow(a, owned) || c18RulesAllow(a, c18Baseline) || c18RulesAllow(a, sc.Requests) {
				continue
			}
			out.Violation = fmt.Sprintf("system role %s allows %s, which is neither access to a CRD this revision or a same-registry-and-org family member owns, nor the fixed baseline, nor a validated permission request\nrole rules: %s",
				sysName, a, verifkit.JSON(cr.Rules))
			return out
		}
	}
	return out
}

func c18WriteNames(ws []verifsim.Write) string {
	var l []string
	for _, w := range ws {
		if w.Key.Group == rbacv1.GroupName {
			l = append(l, w.Verb+" "+w.Key.Kind+"/"+w.Key.Name)
		}
	}
	return strings.Join(l, ", ")
}

func TestVerifC18Reconcile(t *testing.T) {
	rec := verifkit.New(t, "C18", "ProviderRevision with generated object references, family label, package source, permission requests; 0-3 sibling revisions across families/registries/orgs; allow-list role present or missing; optional stale system role; one Reconcile on verifsim; non-trivial = role writes happened or a non-empty request set was refused; distinct=scenario")
	rapid.Check(t, func(t *rapid.T) {
		utilrand.Seed(rapid.Int64().Draw(t, "seed"))
		sc := c18DrawScenario(t)
		rec.Eval()
		out := c18RunScenario(sc)
		if out.Violation != "" {
			t.Fatalf("%s\nscenario: %s", out.Violation, verifkit.JSON(sc))
		}
		for _, l := range out.Labels {
			rec.Label(l)
		}
		if out.RolesChecked > 0 {
			for _, l := range c18PluralClasses(out.Pairs) {
				rec.Label("reconcile:" + l)
			}
		}
		if sc.Tiny {
			rec.Label("tiny-plural-alphabet")
		}
		grants := c18GrantsAnything(sc.Requests)
		switch {
		case out.RoleWrites > 0 && grants:
			rec.Label("roles-written-with-requests")
		case out.RoleWrites > 0:
			rec.Label("roles-written")
		case out.Uncovered != nil:
			rec.Label("refused-uncovered")
		case out.CodeRejected > 0:
			rec.Label("refused-by-validator-only")
		default:
			rec.Label("nothing-to-write")
		}
		if !sc.AllowExists {
			rec.Label("allow-role-missing")
		}
		if sc.Stale {
			rec.Label("stale-system-role")
		}
		if sc.Target.Pkg.IsMalformed {
			rec.Label("target-package-malformed")
		}
		if out.RoleWrites > 0 || (out.Uncovered != nil && grants) {
			rec.NonTrivial(verifkit.JSON(sc), func() any {
				return map[string]any{"scenario": sc, "roleWrites": out.RoleWrites, "systemRules": out.SystemRules}
			})
		}
	})
}

// RenderClusterRoles / DefinedResources on their own: the edit, view and system
// roles rendered for a set of CRD references grant CRD access on exactly the
// (group, plural) pairs those CRDs define (+status; system: +*/finalizers update
// within the groups, + baseline, + the revision's permission requests).
func TestVerifC18RenderRoles(t *testing.T) {
	rec := verifkit.New(t, "C18", "CRD references of 2-4 API groups over a tiny plural alphabet (a,b,c,ab,bc,abc,db,instances,dbinstances; designed concatenation collisions, prefixes, identical sets) or the standard names, in shuffled order, optionally with non-CRD references and permission requests; DefinedResources + RenderClusterRoles; every role compared with the defined pairs on the whole request universe; non-trivial = >=2 groups; distinct=(refs,requests)")
	rapid.Check(t, func(t *rapid.T) {
		var refs []xpv1.TypedReference
		if rapid.IntRange(0, 4).Draw(t, "standard") == 0 {
			refs = append(c18DrawRefs(t, "refs"), c18DrawRefs(t, "morerefs")...)
		} else {
			refs = c18PairRefs(c18DrawTinyPairs(t))
			if rapid.IntRange(0, 3).Draw(t, "withother") == 0 {
				refs = append(refs, rapid.SampledFrom(c18OtherRef).Draw(t, "other"))
			}
		}
		if len(refs) > 1 {
			refs = rapid.Permutation(refs).Draw(t, "order")
		}
		var requests []rbacv1.PolicyRule
		if rapid.IntRange(0, 3).Draw(t, "withrequests") == 0 {
			requests = []rbacv1.PolicyRule{c18Rule(t, false)}
		}
		rec.Eval()
		pairs := c18DefinedByCRDRefs(refs)
		pr := &pkgv1.ProviderRevision{ObjectMeta: metav1.ObjectMeta{Name: "provider-a-rev1", UID: "uid-pr"}}
		pr.Status.PermissionRequests = requests
		rendered := RenderClusterRoles(pr, DefinedResources(refs))
		if len(pairs) > 0 && len(rendered) != 3 {
			t.Fatalf("RenderClusterRoles returned %d roles for %d defined resources", len(rendered), len(pairs))
		}
		for _, cr := range rendered {
			if v := c18CheckProviderRole(cr.GetName(), cr.Rules, pairs, requests); v != "" {
				t.Fatalf("%s\nreferences: %s", v, verifkit.JSON(refs))
			}
		}
		classes := c18PluralClasses(pairs)
		for _, l := range classes {
			rec.Label("render:" + l)
		}
		if len(classes) > 0 {
			rec.NonTrivial(verifkit.JSON([]any{refs, requests}), func() any {
				return map[string]any{"refs": refs, "requests": requests, "classes": classes}
			})
		}
	})
}

// OrgDiffer against the by-construction oracle, on its own (many more pairs
// than the reconciler scenarios reach).
func TestVerifC18OrgDiffer(t *testing.T) {
	rec := verifkit.New(t, "C18", "pairs of package sources built from (registry, org, repo, tag) parts or malformed; oracle knows the parts; distinct=(default,a,b)")
	rapid.Check(t, func(t *rapid.T) {
		def := rapid.SampledFrom([]string{"xpkg.upbound.io", "index.docker.io", "registry.example.com:5000"}).Draw(t, "default")
		a, b := c18DrawPkg(t, "a"), c18DrawPkg(t, "b")
		if rapid.Bool().Draw(t, "related") && !a.IsMalformed {
			b = a
			b.Repo = rapid.SampledFrom(c18Repos).Draw(t, "brepo")
			b.Tag = rapid.SampledFrom(c18Tags).Draw(t, "btag")
			switch rapid.IntRange(0, 3).Draw(t, "vary") {
			case 0:
				if b.Registry == "" {
					b.Registry = def
				}
			case 1:
				b.Registry = rapid.SampledFrom(c18Registries).Draw(t, "breg")
			case 2:
				b.Org = rapid.SampledFrom(c18Orgs).Draw(t, "borg")
			}
			b = c18FixPkg(b)
		}
		rec.Eval()
		want := c18SameOrg(def, a, b)
		got := !OrgDiffer{DefaultRegistry: def}.Differs(a.String(), b.String())
		rec.Labelf("same=%v", want)
		// One direction only: the code may be stricter than the oracle, never laxer.
		if got && !want {
			t.Fatalf("OrgDiffer{%q} treats %q and %q as the same registry and organisation", def, a.String(), b.String())
		}
		if want && !got {
			rec.Label("stricter-than-oracle")
		}
		rec.NonTrivial(def+"|"+a.String()+"|"+b.String(), func() any { return map[string]any{"default": def, "a": a.String(), "b": b.String(), "same": want} })
	})
}

// ---------------------------------------------------------------------------
// (4) XRD-derived roles

func TestVerifC18XRDRoles(t *testing.T) {
	rec := verifkit.New(t, "C18", "XRDs over 3 groups x 4 plurals with and without claim names; every rendered role is compared with its documented grant on the whole request universe; distinct=(group,plural,claim)")
	rapid.Check(t, func(t *rapid.T) {
		group := rapid.SampledFrom([]string{"example.org", "apps.example.org", "other.io"}).Draw(t, "group")
		plurals := []string{"xwidgets", "xgadgets", "widgets", "composites"}
		plural := rapid.SampledFrom(plurals).Draw(t, "plural")
		d := &extv1.CompositeResourceDefinition{ObjectMeta: metav1.ObjectMeta{Name: plural + "." + group, UID: "xrd-uid"}}
		d.Spec.Group = group
		d.Spec.Names.Plural = plural
		d.Spec.Names.Kind = "XWidget"
		claim := ""
		if rapid.Bool().Draw(t, "hasclaim") {
			claim = rapid.SampledFrom([]string{"widgets", "gadgets", "claims", "xwidgetclaims"}).Draw(t, "claim")
			if claim == plural {
				claim += "claims"
			}
			cn := d.Spec.Names
			cn.Plural = claim
			cn.Kind = "Widget"
			d.Spec.ClaimNames = &cn
		}
		rec.Eval()
		rec.Labelf("claim=%v", claim != "")
		if v := c18CheckXRDRoles(d); v != "" {
			t.Fatalf("%s", v)
		}
		rec.NonTrivial(group+"|"+plural+"|"+claim, func() any { return map[string]any{"group": group, "plural": plural, "claimPlural": claim} })
	})
}

func c18CheckXRDRoles(d *extv1.CompositeResourceDefinition) string {
	group, plural := d.Spec.Group, d.Spec.Names.Plural
	all, read, upd := []string{"*"}, []string{"get", "list", "watch"}, []string{"update"}
	res := func(p string, verbs []string) rbacv1.PolicyRule {
		return rbacv1.PolicyRule{APIGroups: []string{group}, Resources: []string{p, p + "/status"}, Verbs: verbs}
	}
	fin := func(p string) rbacv1.PolicyRule {
		return rbacv1.PolicyRule{APIGroups: []string{group}, Resources: []string{p + "/finalizers"}, Verbs: upd}
	}
	want := map[string][]rbacv1.PolicyRule{
		":aggregate-to-crossplane": {res(plural, all), fin(plural)},
		":aggregate-to-edit":       {res(plural, all)},
		":aggregate-to-view":       {res(plural, read)},
		":aggregate-to-browse":     {res(plural, read)},
	}
	if d.Spec.ClaimNames != nil {
		cp := d.Spec.ClaimNames.Plural
		want[":aggregate-to-crossplane"] = append(want[":aggregate-to-crossplane"], res(cp, all), fin(cp))
		want[":aggregate-to-edit"] = append(want[":aggregate-to-edit"], res(cp, all))
		want[":aggregate-to-view"] = append(want[":aggregate-to-view"], res(cp, read))
		// browse: composite resources only.
	}
	roles := definition.RenderClusterRoles(d)
	seen := map[string]bool{}
	for _, cr := range roles {
		suffix := strings.TrimPrefix(cr.GetName(), "crossplane:composite:"+d.GetName())
		w, ok := want[suffix]
		if !ok {
			return fmt.Sprintf("XRD %s: unexpected role %q", d.GetName(), cr.GetName())
		}
		seen[suffix] = true
		for _, a := range c18Universe(cr.Rules, w, []rbacv1.PolicyRule{{APIGroups: []string{""}, Resources: []string{"secrets"}, Verbs: []string{"delete", "create", "patch"}}}) {
			got, exp := c18RulesAllow(a, cr.Rules), c18RulesAllow(a, w)
			if got && !exp {
				return fmt.Sprintf("XRD %s (claim: %v): role %q allows %s, which is beyond what this role may grant on the XRD's composite and claim resources (browse: composite only; view/browse: read only; finalizers: system role, update only)\nrules: %s", d.GetName(), d.Spec.ClaimNames != nil, cr.GetName(), a, verifkit.JSON(cr.Rules))
			}
			if !got && exp {
				return fmt.Sprintf("XRD %s (claim: %v): role %q does not allow %s on its own composite/claim resource\nrules: %s", d.GetName(), d.Spec.ClaimNames != nil, cr.GetName(), a, verifkit.JSON(cr.Rules))
			}
		}
	}
	if len(seen) != len(want) {
		return fmt.Sprintf("XRD %s: rendered roles %v, want the four documented ones", d.GetName(), seen)
	}
	return ""
}

// ---------------------------------------------------------------------------
// pinned regression rows (bypass rapid)

func TestVerifC18Pinned(t *testing.T) {
	rec := verifkit.New(t, "C18", "pinned regression inputs")
	type row struct {
		name     string
		allow    []rbacv1.PolicyRule
		requests []rbacv1.PolicyRule
	}
	rows := []row{
		{
			// resourceNames has no wildcard in Kubernetes: ["*"] is the single
			// object literally named "*". A request without resourceNames is a
			// request for every name and is not covered by it.
			name:     "allow-literal-star-name-vs-request-all-names",
			allow:    []rbacv1.PolicyRule{{APIGroups: []string{""}, Resources: []string{"secrets"}, ResourceNames: []string{"*"}, Verbs: []string{"get"}}},
			requests: []rbacv1.PolicyRule{{APIGroups: []string{""}, Resources: []string{"secrets"}, Verbs: []string{"get"}}},
		},
		{
			name:     "allow-star-and-literal-names-vs-request-all-names",
			allow:    []rbacv1.PolicyRule{{APIGroups: []string{"*"}, Resources: []string{"*"}, ResourceNames: []string{"a", "*"}, Verbs: []string{"*"}}},
			requests: []rbacv1.PolicyRule{{APIGroups: []string{"apps"}, Resources: []string{"deployments"}, Verbs: []string{"delete"}}},
		},
		{
			name:     "request-wildcards-vs-literal-allow",
			allow:    []rbacv1.PolicyRule{{APIGroups: []string{""}, Resources: []string{"pods"}, Verbs: []string{"get"}}},
			requests: []rbacv1.PolicyRule{{APIGroups: []string{"*"}, Resources: []string{"pods"}, Verbs: []string{"get"}}, {APIGroups: []string{""}, Resources: []string{"*"}, Verbs: []string{"get"}}, {APIGroups: []string{""}, Resources: []string{"pods"}, Verbs: []string{"*"}}},
		},
		{
			name:     "url-prefix-request-vs-literal-allow",
			allow:    []rbacv1.PolicyRule{{NonResourceURLs: []string{"/api/v1"}, Verbs: []string{"get"}}},
			requests: []rbacv1.PolicyRule{{NonResourceURLs: []string{"/api/*"}, Verbs: []string{"get"}}},
		},
	}
	for _, r := range rows {
		rec.Eval()
		if _, v := c18CheckValidator(r.allow, r.requests); v != "" {
			t.Errorf("pinned %s: %s", r.name, v)
		}
		// The same inputs through the reconciler: nothing may be written.
		sc := c18Scenario{
			DefaultRegistry: "xpkg.upbound.io", Allow: r.allow, AllowExists: true, Requests: r.requests,
			Target: c18Rev{Name: "provider-a-rev1", Pkg: c18Pkg{Org: "acme", Repo: "provider-a", Tag: ":v1.0.0"},
				Refs: []xpv1.TypedReference{{APIVersion: "apiextensions.k8s.io/v1", Kind: "CustomResourceDefinition", Name: "widgets.example.org"}}},
		}
		if out := c18RunScenario(sc); out.Violation != "" {
			t.Errorf("pinned %s (reconciler): %s", r.name, out.Violation)
		}
		rec.NonTrivial(r.name, func() any { return r.name })
	}

	// Family membership: same family label but another registry / organisation
	// must not contribute its CRDs; a same-org sibling does (sanity of the
	// scenario machinery: the sibling's CRD really shows up).
	mk := func(sibling c18Pkg, family string) c18Scenario {
		return c18Scenario{
			DefaultRegistry: "xpkg.upbound.io", AllowExists: true,
			Target: c18Rev{Name: "provider-a-rev1", Family: "family-acme", Pkg: c18Pkg{Org: "acme", Repo: "provider-a", Tag: ":v1.0.0"},
				Refs: []xpv1.TypedReference{{APIVersion: "apiextensions.k8s.io/v1", Kind: "CustomResourceDefinition", Name: "widgets.example.org"}}},
			Siblings: []c18Rev{{Name: "sibling-0-rev1", Family: family, Pkg: sibling,
				Refs: []xpv1.TypedReference{{APIVersion: "apiextensions.k8s.io/v1", Kind: "CustomResourceDefinition", Name: "things.other.io"}}}},
		}
	}
	fam := []struct {
		name    string
		sc      c18Scenario
		granted bool
	}{
		{"family-same-org", mk(c18Pkg{Registry: "xpkg.upbound.io", Org: "acme", Repo: "provider-b", Tag: ":v1.0.0"}, "family-acme"), true},
		{"family-other-registry", mk(c18Pkg{Registry: "evil.example.com", Org: "acme", Repo: "provider-b", Tag: ":v1.0.0"}, "family-acme"), false},
		{"family-other-org", mk(c18Pkg{Org: "evil", Repo: "provider-b", Tag: ":v1.0.0"}, "family-acme"), false},
		{"other-family-same-org", mk(c18Pkg{Org: "acme", Repo: "provider-b", Tag: ":v1.0.0"}, "family-other"), false},
	}
	for _, f := range fam {
		rec.Eval()
		out := c18RunScenario(f.sc)
		if out.Violation != "" {
			t.Errorf("pinned %s: %s", f.name, out.Violation)
			continue
		}
		got := c18RulesAllow(c18Attr{Res: true, Verb: "get", Group: "other.io", Resource: "things", Name: "x"}, out.SystemRules)
		if got != f.granted {
			t.Errorf("pinned %s: system role allows the sibling's CRD: %v, want %v (rules %s)", f.name, got, f.granted, verifkit.JSON(out.SystemRules))
		}
		if !c18RulesAllow(c18Attr{Res: true, Verb: "get", Group: "example.org", Resource: "widgets", Name: "x"}, out.SystemRules) {
			t.Errorf("pinned %s: harness sanity: the system role does not even allow the revision's own CRD (rules %s)", f.name, verifkit.JSON(out.SystemRules))
		}
		rec.NonTrivial(f.name, func() any { return f.name })
	}
}

// Self-test of the reference evaluator on rows taken from the Kubernetes RBAC
// documentation (so that a slip in the oracle shows up as a failing pinned row
// rather than as a silent hole).
func TestVerifC18ReferenceSelfTest(t *testing.T) {
	rec := verifkit.New(t, "C18", "reference evaluator self-test")
	r := func(g, res, names, verbs, urls []string) rbacv1.PolicyRule {
		return rbacv1.PolicyRule{APIGroups: g, Resources: res, ResourceNames: names, Verbs: verbs, NonResourceURLs: urls}
	}
	rows := []struct {
		rule rbacv1.PolicyRule
		a    c18Attr
		want bool
	}{
		{r([]string{""}, []string{"pods"}, nil, []string{"get"}, nil), c18Attr{Res: true, Verb: "get", Group: "", Resource: "pods", Name: "x"}, true},
		{r([]string{""}, []string{"pods"}, nil, []string{"get"}, nil), c18Attr{Res: true, Verb: "get", Group: "", Resource: "pods", Sub: "log", Name: "x"}, false},
		{r([]string{""}, []string{"pods/log"}, nil, []string{"get"}, nil), c18Attr{Res: true, Verb: "get", Group: "", Resource: "pods", Sub: "log", Name: "x"}, true},
		{r([]string{""}, []string{"*/log"}, nil, []string{"get"}, nil), c18Attr{Res: true, Verb: "get", Group: "", Resource: "pods", Sub: "log"}, true},
		{r([]string{""}, []string{"*/log"}, nil, []string{"get"}, nil), c18Attr{Res: true, Verb: "get", Group: "", Resource: "pods"}, false},
		{r([]string{""}, []string{"*"}, nil, []string{"get"}, nil), c18Attr{Res: true, Verb: "get", Group: "", Resource: "pods", Sub: "log"}, true},
		{r([]string{"*"}, []string{"*"}, nil, []string{"*"}, nil), c18Attr{Verb: "get", URL: "/healthz"}, false},
		{r([]string{""}, []string{"configmaps"}, []string{"my-config"}, []string{"get"}, nil), c18Attr{Res: true, Verb: "get", Resource: "configmaps", Name: "my-config"}, true},
		{r([]string{""}, []string{"configmaps"}, []string{"my-config"}, []string{"get"}, nil), c18Attr{Res: true, Verb: "get", Resource: "configmaps", Name: ""}, false},
		{r([]string{""}, []string{"configmaps"}, []string{"*"}, []string{"get"}, nil), c18Attr{Res: true, Verb: "get", Resource: "configmaps", Name: "my-config"}, false},
		{r(nil, nil, nil, []string{"get"}, []string{"/healthz", "/healthz/*"}), c18Attr{Verb: "get", URL: "/healthz/ready"}, true},
		{r(nil, nil, nil, []string{"get"}, []string{"/healthz", "/healthz/*"}), c18Attr{Verb: "get", URL: "/health"}, false},
		{r(nil, nil, nil, []string{"get"}, []string{"*"}), c18Attr{Verb: "post", URL: "/x"}, false},
		{r(nil, nil, nil, []string{"*"}, []string{"*"}), c18Attr{Res: true, Verb: "get", Resource: "pods"}, false},
	}
	for i, row := range rows {
		rec.Eval()
		if got := c18RuleAllows(row.a, row.rule); got != row.want {
			t.Errorf("reference row %d: rule %s, request %s: got %v want %v", i, verifkit.JSON(row.rule), row.a, got, row.want)
		}
	}
}

// ---------------------------------------------------------------------------
// histories: ONE long-lived validator and reconciler, the allow-list role is
// edited in place (same UID, new resourceVersion) or deleted and recreated
// between calls. Every verdict is judged against the allow-list as stored at
// the time of the call.

// c18RBACClient presents RBAC objects the way the real API server stores them:
// without a metadata.generation (the RBAC registry strategies never set one).
// verifsim stamps a generation on every kind and bumps it on every change
// outside metadata/status, which would hand the code under test a change
// signal that does not exist in a cluster.
type c18RBACClient struct{ client.Client }

func (c c18RBACClient) Get(ctx context.Context, key client.ObjectKey, obj client.Object, opts ...client.GetOption) error {
	err := c.Client.Get(ctx, key, obj, opts...)
	switch obj.(type) {
	case *rbacv1.ClusterRole, *rbacv1.ClusterRoleBinding, *rbacv1.Role, *rbacv1.RoleBinding:
		obj.SetGeneration(0)
	}
	return err
}

func c18StoredAllow(s *verifsim.Sim) (rules []rbacv1.PolicyRule, uid string, exists bool) {
	o := s.Get(c18RoleKey(c18AllowRole))
	if o == nil {
		return nil, "", false
	}
	cr := &rbacv1.ClusterRole{}
	if err := runtime.DefaultUnstructuredConverter.FromUnstructured(o, cr); err != nil {
		panic(err)
	}
	return cr.Rules, string(cr.GetUID()), true
}

// c18Shrank reports whether before allows a concrete request that after does not.
func c18Shrank(before, after []rbacv1.PolicyRule) bool {
	return c18Uncovered(before, after) != nil
}

func TestVerifC18AllowListHistories(t *testing.T) {
	rec := verifkit.New(t, "C18", "histories of 3-9 steps on one verifsim with ONE ClusterRoleBackedValidator and ONE roles Reconciler reused throughout: edit the allow-list ClusterRole in place (replace / remove a rule / add a rule; UID kept, no generation as for real RBAC objects), delete+recreate it, validate drawn permission requests, reconcile a new revision with drawn requests (2/3 of requests derived from rules the allow-list has or had); oracle per call against the allow-list as stored then; non-trivial = a call after the allow-list shrank in place; distinct=history")
	rapid.Check(t, func(t *rapid.T) {
		ctx := context.Background()
		var allow []rbacv1.PolicyRule
		for i := 0; i < rapid.IntRange(1, 3).Draw(t, "nallow"); i++ {
			allow = append(allow, c18Rule(t, true))
		}
		s := c18NewSim(allow, true)
		admin := s.Client("admin")
		setup := s.Client("package-manager")
		c := c18RBACClient{s.Client("rbac-manager")}
		v := NewClusterRoleBackedValidator(c, c18AllowRole)
		r := NewReconciler(c18Mgr{c: c}, WithPermissionRequestsValidator(v), WithOrgDiffer(OrgDiffer{DefaultRegistry: "xpkg.upbound.io"}))
		pool := append([]rbacv1.PolicyRule{}, allow...) // every rule the allow-list has or had
		rec.Eval()

		drawRequests := func() []rbacv1.PolicyRule {
			var out []rbacv1.PolicyRule
			for i := 0; i < rapid.IntRange(1, 3).Draw(t, "nreq"); i++ {
				if rapid.IntRange(0, 2).Draw(t, "derived") != 0 {
					out = append(out, c18Derive(t, pool[rapid.IntRange(0, len(pool)-1).Draw(t, "from")]))
				} else {
					out = append(out, c18Rule(t, false))
				}
			}
			return out
		}

		var history []string
		var lastCallAllow []rbacv1.PolicyRule // allow-list as stored at the previous call on v
		lastCallUID, called := "", false
		interesting := false
		classify := func() {
			cur, uid, _ := c18StoredAllow(s)
			switch {
			case !called:
				rec.Label("history:first-call")
			case uid != lastCallUID:
				rec.Label("history:allowlist-recreated-since-previous-call")
			case c18Shrank(lastCallAllow, cur):
				rec.Label("history:allowlist-shrank-in-place-since-previous-call")
				interesting = true
			case c18Shrank(cur, lastCallAllow):
				rec.Label("history:allowlist-grew-in-place-since-previous-call")
			default:
				rec.Label("history:allowlist-same-since-previous-call")
			}
			lastCallAllow, lastCallUID, called = cur, uid, true
		}

		nrev := 0
		nsteps := rapid.IntRange(3, 9).Draw(t, "nsteps")
		for step := 0; step < nsteps; step++ {
			op := rapid.IntRange(0, 9).Draw(t, "op")
			if step == 0 {
				op = 9 // start by using the validator, so that there is something to go stale
			}
			switch {
			case op <= 3: // edit in place
				cr := &rbacv1.ClusterRole{}
				if err := admin.Get(ctx, types.NamespacedName{Name: c18AllowRole}, cr); err != nil {
					t.Fatalf("admin get: %v", err)
				}
				switch k := rapid.IntRange(0, 3).Draw(t, "edit"); {
				case k == 0 && len(cr.Rules) > 0:
					i := rapid.IntRange(0, len(cr.Rules)-1).Draw(t, "drop")
					cr.Rules = append(append([]rbacv1.PolicyRule{}, cr.Rules[:i]...), cr.Rules[i+1:]...)
					history = append(history, "drop-rule")
				case k == 1:
					nr := c18Rule(t, true)
					cr.Rules = append(cr.Rules, nr)
					pool = append(pool, nr)
					history = append(history, "add-rule")
				case k == 2:
					cr.Rules = nil
					history = append(history, "clear-rules")
				default:
					nr := c18Rule(t, true)
					cr.Rules = []rbacv1.PolicyRule{nr}
					pool = append(pool, nr)
					history = append(history, "replace-rules")
				}
				if err := admin.Update(ctx, cr); err != nil {
					t.Fatalf("admin update: %v", err)
				}
			case op == 4: // delete and recreate (new UID)
				cur, _, _ := c18StoredAllow(s)
				if err := admin.Delete(ctx, &rbacv1.ClusterRole{ObjectMeta: metav1.ObjectMeta{Name: c18AllowRole}}); err != nil {
					t.Fatalf("admin delete: %v", err)
				}
				if rapid.Bool().Draw(t, "recreate-smaller") && len(cur) > 0 {
					cur = cur[1:]
				}
				if err := admin.Create(ctx, &rbacv1.ClusterRole{ObjectMeta: metav1.ObjectMeta{Name: c18AllowRole}, Rules: cur}); err != nil {
					t.Fatalf("admin create: %v", err)
				}
				history = append(history, "recreate")
			case op <= 6: // validate
				requests := drawRequests()
				classify()
				cur, _, _ := c18StoredAllow(s)
				rejected, err := v.ValidatePermissionRequests(ctx, requests...)
				history = append(history, "validate")
				if err != nil {
					t.Fatalf("ValidatePermissionRequests: %v (history %v)", err, history)
				}
				if len(rejected) == 0 {
					if a := c18Uncovered(requests, cur); a != nil {
						t.Fatalf("after %v the long-lived validator rejected nothing, yet the requests allow %s which the allow-list role as stored now does not allow\nallow-list now: %s\nrequests: %s", history, a, verifkit.JSON(cur), verifkit.JSON(requests))
					}
					if c18GrantsAnything(requests) {
						rec.Label("history:validate-accepted-nonempty")
					}
				} else {
					rec.Label("history:validate-rejected")
				}
			default: // reconcile a new revision
				requests := drawRequests()
				name := fmt.Sprintf("provider-%d-rev1", nrev)
				nrev++
				pr := c18RevObject(c18Rev{Name: name, Pkg: c18Pkg{Org: "acme", Repo: "provider-a", Tag: ":v1.0.0"}})
				if err := setup.Create(ctx, pr); err != nil {
					t.Fatalf("setup: %v", err)
				}
				pairs := [][2]string{{"example.org", "widgets"}}
				pr.Status.ObjectRefs = c18PairRefs(pairs)
				pr.Status.PermissionRequests = requests
				if err := setup.Status().Update(ctx, pr); err != nil {
					t.Fatalf("setup: %v", err)
				}
				classify()
				cur, _, _ := c18StoredAllow(s)
				before := s.LogLen()
				_, _ = r.Reconcile(ctx, reconcile.Request{NamespacedName: types.NamespacedName{Name: name}})
				history = append(history, "reconcile")
				uncovered := c18Uncovered(requests, cur)
				wrote := 0
				for _, w := range s.Log()[before:] {
					if w.Key.Group != rbacv1.GroupName || w.Key.Kind != "ClusterRole" {
						continue
					}
					wrote++
					if uncovered != nil {
						t.Fatalf("after %v the long-lived reconciler wrote %s %s although the requests allow %s, which the allow-list role as stored now does not allow\nallow-list now: %s\nrequests: %s", history, w.Verb, w.Key.Name, uncovered, verifkit.JSON(cur), verifkit.JSON(requests))
					}
					if w.Err != "" || w.After == nil {
						continue
					}
					cr := &rbacv1.ClusterRole{}
					if err := runtime.DefaultUnstructuredConverter.FromUnstructured(w.After, cr); err != nil {
						panic(err)
					}
					if viol := c18CheckProviderRole(cr.GetName(), cr.Rules, pairs, requests); viol != "" {
						t.Fatalf("after %v: %s", history, viol)
					}
				}
				if wrote > 0 {
					rec.Label("history:reconcile-wrote-roles")
				} else {
					rec.Label("history:reconcile-wrote-nothing")
				}
			}
		}
		if interesting {
			rec.NonTrivial(fmt.Sprint(history)+verifkit.JSON(pool), func() any { return map[string]any{"history": history} })
		}
	})
}
