//go:build verif

package c15

import (
	"bytes"
	"context"
	"fmt"
	"io"
	"sort"
	"strings"
	"sync"
	"testing"

	gcrv1 "github.com/google/go-containerregistry/pkg/v1"
	"github.com/google/go-containerregistry/pkg/v1/random"
	"github.com/spf13/afero"
	utilrand "k8s.io/apimachinery/pkg/util/rand"
	"pgregory.net/rapid"

	"github.com/crossplane/crossplane-runtime/pkg/parser"

	v1 "github.com/crossplane/crossplane/apis/pkg/v1"
	"github.com/crossplane/crossplane/internal/controller/pkg/revision"
	"github.com/crossplane/crossplane/internal/verifkit"
	"github.com/crossplane/crossplane/internal/xpkg"
	"github.com/crossplane/crossplane/internal/xpkg/parser/examples"
)

// ---------------------------------------------------------------------------
// xpkg build round trip

func parseImage(img gcrv1.Image) (metas, objs []string, err error) {
	f := newFetcher()
	d, derr := firstLayerDigest(img)
	if derr != nil {
		return nil, nil, derr
	}
	f.images[source] = builtImage{img: img, target: d}
	be := revision.NewImageBackend(f)
	pr := &v1.ProviderRevision{Spec: v1.ProviderRevisionSpec{PackageRevisionSpec: v1.PackageRevisionSpec{Package: source}}}
	rc, err := be.Init(context.Background(), revision.PackageRevision(pr))
	if err != nil {
		return nil, nil, err
	}
	pkg, err := parser.New(metaScheme, objScheme).Parse(context.Background(), rc)
	if err != nil {
		return nil, nil, err
	}
	return canonSet(pkg.GetMeta()), canonSet(pkg.GetObjects()), nil
}

func firstLayerDigest(img gcrv1.Image) (gcrv1.Hash, error) {
	ls, err := img.Layers()
	if err != nil || len(ls) == 0 {
		return gcrv1.Hash{}, fmt.Errorf("no layers: %v", err)
	}
	return ls[len(ls)-1].Digest()
}

// TestVerifC15BuildRoundTrip: what xpkg.Builder.Build produces from a package
// directory is read back by ImageBackend + parser (flattened, and annotated as
// `xpkg push` does) as the same meta object and the same objects, and a
// revision of the package's type establishes exactly those objects.
func TestVerifC15BuildRoundTrip(t *testing.T) {
	rec := verifkit.New(t, "C15", "build round trip: cases = package directory layout (files per object, multi-document files, nested directories, ignored files, examples) x contents x base image; non-trivial = build succeeded with >=1 object; distinct by (type, doc kinds, layout)")
	rapid.Check(t, func(t *rapid.T) {
		typ := rapid.SampledFrom(pkgTypes).Draw(t, "type")
		meta := doc{Kind: "meta:" + typ, Name: "pkg", MetaAPI: "v1"}
		if typ == tFunction && rapid.Bool().Draw(t, "beta") {
			meta.MetaAPI = "v1beta1"
		}
		if rapid.Bool().Draw(t, "constraint") {
			meta.Constraint = rapid.SampledFrom(append(append([]string{}, constraintsMet...), constraintsUnmet...)).Draw(t, "c")
		}
		kinds := map[string][]string{tProvider: {"crd", "crdbeta", "mwc", "vwc"}, tConfiguration: {"xrd", "composition"}, tFunction: {"crd", "crdbeta"}}[typ]
		n := rapid.IntRange(0, 6).Draw(t, "nobj")
		var docs []doc
		for i := 0; i < n; i++ {
			d := doc{Kind: rapid.SampledFrom(kinds).Draw(t, "kind"), Name: fmt.Sprintf("o%d", i)}
			if rapid.IntRange(0, 3).Draw(t, "padded") == 0 {
				d.Pad = rapid.SampledFrom([]int{700, 3300, 4096, 6000}).Draw(t, "pad")
			}
			docs = append(docs, d)
		}
		rec.Eval()
		fs := afero.NewMemMapFs()
		root := "/work/pkg"
		write := func(p string, b []byte) {
			if err := afero.WriteFile(fs, p, b, 0o644); err != nil {
				panic(err)
			}
		}
		write(root+"/crossplane.yaml", meta.yaml())
		// layout: objects spread over files, some files hold several documents
		var layout []string
		file := 0
		var cur bytes.Buffer
		flush := func() {
			if cur.Len() == 0 {
				return
			}
			dir := rapid.SampledFrom([]string{"", "/crds", "/apis/v1", "/z.d"}).Draw(t, "dir")
			ext := rapid.SampledFrom([]string{".yaml", ".yml"}).Draw(t, "ext")
			write(fmt.Sprintf("%s%s/f%d%s", root, dir, file, ext), cur.Bytes())
			layout = append(layout, fmt.Sprintf("%s/f%d", dir, file))
			file++
			cur.Reset()
		}
		for _, d := range docs {
			if cur.Len() > 0 {
				if rapid.Bool().Draw(t, "sameFile") {
					cur.WriteString("---\n")
				} else {
					flush()
				}
			}
			if cur.Len() == 0 && rapid.IntRange(0, 3).Draw(t, "leadSep") == 0 {
				cur.WriteString("---\n")
			}
			cur.Write(d.yaml())
		}
		flush()
		write(root+"/README.md", junk)
		write(root+"/empty.yaml", nil)
		write(root+"/notes.txt", []byte("kind: NotYAMLExtension\n"))
		hasExamples := rapid.Bool().Draw(t, "examples")
		if hasExamples {
			write(root+"/examples/ex.yaml", []byte("apiVersion: verif.example.org/v1\nkind: Ka\nmetadata:\n  name: example\n"))
		}
		filters := []parser.FilterFn{parser.SkipDirs(), parser.SkipNotYAML(), parser.SkipEmpty()}
		b := xpkg.New(
			parser.NewFsBackend(fs, parser.FsDir(root), parser.FsFilters(append(append([]parser.FilterFn{}, filters...), xpkg.SkipContains("examples"))...)),
			parser.NewFsBackend(fs, parser.FsDir(root+"/examples"), parser.FsFilters(filters...)),
			parser.New(metaScheme, objScheme), examples.New())
		var opts []xpkg.BuildOpt
		withBase := rapid.Bool().Draw(t, "withBase")
		if withBase {
			base, err := random.Image(256, int64(rapid.IntRange(1, 3).Draw(t, "baseLayers")))
			if err != nil {
				panic(err)
			}
			opts = append(opts, xpkg.WithBase(base))
		}
		img, gotMeta, err := b.Build(context.Background(), opts...)
		if err != nil {
			t.Fatalf("C15 violated: Build refuses a well-formed %s package directory: %v (docs %s)", typ, err, verifkit.JSON(docs))
		}
		all := append([]doc{meta}, docs...)
		want := render(all, true, false).objects()
		wantMeta := ""
		{
			pm, err := parser.New(metaScheme, objScheme).Parse(context.Background(), io.NopCloser(bytes.NewReader(meta.yaml())))
			if err != nil || len(pm.GetMeta()) != 1 {
				panic(fmt.Sprintf("reference meta parse: %v", err))
			}
			wantMeta = canon(pm.GetMeta()[0])
		}
		if canon(gotMeta) != wantMeta {
			t.Fatalf("C15 violated: Build returns meta %s, the directory declares %s", canon(gotMeta), wantMeta)
		}
		annotated, err := xpkg.AnnotateLayers(img)
		if err != nil {
			t.Fatalf("AnnotateLayers: %v", err)
		}
		for which, im := range map[string]gcrv1.Image{"as built (flattened filesystem)": img, "annotated as pushed": annotated} {
			ms, os, err := parseImage(im)
			if err != nil {
				t.Fatalf("C15 violated: image %s cannot be read back: %v", which, err)
			}
			if len(ms) != 1 || ms[0] != wantMeta {
				t.Fatalf("C15 violated: image %s parses back to meta %v, want %s", which, ms, wantMeta)
			}
			if !sameSet(os, want) {
				t.Fatalf("C15 violated: image %s parses back to %d objects, the directory declares %d\n got:  %s\n want: %s", which, len(os), len(want), brief(os), brief(want))
			}
		}
		// and a revision of that type installs exactly these objects
		e := newEnv(false)
		d, _ := firstLayerDigest(annotated)
		e.fetcher.images[source] = builtImage{img: annotated, target: d, valid: true}
		ign := true
		e.createRevision(revOpts{Type: typ, Name: "pkg-0a1b2c3d4e5f", Source: source, Ignore: &ign})
		if _, err, p := e.reconcile(typ, "pkg-0a1b2c3d4e5f"); err != nil || p != nil {
			t.Fatalf("C15 violated: a %s revision cannot install the package xpkg build produced: err=%v panic=%v", typ, err, p)
		}
		calls := e.est.take()
		if len(calls) != 1 || !sameSet(calls[0].Objs, want) {
			t.Fatalf("C15 violated: revision established %+v, the directory declares %d objects", calls, len(want))
		}
		rec.Label("type:" + typ)
		rec.Labelf("base:%v", withBase)
		rec.Labelf("examples:%v", hasExamples)
		if len(docs) > 0 {
			var dk []string
			for _, d := range docs {
				dk = append(dk, d.Kind)
			}
			rec.NonTrivial(typ+"|"+strings.Join(dk, ",")+"|"+strings.Join(layout, ","), func() any { return map[string]any{"type": typ, "docs": docs, "layout": layout} })
		}
	})
}

// ---------------------------------------------------------------------------
// concurrent reconciles sharing one cache (built with -race)

// TestVerifC15Concurrent: revisions that share the package cache - including a
// ProviderRevision and a ConfigurationRevision with the same name and image,
// i.e. the same cache key - are reconciled concurrently while the image stream
// fails now and then. No data race, no wrong install, and afterwards every
// installable revision installs exactly what its image declares.
func TestVerifC15Concurrent(t *testing.T) {
	rec := verifkit.New(t, "C15", "concurrent: cases = 3 revisions (two share name+image = cache key) x per-goroutine fault scripts, reconciled concurrently; every case is non-trivial; distinct by fault script")
	rapid.Check(t, func(t *rapid.T) {
		utilrand.Seed(rapid.Int64Range(1, 1<<40).Draw(t, "seed"))
		rec.Eval()
		docsA := []doc{{Kind: "meta:Provider", Name: "pkg", MetaAPI: "v1"}, {Kind: "crd", Name: "a", Pad: rapid.SampledFrom([]int{0, 3300, 6000}).Draw(t, "padA")}, {Kind: "crd", Name: "b"}, {Kind: "mwc", Name: "c"}}
		docsB := []doc{{Kind: "meta:Provider", Name: "other", MetaAPI: "v1"}, {Kind: "crd", Name: "x"}, {Kind: "crdbeta", Name: "y", Pad: rapid.SampledFrom([]int{0, 4096}).Draw(t, "padB")}}
		sA, sB := render(docsA, true, true), render(docsB, true, false)
		mk := func(s stream) builtImage {
			img, built := assemble([]layerSpec{{Annotation: "base", Files: []fileSpec{{Name: streamFile, Data: s.Bytes}}}})
			return builtImage{img: img, target: built[0].digest, streamOff: built[0].streamOff[streamFile], valid: true}
		}
		biA, biB := mk(sA), mk(sB)
		srcB := "xpkg.example.org/acme/other:v1.0.0"
		e := newEnv(false)
		e.fetcher.images[source] = biA
		e.fetcher.images[srcB] = biB
		type actor struct {
			typ, name, src string
			want           []string
			must           verdict
		}
		actors := []actor{
			{tProvider, "shared-0a1b2c3d4e5f", source, sA.objects(), mustInstall},
			{tConfiguration, "shared-0a1b2c3d4e5f", source, nil, mustNot}, // same cache key, wrong meta type
			{tProvider, "other-9f8e7d6c5b4a", srcB, sB.objects(), mustInstall},
		}
		for _, a := range actors {
			e.createRevision(revOpts{Type: a.typ, Name: a.name, Source: a.src})
		}
		opensA, _, _, _ := measure(biA)
		rounds := rapid.IntRange(2, 4).Draw(t, "rounds")
		// fault script: before round r, maybe arm a one-shot stream fault for a source
		type arm struct {
			Round int
			Src   string
			At    int
		}
		var arms []arm
		for r := 0; r < rounds; r++ {
			if rapid.IntRange(0, 2).Draw(t, "arm") == 0 {
				if rapid.Bool().Draw(t, "armA") {
					y, _ := genCut(t, sA)
					arms = append(arms, arm{r, source, biA.streamOff + y})
				} else {
					y, _ := genCut(t, sB)
					arms = append(arms, arm{r, srcB, biB.streamOff + y})
				}
			}
		}
		rec.Labelf("arms:%d", len(arms))
		for r := 0; r < rounds; r++ {
			for _, a := range arms {
				if a.Round == r {
					e.fetcher.mu.Lock()
					e.fetcher.plan[a.Src] = streamPlan{FailOpen: opensA - 1, At: a.At}
					e.fetcher.mu.Unlock()
				}
			}
			var wg sync.WaitGroup
			panics := make([]any, len(actors))
			for i, a := range actors {
				wg.Add(1)
				go func(i int, a actor) {
					defer wg.Done()
					_, _, panics[i] = e.reconcile(a.typ, a.name)
				}(i, a)
			}
			wg.Wait()
			for i, p := range panics {
				if p != nil {
					t.Fatalf("C15 violated: concurrent reconcile of %s/%s panicked: %v", actors[i].typ, actors[i].name, p)
				}
			}
			for _, c := range e.est.take() {
				for _, a := range actors {
					if a.typ == c.Kind && a.name == c.Rev {
						if a.must == mustNot {
							t.Fatalf("C15 violated: round %d: %s %s (package meta is not of its type) was established", r, a.typ, a.name)
						}
						if !sameSet(c.Objs, a.want) {
							t.Fatalf("C15 violated: round %d: %s %s established %d objects, its image declares %d (arms %+v)\n got:  %s\n want: %s", r, a.typ, a.name, len(c.Objs), len(a.want), arms, brief(c.Objs), brief(a.want))
						}
					}
				}
			}
		}
		e.fetcher.mu.Lock()
		e.fetcher.plan = map[string]streamPlan{}
		e.fetcher.mu.Unlock()
		// quiescent tail, sequential
		for i := 0; i < 3; i++ {
			for _, a := range actors {
				_, err, p := e.reconcile(a.typ, a.name)
				if p != nil {
					t.Fatalf("C15 violated: reconcile panicked: %v", p)
				}
				calls := e.est.take()
				for _, c := range calls {
					if a.must == mustNot {
						t.Fatalf("C15 violated: tail: %s %s (package meta is not of its type) was established", a.typ, a.name)
					}
					if !sameSet(c.Objs, a.want) {
						t.Fatalf("C15 violated: tail %d: %s %s established %d objects, its image declares %d (arms %+v)", i, a.typ, a.name, len(c.Objs), len(a.want), arms)
					}
				}
				if a.must == mustInstall && i >= 1 && len(calls) != 1 {
					t.Fatalf("C15 violated: tail %d: NOT INSTALLED AFTER A FAILED CACHE WRITE: %s %s is not installed although everything is healthy again: err=%v (arms %+v)", i, a.typ, a.name, err, arms)
				}
			}
		}
		// what the cache holds in the end is only observed; the tail above read it
		for _, k := range []struct {
			id string
			s  stream
		}{{"shared-0a1b2c3d4e5f", sA}, {"other-9f8e7d6c5b4a", sB}} {
			if b := cacheEntry(e.fs.Fs, k.id); b != nil {
				if plain, err := gunzip(b); err != nil || !bytes.Equal(plain, k.s.Bytes) {
					rec.Label("cache:entry-differs-after-concurrent-reconciles")
				}
			}
		}
		var key []string
		for _, a := range arms {
			key = append(key, fmt.Sprintf("%d:%s:%d", a.Round, a.Src, a.At))
		}
		sort.Strings(key)
		rec.NonTrivial(fmt.Sprintf("%d|%s|%d|%d", rounds, strings.Join(key, ","), len(sA.Bytes), len(sB.Bytes)), func() any { return map[string]any{"rounds": rounds, "arms": arms} })
	})
}
