//go:build verif

package c15

import (
	"bytes"
	"context"
	"encoding/json"
	"fmt"
	"io"
	"strings"
	"testing"

	utilrand "k8s.io/apimachinery/pkg/util/rand"
	"k8s.io/utils/ptr"
	"pgregory.net/rapid"

	"github.com/crossplane/crossplane-runtime/pkg/parser"

	pkgmetav1 "github.com/crossplane/crossplane/apis/pkg/meta/v1"
	"github.com/crossplane/crossplane/internal/verifkit"
	"github.com/crossplane/crossplane/internal/verifsim"
	"github.com/crossplane/crossplane/internal/xpkg"
)

// ---------------------------------------------------------------------------
// interloper: an unrelated revision's reconcile in between must not change
// what a revision's reconcile decides and writes.
//
// Revisions A and B of the same package type are served by the same
// Reconciler instance (as in production: one controller per revision kind).
// controller-runtime never runs two reconciles of ONE object concurrently, but
// reconciles of different objects do interleave. Here the interleaving is
// produced deterministically: immediately before A's k-th API call (every k) a
// complete reconcile of B runs through the same Reconciler (and/or B's
// stream goes through the parser/linter/metadata-conversion path standalone),
// then A continues. Differential oracle: everything observed about A - the
// establisher calls, the metadata handed to the dependency manager, the
// reconcile result/error, every write to A and A's final state - equals what
// is observed when A is reconciled alone from the same start state. On top of
// that the absolute clauses of the install check hold for A and for B.

type ilScenario struct {
	Type    string `json:"type"`
	A       []doc  `json:"a"`
	B       []doc  `json:"b"`
	IgnoreA *bool  `json:"ignoreA,omitempty"`
	WarmB   bool   `json:"warmB"` // B was reconciled once before A starts
	Mode    string `json:"mode"`  // reconcile | standalone | both
	Seed    int64  `json:"seed"`
}

const (
	ilRevA = "pkg-a-0a1b2c3d4e5f"
	ilRevB = "pkg-b-9f8e7d6c5b4a"
	ilSrcA = "xpkg.example.org/acme/pkg-a:v1.0.0"
	ilSrcB = "xpkg.example.org/acme/pkg-b:v2.0.0"
)

// servedMetaAPIs lists every served version of the metadata kinds (hub = v1).
var servedMetaAPIs = map[string][]string{
	tProvider:      {"v1", "v1alpha1"},
	tConfiguration: {"v1", "v1alpha1"},
	tFunction:      {"v1", "v1beta1"},
}

func genIlDocs(t *rapid.T, typ, tag string) []doc {
	m := doc{Kind: "meta:" + typ, Name: "meta-" + tag, MetaAPI: rapid.SampledFrom(servedMetaAPIs[typ]).Draw(t, "metaAPI"+tag)}
	switch rapid.IntRange(0, 5).Draw(t, "constraint"+tag) {
	case 0, 1:
		m.Constraint = rapid.SampledFrom(constraintsMet).Draw(t, "cmet"+tag)
	case 2, 3:
		m.Constraint = rapid.SampledFrom(constraintsUnmet).Draw(t, "cunmet"+tag)
	}
	nd := rapid.IntRange(0, 2).Draw(t, "ndeps"+tag)
	for i := 0; i < nd; i++ {
		m.Deps = append(m.Deps, fmt.Sprintf("xpkg.example.org/acme/dep-%s-%d", tag, i))
	}
	kinds := map[string][]string{tProvider: {"crd", "crdbeta", "mwc", "vwc"}, tConfiguration: {"xrd", "composition"}, tFunction: {"crd", "crdbeta"}}[typ]
	docs := []doc{m}
	n := rapid.IntRange(0, 3).Draw(t, "nobj"+tag)
	for i := 0; i < n; i++ {
		docs = append(docs, doc{Kind: rapid.SampledFrom(kinds).Draw(t, "kind"+tag), Name: fmt.Sprintf("%s%d", tag, i)})
	}
	return docs
}

// ilOutcome is everything observed about one revision over a run.
type ilOutcome struct {
	Est    []estCall `json:"est"`
	Deps   []depCall `json:"deps"`
	Errs   []string  `json:"errs"`
	Writes []string  `json:"writes"`
	Final  string    `json:"final"`
}

func scrub(v any) any {
	switch x := v.(type) {
	case map[string]any:
		out := map[string]any{}
		for k, e := range x {
			switch k {
			case "resourceVersion", "managedFields", "lastTransitionTime", "creationTimestamp":
				continue
			}
			out[k] = scrub(e)
		}
		return out
	case []any:
		out := make([]any, len(x))
		for i := range x {
			out[i] = scrub(x[i])
		}
		return out
	}
	return v
}

func scrubbed(o verifsim.Obj) string {
	if o == nil {
		return "<absent>"
	}
	b, _ := json.Marshal(scrub(map[string]any(verifsim.DeepCopy(o))))
	return string(b)
}

type ilFixture struct {
	sc       ilScenario
	sA, sB   stream
	biA, biB builtImage
}

func newIlFixture(sc ilScenario) ilFixture {
	f := ilFixture{sc: sc, sA: render(sc.A, true, false), sB: render(sc.B, true, true)}
	mk := func(s stream) builtImage {
		img, built := assemble([]layerSpec{{Annotation: "base", Files: []fileSpec{{Name: streamFile, Data: s.Bytes}}}})
		return builtImage{img: img, target: built[0].digest, streamOff: built[0].streamOff[streamFile], valid: true}
	}
	f.biA, f.biB = mk(f.sA), mk(f.sB)
	return f
}

// standalone runs B's stream through the parser, the type's linter and the
// metadata conversion the reconciler uses, outside any reconcile.
func (f ilFixture) standalone() {
	pkg, err := parser.New(metaScheme, objScheme).Parse(context.Background(), io.NopCloser(bytes.NewReader(f.sB.Bytes)))
	if err != nil {
		panic(err)
	}
	_ = linterFor(f.sc.Type).Lint(pkg)
	for _, m := range pkg.GetMeta() {
		if p, ok := xpkg.TryConvertToPkg(m, &pkgmetav1.Provider{}, &pkgmetav1.Configuration{}, &pkgmetav1.Function{}); ok {
			_ = xpkg.PackageCrossplaneCompatible(fixedVersion(runningVersion))(p)
		}
	}
}

// run reconciles A twice (cold, then from the cache) from the fixture's start
// state, with the interloper before API call k (k = 0: A alone). It returns
// what was observed about A and about B, and the number of API calls A made.
func (f ilFixture) run(k int) (a, b ilOutcome, calls int, panicked any) {
	sc := f.sc
	utilrand.Seed(sc.Seed)
	e := newEnv(false)
	e.fetcher.images[ilSrcA] = f.biA
	e.fetcher.images[ilSrcB] = f.biB
	no := false
	e.createRevision(revOpts{Type: sc.Type, Name: ilRevA, Source: ilSrcA, Ignore: sc.IgnoreA, SkipDeps: &no})
	e.createRevision(revOpts{Type: sc.Type, Name: ilRevB, Source: ilSrcB, SkipDeps: &no})
	if sc.WarmB {
		if _, _, p := e.reconcile(sc.Type, ilRevB); p != nil {
			return a, b, 0, p
		}
	}
	// B's earlier reconcile is part of the start state, not of the observation
	e.est.take()
	e.deps.take()
	logAt := e.sim.LogLen()

	h := e.hooks[sc.Type]
	var fn func()
	if k > 0 {
		fn = func() {
			if sc.Mode == "standalone" || sc.Mode == "both" {
				f.standalone()
			}
			if sc.Mode == "reconcile" || sc.Mode == "both" {
				_, err, p := e.reconcile(sc.Type, ilRevB)
				if p != nil {
					panicked = p
				}
				b.Errs = append(b.Errs, fmt.Sprint(err))
			}
		}
	}
	h.arm(k, fn)
	for i := 0; i < 2; i++ {
		_, err, p := e.reconcile(sc.Type, ilRevA)
		if p != nil {
			panicked = p
		}
		a.Errs = append(a.Errs, fmt.Sprint(err))
	}
	calls = h.disarm()

	for _, c := range e.est.take() {
		if c.Rev == ilRevA {
			a.Est = append(a.Est, c)
		} else {
			b.Est = append(b.Est, c)
		}
	}
	for _, c := range e.deps.take() {
		if c.Rev == ilRevA {
			a.Deps = append(a.Deps, c)
		} else {
			b.Deps = append(b.Deps, c)
		}
	}
	kind := sc.Type + "Revision"
	for _, w := range e.sim.Log()[logAt:] {
		if w.Key.Kind != kind {
			continue
		}
		line := fmt.Sprintf("%s/%s err=%q %s", w.Verb, w.Sub, w.Err, scrubbed(w.After))
		if w.Key.Name == ilRevA {
			a.Writes = append(a.Writes, line)
		} else {
			b.Writes = append(b.Writes, line)
		}
	}
	a.Final = scrubbed(e.sim.Get(verifsim.Key{Group: "pkg.crossplane.io", Kind: kind, Name: ilRevA}))
	b.Final = scrubbed(e.sim.Get(verifsim.Key{Group: "pkg.crossplane.io", Kind: kind, Name: ilRevB}))
	return a, b, calls, panicked
}

// absolute applies the install check's clauses to the establisher calls of one revision.
func ilAbsolute(who string, typ string, docs []doc, ignore bool, est []estCall) string {
	v, reason := classify(typ, docs, ignore)
	want := render(docs, true, false).objects()
	for _, c := range est {
		if v == mustNot {
			return fmt.Sprintf("%s: MUST-NOT-INSTALL (%s) but the establisher was called with %d objects", who, reason, len(c.Objs))
		}
		if !sameSet(c.Objs, want) {
			return fmt.Sprintf("%s: WRONG OBJECTS: established %d objects, its image declares %d\n established: %s\n declared:    %s", who, len(c.Objs), len(want), brief(c.Objs), brief(want))
		}
	}
	return ""
}

func firstDiff(a, b ilOutcome) string {
	ja, jb := verifkit.JSON(a.Est), verifkit.JSON(b.Est)
	if ja != jb {
		return fmt.Sprintf("establisher calls differ:\n alone:       %s\n interleaved: %s", shorten(ja), shorten(jb))
	}
	ja, jb = verifkit.JSON(a.Deps), verifkit.JSON(b.Deps)
	if ja != jb {
		return fmt.Sprintf("metadata handed to the dependency manager differs:\n alone:       %s\n interleaved: %s", ja, jb)
	}
	ja, jb = verifkit.JSON(a.Errs), verifkit.JSON(b.Errs)
	if ja != jb {
		return fmt.Sprintf("reconcile errors differ:\n alone:       %s\n interleaved: %s", ja, jb)
	}
	if len(a.Writes) != len(b.Writes) {
		return fmt.Sprintf("number of writes to the revision differs: alone %d, interleaved %d\n alone:       %s\n interleaved: %s", len(a.Writes), len(b.Writes), shorten(strings.Join(a.Writes, "\n   ")), shorten(strings.Join(b.Writes, "\n   ")))
	}
	for i := range a.Writes {
		if a.Writes[i] != b.Writes[i] {
			return fmt.Sprintf("write %d to the revision differs:\n alone:       %s\n interleaved: %s", i, shorten(a.Writes[i]), shorten(b.Writes[i]))
		}
	}
	if a.Final != b.Final {
		return fmt.Sprintf("final state of the revision differs:\n alone:       %s\n interleaved: %s", shorten(a.Final), shorten(b.Final))
	}
	return ""
}

func shorten(s string) string {
	if len(s) > 1600 {
		return s[:1600] + "..."
	}
	return s
}

// ilCheck runs the whole differential for one scenario; "" = holds.
func ilCheck(sc ilScenario, rec *verifkit.Recorder) string {
	f := newIlFixture(sc)
	ignore := sc.IgnoreA != nil && *sc.IgnoreA
	base, _, n, p := f.run(0)
	if p != nil {
		return fmt.Sprintf("reconcile of A alone panicked: %v", p)
	}
	if v := ilAbsolute("A alone", sc.Type, sc.A, ignore, base.Est); v != "" {
		return v
	}
	vA, _ := classify(sc.Type, sc.A, ignore)
	if vA == mustInstall && len(base.Est) != 2 {
		return fmt.Sprintf("A alone: an installable package was established %d times in two healthy reconciles (errs %v)", len(base.Est), base.Errs)
	}
	if rec != nil {
		rec.Labelf("interloper:A-api-calls:%d", n)
	}
	for k := 1; k <= n; k++ {
		a, b, _, p := f.run(k)
		if p != nil {
			return fmt.Sprintf("k=%d: reconcile panicked: %v", k, p)
		}
		where := fmt.Sprintf("B (%s) runs immediately before A's API call %d of %d", sc.Mode, k, n)
		if v := ilAbsolute(where+": A", sc.Type, sc.A, ignore, a.Est); v != "" {
			return v
		}
		if v := ilAbsolute(where+": B", sc.Type, sc.B, false, b.Est); v != "" {
			return v
		}
		for _, c := range b.Deps {
			if c.Meta != sc.B[0].Name {
				return fmt.Sprintf("%s: B's dependencies were resolved from metadata %q, its image declares %q", where, c.Meta, sc.B[0].Name)
			}
		}
		if d := firstDiff(base, a); d != "" {
			return fmt.Sprintf("%s: A's reconcile is not the one A has alone from the same start state: %s", where, d)
		}
		if rec != nil {
			rec.Label("interloper:interleavings")
		}
	}
	return ""
}

// TestVerifC15Interloper: see the comment at the top of this file.
func TestVerifC15Interloper(t *testing.T) {
	rec := verifkit.New(t, "C15", "interloper: cases = revision pair A,B of one package type (metadata apiVersion from every served version, constraints met/unmet/none, dependencies, objects) x B warm/cold x interloper mode (complete reconcile of B through the same Reconciler / parser+linter+conversion standalone / both) x every API call k of A's two reconciles; non-trivial = A and B differ in constraint class or dependencies and at least one has non-hub metadata; distinct by (type, apis, constraints, deps, object kinds, mode, warm)")
	rapid.Check(t, func(t *rapid.T) {
		sc := ilScenario{Seed: rapid.Int64Range(1, 1<<40).Draw(t, "seed")}
		sc.Type = rapid.SampledFrom(pkgTypes).Draw(t, "type")
		sc.A = genIlDocs(t, sc.Type, "a")
		sc.B = genIlDocs(t, sc.Type, "b")
		switch rapid.IntRange(0, 3).Draw(t, "ignoreA") {
		case 0:
			sc.IgnoreA = ptr.To(true)
		case 1:
			sc.IgnoreA = ptr.To(false)
		}
		sc.WarmB = rapid.Bool().Draw(t, "warmB")
		sc.Mode = rapid.SampledFrom([]string{"reconcile", "reconcile", "standalone", "both"}).Draw(t, "mode")
		rec.Eval()
		ma, mb := sc.A[0], sc.B[0]
		rec.Label("interloper:metaA:" + ma.MetaAPI)
		rec.Label("interloper:metaB:" + mb.MetaAPI)
		hubs := 0
		if ma.MetaAPI == "v1" {
			hubs++
		}
		if mb.MetaAPI == "v1" {
			hubs++
		}
		rec.Labelf("interloper:hub-versions-in-pair:%d", hubs)
		rec.Label("interloper:mode:" + sc.Mode)
		cls := func(c string) string {
			switch {
			case c == "":
				return "none"
			case in(constraintsMet, c):
				return "met"
			}
			return "unmet"
		}
		rec.Label("interloper:constraints:A-" + cls(ma.Constraint) + "/B-" + cls(mb.Constraint))
		if viol := ilCheck(sc, rec); viol != "" {
			t.Fatalf("C15 violated: %s\nscenario: %s", viol, verifkit.JSON(sc))
		}
		if hubs < 2 && (cls(ma.Constraint) != cls(mb.Constraint) || len(ma.Deps) != len(mb.Deps)) {
			var ka, kb []string
			for _, d := range sc.A {
				ka = append(ka, d.Kind)
			}
			for _, d := range sc.B {
				kb = append(kb, d.Kind)
			}
			key := strings.Join([]string{sc.Type, ma.MetaAPI, mb.MetaAPI, ma.Constraint, mb.Constraint, fmt.Sprint(len(ma.Deps), len(mb.Deps)), strings.Join(ka, ","), strings.Join(kb, ","), sc.Mode, fmt.Sprint(sc.WarmB)}, "|")
			rec.NonTrivial(key, func() any { return sc })
		}
	})
}

// TestVerifC15InterloperPinned: fixed pairs, every served metadata version,
// every interloper mode (plain table, no rapid).
func TestVerifC15InterloperPinned(t *testing.T) {
	rec := verifkit.New(t, "C15", "interloper pinned rows")
	for _, typ := range pkgTypes {
		kind := map[string]string{tProvider: "crd", tConfiguration: "xrd", tFunction: "crd"}[typ]
		for _, apiA := range servedMetaAPIs[typ] {
			for _, apiB := range servedMetaAPIs[typ] {
				for _, mode := range []string{"reconcile", "standalone"} {
					for _, warm := range []bool{false, true} {
						name := fmt.Sprintf("%s/A-%s-unmet/B-%s-met/%s/warmB=%v", typ, apiA, apiB, mode, warm)
						t.Run(name, func(t *testing.T) {
							rec.Eval()
							sc := ilScenario{Type: typ, Mode: mode, WarmB: warm, Seed: 11,
								A: []doc{{Kind: "meta:" + typ, Name: "meta-a", MetaAPI: apiA, Constraint: ">=1.15.0", Deps: []string{"xpkg.example.org/acme/dep-a-0"}}, {Kind: kind, Name: "a0"}},
								B: []doc{{Kind: "meta:" + typ, Name: "meta-b", MetaAPI: apiB, Constraint: ">=1.0.0", Deps: []string{"xpkg.example.org/acme/dep-b-0", "xpkg.example.org/acme/dep-b-1"}}, {Kind: kind, Name: "b0"}, {Kind: kind, Name: "b1"}},
							}
							if v := ilCheck(sc, nil); v != "" {
								t.Fatalf("C15 violated (pinned): %s", v)
							}
							// and the other way round: A installable, B not
							sc.A, sc.B = sc.B, sc.A
							sc.A[0].Name, sc.B[0].Name = "meta-a", "meta-b"
							if v := ilCheck(sc, nil); v != "" {
								t.Fatalf("C15 violated (pinned, swapped): %s", v)
							}
						})
					}
				}
			}
		}
	}
}
