//go:build verif

package c15

import (
	"context"
	"fmt"
	"strings"
	"testing"

	corev1 "k8s.io/api/core/v1"
	"k8s.io/apimachinery/pkg/types"
	utilrand "k8s.io/apimachinery/pkg/util/rand"
	"k8s.io/utils/ptr"
	"pgregory.net/rapid"

	v1 "github.com/crossplane/crossplane/apis/pkg/v1"
	"github.com/crossplane/crossplane/internal/verifkit"
)

// ---------------------------------------------------------------------------
// histories of one revision: the constraints verdict is re-evaluated in every
// reconcile against the CURRENT spec.ignoreCrossplaneConstraints and the
// CURRENT running Crossplane version. A reconcile in which the package's
// constraints are unmet and not ignored establishes nothing and does not leave
// the revision Healthy=True - however healthy it was before.

// hand-made table: is the constraint met by the running version?
var histVersions = []string{"1.14.2", "2.3.0"}

var histMet = map[string]map[string]bool{
	"1.14.2": {"": true, ">=1.0.0": true, "^1.2.0": true, ">=1.15.0": false, "^2.0.0": false, "<1.0.0": false},
	"2.3.0":  {"": true, ">=1.0.0": true, "^1.2.0": false, ">=1.15.0": true, "^2.0.0": true, "<1.0.0": false},
}

var histConstraints = []string{"", ">=1.0.0", "^1.2.0", "^1.2.0", ">=1.15.0", ">=1.15.0", "^2.0.0", "<1.0.0"}

type hstep struct {
	// Ignore: "" = leave the flag as it is | nil | true | false
	Ignore  string `json:"ignore,omitempty"`
	Version string `json:"version,omitempty"` // "" = leave the running version as it is
}

type hscenario struct {
	Type       string  `json:"type"`
	MetaAPI    string  `json:"metaAPI"`
	Constraint string  `json:"constraint"`
	Ignore0    string  `json:"ignore0"` // nil | true | false
	Version0   string  `json:"version0"`
	Steps      []hstep `json:"steps"`
	Seed       int64   `json:"seed"`
}

func ignorePtr(s string) *bool {
	switch s {
	case "true":
		return ptr.To(true)
	case "false":
		return ptr.To(false)
	}
	return nil
}

func hrun(sc hscenario, rec *verifkit.Recorder) string {
	utilrand.Seed(sc.Seed)
	kind := map[string]string{tProvider: "crd", tConfiguration: "xrd", tFunction: "crd"}[sc.Type]
	docs := []doc{{Kind: "meta:" + sc.Type, Name: "pkg", MetaAPI: sc.MetaAPI, Constraint: sc.Constraint}, {Kind: kind, Name: "a"}, {Kind: kind, Name: "b"}}
	s := render(docs, true, true)
	img, built := assemble([]layerSpec{{Annotation: "base", Files: []fileSpec{{Name: streamFile, Data: s.Bytes}}}})
	e := newEnv(false)
	e.fetcher.images[source] = builtImage{img: img, target: built[0].digest, valid: true}
	const rev = "pkg-0a1b2c3d4e5f"
	e.createRevision(revOpts{Type: sc.Type, Name: rev, Source: source, Ignore: ignorePtr(sc.Ignore0)})
	e.ver.set(sc.Version0)
	ignore, version := sc.Ignore0, sc.Version0
	expected := s.objects()
	wasHealthy, prevBlocked := false, false
	label := func(l string) {
		if rec != nil {
			rec.Label(l)
		}
	}
	steps := append([]hstep{{}}, sc.Steps...)
	for i, st := range steps {
		if st.Ignore != "" && st.Ignore != ignore {
			pr := newRev(sc.Type)
			c := e.sim.Client("user")
			if err := c.Get(context.Background(), types.NamespacedName{Name: rev}, pr); err != nil {
				panic(err)
			}
			pr.SetIgnoreCrossplaneConstraints(ignorePtr(st.Ignore))
			if err := c.Update(context.Background(), pr); err != nil {
				panic(err)
			}
			ignore = st.Ignore
			label("history:ignore-flag-changed")
		}
		if st.Version != "" && st.Version != version {
			e.ver.set(st.Version)
			version = st.Version
			label("history:running-version-changed")
		}
		_, err, p := e.reconcile(sc.Type, rev)
		if p != nil {
			return fmt.Sprintf("reconcile %d panicked: %v", i, p)
		}
		blocked := !histMet[version][sc.Constraint] && ignore != "true"
		calls := e.est.take()
		pr := newRev(sc.Type)
		if gerr := e.sim.Client("observer").Get(context.Background(), types.NamespacedName{Name: rev}, pr); gerr != nil {
			panic(gerr)
		}
		healthy := pr.GetCondition(v1.TypeHealthy).Status == corev1.ConditionTrue
		where := fmt.Sprintf("reconcile %d (constraint %q, running version %s, ignoreCrossplaneConstraints=%s, Healthy before=%v)", i, sc.Constraint, version, ignore, wasHealthy)
		if blocked {
			label("history:reconcile-with-unmet-constraints")
			if wasHealthy {
				label("class:became-incompatible-after-healthy")
			}
			if len(calls) > 0 {
				return fmt.Sprintf("%s: MUST-NOT-INSTALL (unmet-constraint) but the establisher was called with %d objects (err=%v)", where, len(calls[0].Objs), err)
			}
			if healthy {
				return fmt.Sprintf("%s: the revision is reported Healthy=True although its package's Crossplane constraints are not met and not ignored (err=%v)", where, err)
			}
		} else {
			label("history:reconcile-compatible")
			if prevBlocked {
				label("class:became-compatible-after-refusal")
			}
			for _, c := range calls {
				if !sameSet(c.Objs, expected) {
					return fmt.Sprintf("%s: WRONG OBJECTS: established %d objects, the image declares %d", where, len(c.Objs), len(expected))
				}
			}
			if len(calls) != 1 {
				return fmt.Sprintf("%s: an installable package was established %d times in a healthy reconcile (err=%v)", where, len(calls), err)
			}
		}
		wasHealthy, prevBlocked = healthy, blocked
	}
	return ""
}

func TestVerifC15ConstraintHistory(t *testing.T) {
	rec := verifkit.New(t, "C15", "constraint history: cases = package constraint x initial ignore flag/running version x 1-4 further reconciles of the same revision, before each of which spec.ignoreCrossplaneConstraints and/or the running Crossplane version may change; non-trivial = the verdict changes at least once; distinct by scenario")
	rapid.Check(t, func(t *rapid.T) {
		sc := hscenario{Seed: rapid.Int64Range(1, 1<<40).Draw(t, "seed")}
		sc.Type = rapid.SampledFrom(pkgTypes).Draw(t, "type")
		sc.MetaAPI = rapid.SampledFrom(servedMetaAPIs[sc.Type]).Draw(t, "metaAPI")
		sc.Constraint = rapid.SampledFrom(histConstraints).Draw(t, "constraint")
		sc.Ignore0 = rapid.SampledFrom([]string{"nil", "true", "true", "false"}).Draw(t, "ignore0")
		sc.Version0 = rapid.SampledFrom(histVersions).Draw(t, "version0")
		n := rapid.IntRange(1, 4).Draw(t, "nsteps")
		for i := 0; i < n; i++ {
			sc.Steps = append(sc.Steps, hstep{
				Ignore:  rapid.SampledFrom([]string{"", "", "nil", "true", "false", "false"}).Draw(t, "ignore"),
				Version: rapid.SampledFrom([]string{"", "", "1.14.2", "2.3.0"}).Draw(t, "version"),
			})
		}
		rec.Eval()
		if viol := hrun(sc, rec); viol != "" {
			t.Fatalf("C15 violated: %s\nscenario: %s", viol, verifkit.JSON(sc))
		}
		// non-trivial: the verdict changes along the history
		ign, ver := sc.Ignore0, sc.Version0
		prev := !histMet[ver][sc.Constraint] && ign != "true"
		changed := false
		for _, st := range sc.Steps {
			if st.Ignore != "" {
				ign = st.Ignore
			}
			if st.Version != "" {
				ver = st.Version
			}
			b := !histMet[ver][sc.Constraint] && ign != "true"
			if b != prev {
				changed = true
			}
			prev = b
		}
		if changed {
			rec.NonTrivial(verifkit.JSON(sc), func() any { return sc })
		}
	})
}

// TestVerifC15PinnedConstraintHistory (plain table, no rapid).
func TestVerifC15PinnedConstraintHistory(t *testing.T) {
	rec := verifkit.New(t, "C15", "pinned rows: constraint history")
	rows := []struct {
		name string
		sc   hscenario
	}{
		{"healthy-with-ignore-then-flag-cleared", hscenario{Constraint: ">=1.15.0", Ignore0: "true", Version0: "1.14.2", Steps: []hstep{{}, {Ignore: "false"}, {}}}},
		{"healthy-with-ignore-then-flag-removed", hscenario{Constraint: ">=1.15.0", Ignore0: "true", Version0: "1.14.2", Steps: []hstep{{Ignore: "nil"}}}},
		{"healthy-in-range-then-crossplane-upgraded-out-of-range", hscenario{Constraint: "^1.2.0", Ignore0: "false", Version0: "1.14.2", Steps: []hstep{{}, {Version: "2.3.0"}, {}}}},
		{"healthy-in-range-then-crossplane-downgraded-out-of-range", hscenario{Constraint: "^2.0.0", Ignore0: "nil", Version0: "2.3.0", Steps: []hstep{{Version: "1.14.2"}}}},
		{"refused-then-ignore-set-then-cleared", hscenario{Constraint: "<1.0.0", Ignore0: "false", Version0: "1.14.2", Steps: []hstep{{Ignore: "true"}, {}, {Ignore: "false"}}}},
		{"refused-then-upgraded-into-range-then-back", hscenario{Constraint: ">=1.15.0", Ignore0: "nil", Version0: "1.14.2", Steps: []hstep{{Version: "2.3.0"}, {Version: "1.14.2"}}}},
	}
	for _, typ := range pkgTypes {
		for _, row := range rows {
			t.Run(typ+"/"+row.name, func(t *testing.T) {
				rec.Eval()
				sc := row.sc
				sc.Type, sc.MetaAPI, sc.Seed = typ, "v1", 5
				if v := hrun(sc, nil); v != "" {
					t.Fatalf("C15 violated (pinned %s): %s", strings.TrimSpace(row.name), v)
				}
			})
		}
	}
}
