//go:build verif

package c15

import (
	"bytes"
	"compress/gzip"
	"context"
	"errors"
	"fmt"
	"io"
	"os"
	"sync"

	"github.com/Masterminds/semver"
	"github.com/google/go-containerregistry/pkg/name"
	gcrv1 "github.com/google/go-containerregistry/pkg/v1"
	"github.com/spf13/afero"
	corev1 "k8s.io/api/core/v1"
	metav1 "k8s.io/apimachinery/pkg/apis/meta/v1"
	"k8s.io/apimachinery/pkg/runtime"
	"k8s.io/apimachinery/pkg/types"
	ctrl "sigs.k8s.io/controller-runtime"
	"sigs.k8s.io/controller-runtime/pkg/client"
	"sigs.k8s.io/controller-runtime/pkg/reconcile"

	xpv1 "github.com/crossplane/crossplane-runtime/apis/common/v1"
	"github.com/crossplane/crossplane-runtime/pkg/feature"
	"github.com/crossplane/crossplane-runtime/pkg/parser"

	pkgmetav1 "github.com/crossplane/crossplane/apis/pkg/meta/v1"
	v1 "github.com/crossplane/crossplane/apis/pkg/v1"
	"github.com/crossplane/crossplane/internal/controller/pkg/revision"
	"github.com/crossplane/crossplane/internal/features"
	"github.com/crossplane/crossplane/internal/verifsim"
	"github.com/crossplane/crossplane/internal/xpkg"
)

var errInjected = errors.New("verif: injected I/O error")

// errDead is what every file system and API operation returns once the
// simulated package manager process has crashed (see faultFs.dead).
var errDead = errors.New("verif: the package manager process has crashed")

// recCache is the package cache the reconcilers use: the real FsPackageCache,
// with the result of every Store recorded.
type recCache struct {
	xpkg.PackageCache
	mu     sync.Mutex
	stores []storeResult
}

type storeResult struct {
	ID  string
	Err error
}

func (c *recCache) Store(id string, rc io.ReadCloser) error {
	err := c.PackageCache.Store(id, rc)
	c.mu.Lock()
	c.stores = append(c.stores, storeResult{ID: id, Err: err})
	c.mu.Unlock()
	return err
}

func (c *recCache) take() []storeResult {
	c.mu.Lock()
	defer c.mu.Unlock()
	s := c.stores
	c.stores = nil
	return s
}

const (
	cacheDir  = "/cache"
	namespace = "crossplane-system"
)

// ---------------------------------------------------------------------------
// registry side: an xpkg.Fetcher over in-memory images with a byte-indexed
// fault on the uncompressed stream of one layer.

// streamPlan describes the fault of one Fetch: the FailOpen-th Uncompressed()
// of the target layer delivers At bytes and then fails.
type streamPlan struct {
	FailOpen int // -1: no fault
	At       int
}

type fetchSecrets struct {
	Ref     string
	Secrets []string
}

type fetcher struct {
	mu      sync.Mutex
	secrets []fetchSecrets        // pull secrets every Fetch was given
	images  map[string]builtImage // by source string
	plan    map[string]streamPlan // one-shot, by source
	fetches int
	opens   map[string]int // opens of the target layer during the last fetch, by source
}

func newFetcher() *fetcher {
	return &fetcher{images: map[string]builtImage{}, plan: map[string]streamPlan{}, opens: map[string]int{}}
}

func (f *fetcher) Fetch(_ context.Context, ref name.Reference, secrets ...string) (gcrv1.Image, error) {
	f.mu.Lock()
	defer f.mu.Unlock()
	f.fetches++
	src := ref.String()
	f.secrets = append(f.secrets, fetchSecrets{Ref: src, Secrets: append([]string(nil), secrets...)})
	bi, ok := f.images[src]
	if !ok {
		return nil, fmt.Errorf("verif: no image %q", src)
	}
	p, ok := f.plan[src]
	if !ok {
		p = streamPlan{FailOpen: -1}
	}
	delete(f.plan, src)
	f.opens[src] = 0
	return &faultImage{Image: bi.img, f: f, src: src, target: bi.target, plan: p}, nil
}

func (f *fetcher) Head(context.Context, name.Reference, ...string) (*gcrv1.Descriptor, error) {
	return nil, errors.New("verif: Head not expected")
}

func (f *fetcher) Tags(context.Context, name.Reference, ...string) ([]string, error) {
	return nil, errors.New("verif: Tags not expected")
}

type faultImage struct {
	gcrv1.Image
	f      *fetcher
	src    string
	target gcrv1.Hash
	plan   streamPlan
	opens  int // guarded by f.mu
}

// Manifest is parsed from the raw manifest, as for an image that came from a
// registry (remote.Image does exactly this). An image assembled in memory with
// mutate/tarball reports empty-but-non-nil annotation maps that no registry
// round trip preserves, which validate.Image flags.
func (i *faultImage) Manifest() (*gcrv1.Manifest, error) {
	raw, err := i.Image.RawManifest()
	if err != nil {
		return nil, err
	}
	return gcrv1.ParseManifest(bytes.NewReader(raw))
}

func (i *faultImage) wrap(l gcrv1.Layer) gcrv1.Layer {
	d, err := l.Digest()
	if err != nil || d != i.target {
		return l
	}
	return &faultLayer{Layer: l, img: i}
}

func (i *faultImage) Layers() ([]gcrv1.Layer, error) {
	ls, err := i.Image.Layers()
	if err != nil {
		return nil, err
	}
	out := make([]gcrv1.Layer, len(ls))
	for k, l := range ls {
		out[k] = i.wrap(l)
	}
	return out, nil
}

func (i *faultImage) LayerByDigest(h gcrv1.Hash) (gcrv1.Layer, error) {
	l, err := i.Image.LayerByDigest(h)
	if err != nil {
		return nil, err
	}
	return i.wrap(l), nil
}

func (i *faultImage) LayerByDiffID(h gcrv1.Hash) (gcrv1.Layer, error) {
	l, err := i.Image.LayerByDiffID(h)
	if err != nil {
		return nil, err
	}
	return i.wrap(l), nil
}

type faultLayer struct {
	gcrv1.Layer
	img *faultImage
}

func (l *faultLayer) Uncompressed() (io.ReadCloser, error) {
	rc, err := l.Layer.Uncompressed()
	if err != nil {
		return nil, err
	}
	l.img.f.mu.Lock()
	idx := l.img.opens
	l.img.opens++
	l.img.f.opens[l.img.src] = l.img.opens
	l.img.f.mu.Unlock()
	if idx == l.img.plan.FailOpen {
		return &cutReader{rc: rc, remaining: l.img.plan.At}, nil
	}
	return rc, nil
}

// cutReader delivers exactly `remaining` bytes and then fails.
type cutReader struct {
	rc        io.ReadCloser
	remaining int
}

func (c *cutReader) Read(p []byte) (int, error) {
	if c.remaining <= 0 {
		return 0, errInjected
	}
	if len(p) > c.remaining {
		p = p[:c.remaining]
	}
	n, err := c.rc.Read(p)
	c.remaining -= n
	return n, err
}

func (c *cutReader) Close() error { return c.rc.Close() }

// ---------------------------------------------------------------------------
// cache side: afero in-memory fs with byte-indexed faults

type fsPlan struct {
	CreateFails bool
	// RemoveFails: removing a cache file fails (the reconciler's cleanup is
	// best effort: the error is only logged). RemoveCrashes: the process dies
	// at that point instead: the fs goes dead (see faultFs.dead).
	RemoveFails   bool
	RemoveCrashes bool
	WriteFailAt   int // -1: none; the file accepts this many bytes, then Write fails
	ReadFailAt    int // -1: none; reads deliver this many bytes, then fail
	CloseFails    bool
}

func noFsFault() fsPlan { return fsPlan{WriteFailAt: -1, ReadFailAt: -1} }

type faultFs struct {
	afero.Fs
	mu      sync.Mutex
	plan    fsPlan
	written int  // bytes written through Create()d files since the plan was set (diagnostic)
	dead    bool // the process has crashed, see isDead
}

// Crash model. A crash of the package manager is modelled as the process's
// view of the world going DEAD at the crash point, whichever goroutine and call
// site reaches it: that file system call and every later one return errDead
// and write nothing, every later API call (hookClient) and Establish fails
// without effect. The reconcile then runs to its end on errors only; its
// in-memory outcome is discarded and revive() stands for the restart.
func (f *faultFs) isDead() bool {
	f.mu.Lock()
	defer f.mu.Unlock()
	return f.dead
}

func (f *faultFs) die() {
	f.mu.Lock()
	f.dead = true
	f.mu.Unlock()
}

// revive restarts the process; it reports whether it had crashed.
func (f *faultFs) revive() bool {
	f.mu.Lock()
	defer f.mu.Unlock()
	d := f.dead
	f.dead = false
	return d
}

func (f *faultFs) Stat(name string) (os.FileInfo, error) {
	if f.isDead() {
		return nil, errDead
	}
	return f.Fs.Stat(name)
}

func (f *faultFs) Rename(oldname, newname string) error {
	if f.isDead() {
		return errDead
	}
	return f.Fs.Rename(oldname, newname)
}

func newFaultFs() *faultFs { return &faultFs{Fs: afero.NewMemMapFs(), plan: noFsFault()} }

func (f *faultFs) set(p fsPlan) {
	f.mu.Lock()
	f.plan = p
	f.written = 0
	f.mu.Unlock()
}

func (f *faultFs) Create(name string) (afero.File, error) {
	if f.isDead() {
		return nil, errDead
	}
	f.mu.Lock()
	p := f.plan
	f.mu.Unlock()
	if p.CreateFails {
		return nil, errInjected
	}
	file, err := f.Fs.Create(name)
	if err != nil {
		return nil, err
	}
	return &faultFile{File: file, fs: f, writeLeft: p.WriteFailAt, readLeft: -1, closeFails: p.CloseFails}, nil
}

func (f *faultFs) Remove(name string) error {
	f.mu.Lock()
	p := f.plan
	f.mu.Unlock()
	if f.isDead() {
		return errDead
	}
	if p.RemoveCrashes {
		f.die()
		return errDead
	}
	if p.RemoveFails {
		return errInjected
	}
	return f.Fs.Remove(name)
}

func (f *faultFs) Open(name string) (afero.File, error) {
	if f.isDead() {
		return nil, errDead
	}
	f.mu.Lock()
	p := f.plan
	f.mu.Unlock()
	file, err := f.Fs.Open(name)
	if err != nil {
		return nil, err
	}
	return &faultFile{File: file, fs: f, writeLeft: -1, readLeft: p.ReadFailAt}, nil
}

type faultFile struct {
	afero.File
	fs         *faultFs
	writeLeft  int
	readLeft   int
	closeFails bool
	closed     bool
}

func (f *faultFile) Write(p []byte) (int, error) {
	if f.fs.isDead() {
		return 0, errDead
	}
	if f.writeLeft < 0 {
		n, err := f.File.Write(p)
		f.fs.mu.Lock()
		f.fs.written += n
		f.fs.mu.Unlock()
		return n, err
	}
	if len(p) <= f.writeLeft {
		n, err := f.File.Write(p)
		f.writeLeft -= n
		return n, err
	}
	n, _ := f.File.Write(p[:f.writeLeft])
	f.writeLeft -= n
	return n, errInjected
}

func (f *faultFile) Read(p []byte) (int, error) {
	if f.fs.isDead() {
		return 0, errDead
	}
	if f.readLeft < 0 {
		return f.File.Read(p)
	}
	if f.readLeft == 0 {
		return 0, errInjected
	}
	if len(p) > f.readLeft {
		p = p[:f.readLeft]
	}
	n, err := f.File.Read(p)
	f.readLeft -= n
	return n, err
}

func (f *faultFile) Close() error {
	err := f.File.Close()
	if f.fs.isDead() {
		f.closed = true
		return errDead
	}
	if f.closeFails && !f.closed {
		f.closed = true
		return errInjected
	}
	f.closed = true
	return err
}

// cacheEntry returns the raw bytes of the cache file for id (nil if absent).
func cacheEntry(fs afero.Fs, id string) []byte {
	b, err := afero.ReadFile(fs, xpkg.BuildPath(cacheDir, id, ".gz"))
	if err != nil {
		if os.IsNotExist(err) {
			return nil
		}
		return nil
	}
	if b == nil {
		b = []byte{}
	}
	return b
}

func gunzip(b []byte) ([]byte, error) {
	zr, err := gzip.NewReader(bytes.NewReader(b))
	if err != nil {
		return nil, err
	}
	return io.ReadAll(zr)
}

// ---------------------------------------------------------------------------
// fakes around the reconciler

type fakeManager struct {
	ctrl.Manager // nil: anything not overridden panics loudly
	c            client.Client
}

func (m *fakeManager) GetClient() client.Client { return m.c }

type estCall struct {
	Rev     string
	Kind    string
	Objs    []string
	Control bool
	// Verified is the parent's Verified condition status as handed over.
	Verified corev1.ConditionStatus
}

type recEstablisher struct {
	dead  func() bool // the process has crashed: nothing is established any more
	mu    sync.Mutex
	calls []estCall
}

func (e *recEstablisher) Establish(_ context.Context, objects []runtime.Object, parent v1.PackageRevision, control bool) ([]xpv1.TypedReference, error) {
	if e.dead != nil && e.dead() {
		return nil, errDead
	}
	e.mu.Lock()
	defer e.mu.Unlock()
	e.calls = append(e.calls, estCall{
		Rev: parent.GetName(), Kind: kindOf(parent), Objs: canonSet(objects), Control: control,
		Verified: parent.GetCondition(v1.TypeVerified).Status,
	})
	refs := make([]xpv1.TypedReference, 0, len(objects))
	for _, o := range objects {
		mo, ok := o.(metav1.Object)
		if !ok {
			continue
		}
		gvk := o.GetObjectKind().GroupVersionKind()
		refs = append(refs, xpv1.TypedReference{APIVersion: gvk.GroupVersion().String(), Kind: gvk.Kind, Name: mo.GetName()})
	}
	return refs, nil
}

func kindOf(pr v1.PackageRevision) string {
	switch pr.(type) {
	case *v1.ProviderRevision:
		return tProvider
	case *v1.ConfigurationRevision:
		return tConfiguration
	case *v1.FunctionRevision:
		return tFunction
	}
	return "?"
}

func (e *recEstablisher) ReleaseObjects(context.Context, v1.PackageRevision) error { return nil }

func (e *recEstablisher) take() []estCall {
	e.mu.Lock()
	defer e.mu.Unlock()
	c := e.calls
	e.calls = nil
	return c
}

// recDeps is a dependency manager that resolves nothing and records which
// package metadata it was asked to resolve for which revision.
type depCall struct {
	Rev        string
	Meta       string
	Constraint string
	Deps       []string
}

type recDeps struct {
	mu    sync.Mutex
	calls []depCall
}

func (d *recDeps) Resolve(_ context.Context, m pkgmetav1.Pkg, pr v1.PackageRevision) (int, int, int, error) {
	c := depCall{Rev: pr.GetName(), Meta: m.GetName()}
	if cc := m.GetCrossplaneConstraints(); cc != nil {
		c.Constraint = cc.Version
	}
	for _, dep := range m.GetDependencies() {
		n := ""
		for _, p := range []*string{dep.Package, dep.Provider, dep.Configuration, dep.Function} {
			if p != nil {
				n += *p
			}
		}
		c.Deps = append(c.Deps, n+"@"+dep.Version)
	}
	d.mu.Lock()
	d.calls = append(d.calls, c)
	d.mu.Unlock()
	return len(c.Deps), len(c.Deps), 0, nil
}

func (d *recDeps) RemoveSelf(context.Context, v1.PackageRevision) error { return nil }

func (d *recDeps) take() []depCall {
	d.mu.Lock()
	defer d.mu.Unlock()
	c := d.calls
	d.calls = nil
	return c
}

// hookClient is the reconciler's API client with a hook: immediately before
// the at-th API call made after arm(), fn runs synchronously (calls made from
// inside fn are neither counted nor hooked). Unarmed it only counts calls.
type hookClient struct {
	client.Client
	dead func() bool // the process has crashed: no API call has an effect any more
	mu   sync.Mutex
	n    int
	at   int
	fn   func()
	busy bool
}

func (h *hookClient) arm(at int, fn func()) {
	h.mu.Lock()
	h.n, h.at, h.fn = 0, at, fn
	h.mu.Unlock()
}

func (h *hookClient) disarm() int {
	h.mu.Lock()
	defer h.mu.Unlock()
	n := h.n
	h.at, h.fn = 0, nil
	return n
}

func (h *hookClient) before() {
	h.mu.Lock()
	if h.busy {
		h.mu.Unlock()
		return
	}
	h.n++
	run := h.fn != nil && h.n == h.at
	fn := h.fn
	if run {
		h.busy = true
	}
	h.mu.Unlock()
	if run {
		fn()
		h.mu.Lock()
		h.busy = false
		h.mu.Unlock()
	}
}

func (h *hookClient) Get(ctx context.Context, key client.ObjectKey, obj client.Object, opts ...client.GetOption) error {
	if h.dead != nil && h.dead() {
		return errDead
	}
	h.before()
	return h.Client.Get(ctx, key, obj, opts...)
}

func (h *hookClient) List(ctx context.Context, list client.ObjectList, opts ...client.ListOption) error {
	if h.dead != nil && h.dead() {
		return errDead
	}
	h.before()
	return h.Client.List(ctx, list, opts...)
}

func (h *hookClient) Create(ctx context.Context, obj client.Object, opts ...client.CreateOption) error {
	if h.dead != nil && h.dead() {
		return errDead
	}
	h.before()
	return h.Client.Create(ctx, obj, opts...)
}

func (h *hookClient) Delete(ctx context.Context, obj client.Object, opts ...client.DeleteOption) error {
	if h.dead != nil && h.dead() {
		return errDead
	}
	h.before()
	return h.Client.Delete(ctx, obj, opts...)
}

func (h *hookClient) Update(ctx context.Context, obj client.Object, opts ...client.UpdateOption) error {
	if h.dead != nil && h.dead() {
		return errDead
	}
	h.before()
	return h.Client.Update(ctx, obj, opts...)
}

func (h *hookClient) Patch(ctx context.Context, obj client.Object, p client.Patch, opts ...client.PatchOption) error {
	if h.dead != nil && h.dead() {
		return errDead
	}
	h.before()
	return h.Client.Patch(ctx, obj, p, opts...)
}

func (h *hookClient) Status() client.SubResourceWriter { return &hookSub{h: h, w: h.Client.Status()} }

type hookSub struct {
	h *hookClient
	w client.SubResourceWriter
}

func (s *hookSub) Create(ctx context.Context, obj, sub client.Object, opts ...client.SubResourceCreateOption) error {
	if s.h.dead != nil && s.h.dead() {
		return errDead
	}
	s.h.before()
	return s.w.Create(ctx, obj, sub, opts...)
}

func (s *hookSub) Update(ctx context.Context, obj client.Object, opts ...client.SubResourceUpdateOption) error {
	if s.h.dead != nil && s.h.dead() {
		return errDead
	}
	s.h.before()
	return s.w.Update(ctx, obj, opts...)
}

func (s *hookSub) Patch(ctx context.Context, obj client.Object, p client.Patch, opts ...client.SubResourcePatchOption) error {
	if s.h.dead != nil && s.h.dead() {
		return errDead
	}
	s.h.before()
	return s.w.Patch(ctx, obj, p, opts...)
}

// fixedVersion is version.Operations for a fixed running version.
type fixedVersion string

func (v fixedVersion) GetVersionString() string { return string(v) }
func (v fixedVersion) GetSemVer() (*semver.Version, error) {
	return semver.NewVersion(string(v))
}
func (v fixedVersion) InConstraints(c string) (bool, error) {
	ver, err := v.GetSemVer()
	if err != nil {
		return false, err
	}
	con, err := semver.NewConstraint(c)
	if err != nil {
		return false, err
	}
	return con.Check(ver), nil
}

// mutVersion is version.Operations for a running Crossplane version that can be
// changed between reconciles (Crossplane is upgraded or downgraded).
type mutVersion struct {
	mu sync.Mutex
	v  string
}

func (m *mutVersion) set(v string) { m.mu.Lock(); m.v = v; m.mu.Unlock() }
func (m *mutVersion) cur() fixedVersion {
	m.mu.Lock()
	defer m.mu.Unlock()
	return fixedVersion(m.v)
}
func (m *mutVersion) GetVersionString() string             { return m.cur().GetVersionString() }
func (m *mutVersion) GetSemVer() (*semver.Version, error)  { return m.cur().GetSemVer() }
func (m *mutVersion) InConstraints(c string) (bool, error) { return m.cur().InConstraints(c) }

var (
	metaScheme *runtime.Scheme
	objScheme  *runtime.Scheme
)

func init() {
	var err error
	if metaScheme, err = xpkg.BuildMetaScheme(); err != nil {
		panic(err)
	}
	if objScheme, err = xpkg.BuildObjectScheme(); err != nil {
		panic(err)
	}
}

// env is one simulated control plane with the three revision reconcilers wired
// as revision.Setup*Revision wires them (external package runtime: no runtime
// hooks), sharing one package cache.
type env struct {
	sim     *verifsim.Sim
	fs      *faultFs
	cache   *xpkg.FsPackageCache
	rcache  *recCache
	ver     *mutVersion
	fetcher *fetcher
	est     *recEstablisher
	deps    *recDeps
	hooks   map[string]*hookClient
	flags   *feature.Flags
	recs    map[string]*revision.Reconciler
}

func newRev(typ string) v1.PackageRevision {
	switch typ {
	case tProvider:
		return &v1.ProviderRevision{}
	case tConfiguration:
		return &v1.ConfigurationRevision{}
	default:
		return &v1.FunctionRevision{}
	}
}

func linterFor(typ string) parser.Linter {
	switch typ {
	case tProvider:
		return xpkg.NewProviderLinter()
	case tConfiguration:
		return xpkg.NewConfigurationLinter()
	default:
		return xpkg.NewFunctionLinter()
	}
}

func newEnv(verification bool) *env {
	e := &env{sim: verifsim.New(verifsim.NewScheme()), fs: newFaultFs(), fetcher: newFetcher(), est: &recEstablisher{}, deps: &recDeps{}, hooks: map[string]*hookClient{}, flags: &feature.Flags{}, recs: map[string]*revision.Reconciler{}}
	e.sim.ClusterScoped = nil
	if verification {
		e.flags.Enable(features.EnableAlphaSignatureVerification)
	}
	e.est.dead = e.fs.isDead
	e.ver = &mutVersion{v: runningVersion}
	e.cache = xpkg.NewFsPackageCache(cacheDir, e.fs)
	e.rcache = &recCache{PackageCache: e.cache}
	_ = e.fs.Fs.MkdirAll(cacheDir, 0o755)
	for _, typ := range pkgTypes {
		typ := typ
		c := &hookClient{Client: e.sim.Client("revision-" + typ), dead: e.fs.isDead}
		e.hooks[typ] = c
		mgr := &fakeManager{c: c}
		e.recs[typ] = revision.NewReconciler(mgr,
			revision.WithCache(e.rcache),
			revision.WithDependencyManager(e.deps),
			revision.WithEstablisher(e.est),
			revision.WithNewPackageRevisionFn(func() v1.PackageRevision { return newRev(typ) }),
			revision.WithParser(parser.New(metaScheme, objScheme)),
			revision.WithParserBackend(revision.NewImageBackend(e.fetcher, revision.WithDefaultRegistry("xpkg.example.org"))),
			revision.WithConfigStore(xpkg.NewImageConfigStore(c, namespace)),
			revision.WithLinter(linterFor(typ)),
			revision.WithVersioner(e.ver),
			revision.WithNamespace(namespace),
			revision.WithServiceAccount("crossplane"),
			revision.WithFeatureFlags(e.flags),
		)
	}
	return e
}

type revOpts struct {
	Type       string
	Name       string
	Source     string
	Ignore     *bool
	SkipDeps   *bool
	Inactive   bool
	PullPolicy *corev1.PullPolicy
}

func (e *env) createRevision(o revOpts) {
	spec := v1.PackageRevisionSpec{DesiredState: v1.PackageRevisionActive, Package: o.Source, Revision: 1,
		IgnoreCrossplaneConstraints: o.Ignore, SkipDependencyResolution: o.SkipDeps, PackagePullPolicy: o.PullPolicy}
	if o.Inactive {
		spec.DesiredState = v1.PackageRevisionInactive
	}
	var obj client.Object
	switch o.Type {
	case tProvider:
		obj = &v1.ProviderRevision{ObjectMeta: metav1.ObjectMeta{Name: o.Name}, Spec: v1.ProviderRevisionSpec{PackageRevisionSpec: spec}}
	case tConfiguration:
		obj = &v1.ConfigurationRevision{ObjectMeta: metav1.ObjectMeta{Name: o.Name}, Spec: spec}
	default:
		obj = &v1.FunctionRevision{ObjectMeta: metav1.ObjectMeta{Name: o.Name}, Spec: v1.FunctionRevisionSpec{PackageRevisionSpec: spec}}
	}
	e.sim.MustCreate("package-manager", obj)
}

// reconcile runs one reconcile of the revision; a panic is reported as an error string.
func (e *env) reconcile(typ, name string) (res reconcile.Result, err error, panicked any) {
	defer func() {
		if r := recover(); r != nil {
			panicked = r
		}
	}()
	res, err = e.recs[typ].Reconcile(context.Background(), reconcile.Request{NamespacedName: types.NamespacedName{Name: name}})
	return res, err, nil
}

// setVerified writes the Verified condition as the signature controller would.
func (e *env) setCondition(typ, name string, c xpv1.Condition) {
	pr := newRev(typ)
	cl := e.sim.Client("test-setup")
	if err := cl.Get(context.Background(), types.NamespacedName{Name: name}, pr); err != nil {
		panic(err)
	}
	pr.SetConditions(c)
	if err := cl.Status().Update(context.Background(), pr); err != nil {
		panic(err)
	}
}
