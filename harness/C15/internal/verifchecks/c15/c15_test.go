//go:build verif

package c15

import (
	"bytes"
	"context"
	"fmt"
	"io"
	"sort"
	"strings"
	"testing"

	"github.com/spf13/afero"
	corev1 "k8s.io/api/core/v1"
	utilrand "k8s.io/apimachinery/pkg/util/rand"
	"k8s.io/utils/ptr"
	"pgregory.net/rapid"

	xpv1 "github.com/crossplane/crossplane-runtime/apis/common/v1"

	v1 "github.com/crossplane/crossplane/apis/pkg/v1"
	"github.com/crossplane/crossplane/internal/controller/pkg/revision"
	"github.com/crossplane/crossplane/internal/verifkit"
	"github.com/crossplane/crossplane/internal/xpkg"
)

const source = "xpkg.example.org/acme/pkg:v1.0.0"

// step is one reconcile of the revision under a scripted fault.
type step struct {
	// Kind: healthy | stream (image layer stream fails at byte At of open Open)
	// | store (cache file accepts At bytes, then Write fails) | create (cache
	// file cannot be created) | close (cache file Close fails) | corrupt (the
	// existing cache entry is damaged before the reconcile) | read (reading the
	// cache entry fails after At bytes).
	Kind    string `json:"kind"`
	Open    int    `json:"open,omitempty"`
	At      int    `json:"at,omitempty"`
	Corrupt string `json:"corrupt,omitempty"` // truncate | flip | empty | garbage
	Why     string `json:"why,omitempty"`     // how At was constructed
	// Survive (stream and store steps): how the entry a failed Store leaves
	// behind escapes the reconciler's cleanup: "" (it does not) | remove-fails
	// (deleting the cache file fails, which the reconciler only logs) | crash
	// (the process dies when it is about to delete the file).
	Survive string `json:"survive,omitempty"`
}

// scenario is one generated case of the install check.
type scenario struct {
	Type         string `json:"type"`
	RevName      string `json:"rev"`
	Docs         []doc  `json:"docs"`
	LeadSep      bool   `json:"leadSep"`
	TrailSep     bool   `json:"trailSep"`
	Shape        string `json:"shape"`
	Ignore       *bool  `json:"ignore,omitempty"`
	SkipDeps     *bool  `json:"skipDeps,omitempty"`
	Verification bool   `json:"verification"`
	Verified     string `json:"verified,omitempty"` // "", True, False, Unknown
	Steps        []step `json:"steps"`
	Neighbour    string `json:"neighbour,omitempty"` // another revision warmed the shared cache first
	Verdict      string `json:"verdict"`
	Reason       string `json:"reason"`
	Seed         int64  `json:"seed"`
}

// measure runs the real backend once without faults: how often the target
// layer is opened (the last open is the one that is parsed), what the backend
// hands to the parser, and how large a complete cache entry is.
func measure(bi builtImage) (opens int, got []byte, initErr error, gzSize int) {
	f := newFetcher()
	f.images[source] = bi
	be := revision.NewImageBackend(f)
	pr := &v1.ProviderRevision{Spec: v1.ProviderRevisionSpec{PackageRevisionSpec: v1.PackageRevisionSpec{Package: source}}}
	rc, err := be.Init(context.Background(), revision.PackageRevision(pr))
	if err != nil {
		return f.opens[source], nil, err, 0
	}
	got, err = io.ReadAll(rc)
	_ = rc.Close()
	if err != nil {
		return f.opens[source], got, err, 0
	}
	fs := afero.NewMemMapFs()
	c := xpkg.NewFsPackageCache(cacheDir, fs)
	if err := c.Store("x", io.NopCloser(bytes.NewReader(got))); err != nil {
		panic(err)
	}
	return f.opens[source], got, nil, len(cacheEntry(fs, "x"))
}

func clamp(x, lo, hi int) int {
	if x < lo {
		return lo
	}
	if x > hi {
		return hi
	}
	return x
}

// genCut constructs a cut point of the YAML stream: document boundaries +- a
// few bytes, multiples of the parser's bufio chunk (4096) +- 1, the ends, or
// anywhere.
func genCut(t *rapid.T, s stream) (int, string) {
	n := len(s.Bytes)
	switch rapid.IntRange(0, 9).Draw(t, "cutClass") {
	case 0, 1, 2, 3:
		if len(s.Starts) > 0 {
			i := rapid.IntRange(0, len(s.Starts)-1).Draw(t, "cutDoc")
			d := rapid.SampledFrom([]int{-3, -1, 0, 0, 0, 1, 3, 4, 5}).Draw(t, "cutDelta")
			return clamp(s.Starts[i]+d, 0, n), fmt.Sprintf("doc%d%+d", i, d)
		}
	case 4, 5:
		if n >= 4096 {
			k := rapid.IntRange(1, n/4096).Draw(t, "cutChunk")
			d := rapid.SampledFrom([]int{-1, 0, 0, 1}).Draw(t, "cutDelta")
			return clamp(4096*k+d, 0, n), fmt.Sprintf("chunk%d%+d", k, d)
		}
	case 6:
		return rapid.SampledFrom([]int{0, 1, n - 1, n}).Draw(t, "cutEnd") * btoi(n > 0), "end"
	}
	return rapid.IntRange(0, n).Draw(t, "cutAny"), "any"
}

func btoi(b bool) int {
	if b {
		return 1
	}
	return 0
}

func genSteps(t *rapid.T, s stream, bi builtImage, opens, gz int) []step {
	var steps []step
	n := rapid.IntRange(1, 3).Draw(t, "nsteps")
	for i := 0; i < n; i++ {
		kinds := []string{"stream", "stream", "stream", "store", "store", "create", "close", "corrupt", "corrupt", "read", "healthy"}
		if i == 0 {
			kinds = append(kinds, "healthy", "healthy", "healthy") // warm the cache first, often
		}
		st := step{Kind: rapid.SampledFrom(kinds).Draw(t, "stepKind")}
		switch st.Kind {
		case "stream":
			st.Open = opens - 1
			if opens > 1 && rapid.IntRange(0, 5).Draw(t, "earlyOpen") == 0 {
				st.Open = rapid.IntRange(0, opens-2).Draw(t, "open")
			}
			if rapid.IntRange(0, 11).Draw(t, "inHeader") == 0 {
				st.At = rapid.SampledFrom([]int{0, 1, 100, clamp(bi.streamOff-1, 0, 1<<30)}).Draw(t, "hdrAt")
				st.Why = "tar-header"
			} else {
				y, why := genCut(t, s)
				st.At, st.Why = bi.streamOff+y, why
			}
			st.Survive = rapid.SampledFrom([]string{"", "", "", "remove-fails", "remove-fails", "crash"}).Draw(t, "survive")
		case "store":
			st.Survive = rapid.SampledFrom([]string{"", "", "", "remove-fails", "crash"}).Draw(t, "survive")
			if rapid.Bool().Draw(t, "storeConstructed") {
				st.At = clamp(rapid.SampledFrom([]int{0, 1, 5, 9, 10, 11, gz / 2, gz - 9, gz - 8, gz - 1, gz}).Draw(t, "storeAt"), 0, gz)
			} else {
				st.At = rapid.IntRange(0, gz).Draw(t, "storeAny")
			}
		case "corrupt":
			st.Corrupt = rapid.SampledFrom([]string{"truncate", "truncate", "flip", "empty", "garbage"}).Draw(t, "corruptKind")
			if rapid.Bool().Draw(t, "corruptConstructed") {
				st.At = clamp(rapid.SampledFrom([]int{0, 1, 3, 9, 10, 11, gz / 2, gz - 9, gz - 8, gz - 4, gz - 1}).Draw(t, "corruptAt"), 0, gz)
			} else {
				st.At = rapid.IntRange(0, gz).Draw(t, "corruptAny")
			}
		case "read":
			st.At = rapid.IntRange(0, gz).Draw(t, "readAt")
		}
		steps = append(steps, st)
	}
	return steps
}

func decoyStream(typ string) []byte {
	k := map[string]string{tProvider: "crd", tConfiguration: "xrd", tFunction: "crd"}[typ]
	return render([]doc{{Kind: "meta:" + typ, Name: "decoy", MetaAPI: "v1"}, {Kind: k, Name: "decoy"}}, true, false).Bytes
}

// revision names: the cache is keyed by revision name. Only names the package
// manager can produce (xpkg.FriendlyID: a DNS label, so no dots - a dotted name
// would collide in xpkg.BuildPath, but no real caller creates one).
var revNames = []string{"pkg-0a1b2c3d4e5f", "acme-pkg-0a1b2c3d4e5f", "pkg-0a1b2c3d4e5f-0a1b2c3d4e5f"}

// neighbour revisions share the cache directory; their names differ from every
// name in revNames but may be a prefix of one or share a prefix with it.
var neighbourNames = []string{"other-9f8e7d6c5b4a", "acme-pkg-0a1b2c3d4e5", "pkg-0a1b2c3d4e5f-0", "pkg-0a1b2c3d4e5"}

type caseResult struct {
	established int
	faithful    int
}

// runScenario executes the scenario and returns the first violation ("" if none).
func runScenario(sc scenario, s stream, bi builtImage, rec *verifkit.Recorder) (string, caseResult) {
	var cr caseResult
	utilrand.Seed(sc.Seed)
	e := newEnv(sc.Verification)
	e.fetcher.images[source] = bi
	expected := s.objects()
	verdict := map[string]verdict{"mustInstall": mustInstall, "mustNot": mustNot, "unspecified": unspecified}[sc.Verdict]

	// a neighbour revision of the same type installs another package through
	// the same cache before our revision is reconciled
	if sc.Neighbour != "" {
		nsrc := "xpkg.example.org/acme/neighbour:v1.0.0"
		nimg, built := assemble([]layerSpec{{Annotation: "base", Files: []fileSpec{{Name: streamFile, Data: decoyStream(sc.Type)}}}})
		e.fetcher.images[nsrc] = builtImage{img: nimg, target: built[0].digest, valid: true}
		e.createRevision(revOpts{Type: sc.Type, Name: sc.Neighbour, Source: nsrc})
		if sc.Verification {
			e.setCondition(sc.Type, sc.Neighbour, v1.VerificationSkipped())
		}
		if _, err, p := e.reconcile(sc.Type, sc.Neighbour); err != nil || p != nil {
			return fmt.Sprintf("neighbour reconcile failed: err=%v panic=%v", err, p), cr
		}
		calls := e.est.take()
		if len(calls) != 1 || len(calls[0].Objs) != 1 {
			return fmt.Sprintf("neighbour revision was not installed: %+v", calls), cr
		}
	}

	e.createRevision(revOpts{Type: sc.Type, Name: sc.RevName, Source: source, Ignore: sc.Ignore, SkipDeps: sc.SkipDeps})
	switch sc.Verified {
	case "True":
		e.setCondition(sc.Type, sc.RevName, v1.VerificationSkipped())
	case "False":
		e.setCondition(sc.Type, sc.RevName, v1.VerificationFailed("cfg", errInjected))
	case "Unknown":
		e.setCondition(sc.Type, sc.RevName, xpv1.Condition{Type: v1.TypeVerified, Status: corev1.ConditionUnknown, Reason: "Pending"})
	}

	check := func(where string, calls []estCall) string {
		for _, c := range calls {
			if c.Rev != sc.RevName {
				return fmt.Sprintf("%s: Establish for unexpected revision %q", where, c.Rev)
			}
			cr.established++
			if verdict == mustNot {
				return fmt.Sprintf("%s: MUST-NOT-INSTALL (%s) but the establisher was called with %d objects", where, sc.Reason, len(c.Objs))
			}
			if !sameSet(c.Objs, expected) {
				return fmt.Sprintf("%s: WRONG OBJECTS: established %d objects, the image declares %d\n established: %s\n declared:    %s", where, len(c.Objs), len(expected), brief(c.Objs), brief(expected))
			}
			if sc.Verification && c.Verified != corev1.ConditionTrue {
				return fmt.Sprintf("%s: established although Verified=%q with signature verification enabled", where, c.Verified)
			}
		}
		// What the cache holds is only observed (labels), never judged by
		// itself: the property is about what gets established. Whether a later
		// reconcile would install from a left-behind entry is decided by the
		// fault-free reconciles below, which read that very entry and are held
		// to the clauses above.
		if b := cacheEntry(e.fs.Fs, sc.RevName); b != nil {
			plain, err := gunzip(b)
			switch {
			case err != nil:
				rec.Label("cache:damaged-entry-left-behind")
			case !bytes.Equal(plain, s.Bytes):
				rec.Label("cache:wellformed-entry-differs-from-image")
			default:
				cr.faithful++
			}
		}
		return ""
	}

	// deferred holds a cache-level finding; what later reconciles establish from
	// such an entry (a subset of the package) is judged, and reported, first.
	deferred := ""
	for i, st := range sc.Steps {
		where := fmt.Sprintf("step %d (%s %s%s at=%d %s)", i, st.Kind, st.Corrupt, st.Survive, st.At, st.Why)
		e.fs.set(noFsFault())
		switch st.Kind {
		case "stream":
			e.fetcher.plan[source] = streamPlan{FailOpen: st.Open, At: st.At}
			p := noFsFault()
			p.RemoveFails, p.RemoveCrashes = st.Survive == "remove-fails", st.Survive == "crash"
			e.fs.set(p)
		case "store":
			p := noFsFault()
			p.WriteFailAt = st.At
			p.RemoveFails, p.RemoveCrashes = st.Survive == "remove-fails", st.Survive == "crash"
			e.fs.set(p)
		case "create":
			p := noFsFault()
			p.CreateFails = true
			e.fs.set(p)
		case "close":
			p := noFsFault()
			p.CloseFails = true
			e.fs.set(p)
		case "read":
			p := noFsFault()
			p.ReadFailAt = st.At
			e.fs.set(p)
		case "corrupt":
			path := xpkg.BuildPath(cacheDir, sc.RevName, ".gz")
			if cacheEntry(e.fs.Fs, sc.RevName) == nil {
				// warm the cache first so that there is something to damage
				if _, _, p := e.reconcile(sc.Type, sc.RevName); p != nil {
					return fmt.Sprintf("%s: warming reconcile panicked: %v", where, p), cr
				}
				if v := check(where+" (warming reconcile)", e.est.take()); v != "" {
					return v, cr
				}
			}
			if b := cacheEntry(e.fs.Fs, sc.RevName); b != nil {
				nb := append([]byte(nil), b...)
				at := clamp(st.At, 0, len(nb))
				switch st.Corrupt {
				case "truncate":
					if len(nb) > 0 { // a surviving entry may be empty already
						nb = nb[:clamp(at, 0, len(nb)-1)]
					}
				case "flip":
					if len(nb) > 0 {
						nb[clamp(at, 0, len(nb)-1)] ^= 0x41
					}
				case "empty":
					nb = nil
				case "garbage":
					nb = []byte("this is not gzip at all, not even close")
				}
				if err := afero.WriteFile(e.fs.Fs, path, nb, 0o644); err != nil {
					panic(err)
				}
				rec.Label("corrupt:applied")
			} else {
				rec.Label("corrupt:no-entry")
			}
		}
		e.rcache.take()
		_, rerr, p := e.reconcile(sc.Type, sc.RevName)
		_ = rerr
		e.fs.set(noFsFault())
		delete(e.fetcher.plan, source)
		if e.fs.revive() {
			// the process died where it was about to remove a cache file (the fs
			// went dead, nothing after that point had any effect); the next
			// reconcile is the restarted package manager's
			rec.Label("crashed-before-cache-delete")
		}
		if p != nil {
			return fmt.Sprintf("%s: reconcile panicked: %v", where, p), cr
		}
		calls := e.est.take()
		// Cache level: after a Store that returned an error, whatever is left
		// under that key must not read back cleanly (to EOF, no error) as
		// something else than the image's stream - a later reconcile could not
		// tell it from a complete entry.
		for _, sr := range e.rcache.take() {
			if sr.Err == nil || sr.ID != sc.RevName {
				continue
			}
			rec.Label("store-returned-error")
			b := cacheEntry(e.fs.Fs, sc.RevName)
			if b == nil {
				continue
			}
			rec.Label("store-returned-error:entry-survived")
			boundary := st.Kind == "stream" && strings.HasPrefix(st.Why, "doc") && strings.HasSuffix(st.Why, "+0")
			if boundary {
				rec.Label("class:source-cut-at-doc-boundary+entry-survived")
			}
			if plain, err := gunzip(b); err == nil && !bytes.Equal(plain, s.Bytes) {
				if deferred == "" {
					deferred = fmt.Sprintf("%s: Store returned an error (%v) but left an entry that reads back cleanly as %d of the stream's %d bytes: a WELL-FORMED entry holding different content than the image (survived because: %s)", where, sr.Err, len(plain), len(s.Bytes), st.Survive)
				}
			}
		}
		if st.Kind == "corrupt" && st.Corrupt == "flip" {
			// a flipped byte in a field gzip does not protect (header mtime/xfl/os)
			// leaves the content intact; nothing to say beyond the generic checks.
		}
		if v := check(where, calls); v != "" {
			return v, cr
		}
	}

	// Fault-free tail. Safety (all of the above) holds for every one of these
	// reconciles, whatever the cache holds by now.
	//
	// Same outcome after a failed or partial cache WRITE: the property says the
	// established objects are the same "also after a failed, partial or
	// concurrent cache write". For histories whose only faults are failures of
	// the reconciler's own pull-and-cache path (image stream, Store, Create,
	// Close, a read error on a sound entry) a cold healthy reconcile installs
	// the package, so the first reconcile after the faults may still clean up
	// and the next two must install exactly what the image declares.
	//
	// Observation, never a failure: an entry that was ALREADY damaged in the
	// cache (step "corrupt": truncated, flipped byte, garbage) fails to parse,
	// and the reconciler keeps an entry that fails to parse, so the revision
	// stays unhealthy until the entry is removed by hand. Nothing is installed
	// from it (gzip detects the damage), so this is a liveness gap the property
	// text does not speak about; it is counted as "stuck-on-unparsable-entry".
	//
	// Likewise when the reconciler's cleanup of a failed Store could not happen
	// (deleting the cache file failed, or the process crashed before it): the
	// partial entry stays, reads back as an error, nothing is installed from
	// it, and the revision stays unhealthy ("stuck-on-surviving-partial-entry").
	damagedBefore, survived := false, false
	for _, st := range sc.Steps {
		if st.Kind == "corrupt" {
			damagedBefore = true
		}
		if st.Survive != "" {
			survived = true
		}
	}
	for i := 0; i < 3; i++ {
		where := fmt.Sprintf("fault-free reconcile %d after the scripted steps", i+1)
		_, err, p := e.reconcile(sc.Type, sc.RevName)
		if p != nil {
			return fmt.Sprintf("%s: reconcile panicked: %v", where, p), cr
		}
		calls := e.est.take()
		if v := check(where, calls); v != "" {
			return v, cr
		}
		if verdict == mustInstall && i >= 1 && len(calls) != 1 {
			if damagedBefore || survived {
				if i == 2 && damagedBefore {
					rec.Label("stuck-on-unparsable-entry")
				} else if i == 2 {
					rec.Label("stuck-on-surviving-partial-entry")
				}
				continue
			}
			return fmt.Sprintf("%s: NOT INSTALLED AFTER A FAILED CACHE WRITE: registry and cache device are healthy again, a cold reconcile would install the package, but after the failed/partial cache write it is not installed (err=%v, cache entry present=%v)", where, err, cacheEntry(e.fs.Fs, sc.RevName) != nil), cr
		}
	}
	return deferred, cr
}

func brief(l []string) string {
	var out []string
	for _, s := range l {
		if len(s) > 90 {
			s = s[:90] + "..."
		}
		out = append(out, s)
	}
	return "[" + strings.Join(out, " | ") + "]"
}

func genScenario(t *rapid.T) (scenario, stream, builtImage, int) {
	sc := scenario{Seed: rapid.Int64Range(1, 1<<40).Draw(t, "seed")}
	sc.Type = rapid.SampledFrom(pkgTypes).Draw(t, "type")
	sc.RevName = rapid.SampledFrom(revNames).Draw(t, "revName")
	sc.Docs = genDocs(t, sc.Type)
	sc.LeadSep = rapid.Bool().Draw(t, "leadSep")
	sc.TrailSep = rapid.Bool().Draw(t, "trailSep")
	s := render(sc.Docs, sc.LeadSep, sc.TrailSep)
	bi := genImage(t, s.Bytes, decoyStream(sc.Type))
	sc.Shape = bi.shape
	switch rapid.IntRange(0, 3).Draw(t, "ignore") {
	case 0:
		sc.Ignore = ptr.To(true)
	case 1:
		sc.Ignore = ptr.To(false)
	}
	switch rapid.IntRange(0, 2).Draw(t, "skipDeps") {
	case 0:
		sc.SkipDeps = ptr.To(true)
	case 1:
		sc.SkipDeps = ptr.To(false)
	}
	if rapid.IntRange(0, 3).Draw(t, "verification") == 0 {
		sc.Verification = true
		sc.Verified = rapid.SampledFrom([]string{"", "False", "Unknown", "True", "True", "True"}).Draw(t, "verified")
	}
	if rapid.IntRange(0, 3).Draw(t, "neighbour") == 0 {
		sc.Neighbour = rapid.SampledFrom(neighbourNames).Draw(t, "neighbourName")
	}
	v, reason := classify(sc.Type, sc.Docs, sc.Ignore != nil && *sc.Ignore)
	if !bi.valid {
		v, reason = mustNot, "shape:"+bi.shape
		if strings.HasPrefix(bi.nested, "only-nested") {
			reason = "shape:only-nested-package.yaml"
		}
		if bi.forged != "" {
			reason = "shape:layer-bytes-do-not-match-digest"
		}
	}
	if sc.Verification && sc.Verified != "True" {
		v, reason = mustNot, "unverified"
	}
	sc.Verdict, sc.Reason = v.String(), reason

	opens, got, initErr, gz := measure(bi)
	if bi.valid {
		if initErr != nil {
			t.Fatalf("ImageBackend cannot read a well-formed %s image: %v", bi.shape, initErr)
		}
		if !bytes.Equal(got, s.Bytes) {
			t.Fatalf("ImageBackend on a %s image hands the parser %d bytes that are not the image's package stream (%d bytes)", bi.shape, len(got), len(s.Bytes))
		}
	} else if initErr == nil {
		t.Fatalf("ImageBackend accepted an image of shape %s", bi.shape)
	}
	if gz == 0 {
		gz = 64
	}
	sc.Steps = genSteps(t, s, bi, opens, gz)
	return sc, s, bi, opens
}

// TestVerifC15Install: for generated package contents, image shapes and fault
// scripts, what the establisher receives is exactly what the image declares,
// the must-not-install classes never reach the establisher - in every
// reconcile of the history, including the fault-free ones that read whatever
// the faults left in the cache - and a failed or partial cache write does not
// change what a later healthy reconcile installs.
func TestVerifC15Install(t *testing.T) {
	rec := verifkit.New(t, "C15", "cases = package contents x image shape x revision flavour x fault script (stream cut at constructed byte, cache store/read/close faults, damaged entry) x verification; non-trivial = at least one fault step or a must-not-install class; distinct by (type, shape, doc kinds, verdict reason, step kinds+construction)")
	rapid.Check(t, func(t *rapid.T) {
		sc, s, bi, _ := genScenario(t)
		rec.Eval()
		rec.Label("type:" + sc.Type)
		rec.Label("shape:" + sc.Shape)
		if bi.forged != "" {
			rec.Label("class:layer-bytes-do-not-match-digest:" + bi.forged + ":" + sc.Shape)
		}
		if bi.nested != "" {
			rec.Label("nested:" + bi.nested)
			if strings.HasPrefix(bi.nested, "only-nested") {
				rec.Label("class:only-nested-package.yaml")
			} else if bi.nestedBefore {
				rec.Label("class:nested-package.yaml-before-root")
			} else {
				rec.Label("class:nested-package.yaml-not-before-root")
			}
		}
		rec.Label("verdict:" + sc.Verdict + ":" + sc.Reason)
		var ks []string
		faulty := false
		for _, st := range sc.Steps {
			rec.Label("step:" + st.Kind)
			if st.Kind == "stream" {
				rec.Label("cut:" + strings.TrimRight(st.Why, "+-0123456789"))
			}
			if st.Kind != "healthy" {
				faulty = true
			}
			ks = append(ks, st.Kind+":"+st.Corrupt+":"+st.Why+":"+st.Survive)
			if st.Survive != "" {
				rec.Label("survive:" + st.Survive)
			}
		}
		if sc.Neighbour != "" {
			rec.Label("neighbour")
		}
		viol, cr := runScenario(sc, s, bi, rec)
		if cr.established > 0 {
			rec.Label("outcome:established")
		} else {
			rec.Label("outcome:never-established")
		}
		if faulty || sc.Verdict == "mustNot" {
			var dk []string
			for _, d := range sc.Docs {
				dk = append(dk, d.Kind)
			}
			key := strings.Join([]string{sc.Type, sc.Shape, bi.nested, bi.forged, strings.Join(dk, ","), sc.Reason, strings.Join(ks, ";"), sc.Neighbour}, "|")
			rec.NonTrivial(key, func() any { return sc })
		}
		if viol != "" {
			t.Fatalf("C15 violated: %s\nscenario: %s", viol, verifkit.JSON(sc))
		}
	})
}

// ---------------------------------------------------------------------------
// pinned rows (plain table, no rapid)

func pinnedDocs() []doc {
	return []doc{{Kind: "meta:Provider", Name: "pkg", MetaAPI: "v1"}, {Kind: "crd", Name: "a"}, {Kind: "crd", Name: "b"}, {Kind: "crd", Name: "c"}}
}

func TestVerifC15Pinned(t *testing.T) {
	rec := verifkit.New(t, "C15", "pinned regression rows")
	docs := pinnedDocs()
	s := render(docs, true, true)
	mk := func() builtImage {
		img, built := assemble([]layerSpec{{Annotation: "base", Files: []fileSpec{{Name: streamFile, Data: s.Bytes}}}})
		return builtImage{img: img, target: built[0].digest, streamOff: built[0].streamOff[streamFile], valid: true, shape: "annotated"}
	}
	rows := []struct {
		name  string
		steps []step
		docs  []doc
		typ   string
		rev   string
		nb    string
		want  string
	}{
		// C15-1 (as first found): the layer stream fails exactly after the 2nd of 4
		// YAML documents; the tee'd cache write was a well-formed gzip of the
		// prefix and was kept, so the next reconcile installed 1 of 3 CRDs. Since
		// 996b706 the failed read is handed to the cache writer (CloseWithError),
		// Store fails and the existing cleanup deletes the entry.
		{name: "stream-cut-at-doc-boundary", steps: []step{{Kind: "stream", Open: -1, At: -2 /* Starts[2] */}}},
		// a cut inside a document used to leave an entry that failed to parse forever
		{name: "stream-cut-inside-doc", steps: []step{{Kind: "stream", Open: -1, At: -3 /* Starts[2]+25 */}}},
		{name: "stream-cut-at-line-boundary-inside-doc", steps: []step{{Kind: "stream", Open: -1, At: -4}}},
		// C15-2: the cache file accepts nothing (disk full) while the parser is one
		// bufio chunk away from the end of a 4.5 kB stream: the failed tee write
		// surfaced once, together with data, bufio.ReadLine dropped it, the next
		// read hit the end of the image stream and returned a clean EOF - the
		// package was installed without its last document(s).
		{name: "store-fails-before-last-chunk", steps: []step{{Kind: "store", At: 0}},
			docs: []doc{{Kind: "meta:Provider", Name: "pkg", MetaAPI: "v1"}, {Kind: "crd", Name: "o0", Pad: 3300}, {Kind: "crd", Name: "o1"}, {Kind: "crd", Name: "o2"}}},
		{name: "store-fails-before-last-chunk-hides-unknown-kind", steps: []step{{Kind: "store", At: 0}}, want: "mustNot",
			docs: []doc{{Kind: "meta:Provider", Name: "pkg", MetaAPI: "v1"}, {Kind: "crd", Name: "o0", Pad: 3300}, {Kind: "crd", Name: "o1"}, {Kind: "unknown", Name: "cm"}}},
		// C15-d class: the image stream breaks on a document boundary during the
		// first pull AND the partial entry escapes the cleanup (the delete fails,
		// or the process crashes before it). Whatever Store left must not read
		// back as a complete entry: later reconciles fail or install everything.
		{name: "stream-cut-at-doc-boundary-delete-fails", steps: []step{{Kind: "stream", Open: -1, At: -2, Why: "doc2+0", Survive: "remove-fails"}}},
		{name: "stream-cut-at-doc-boundary-crash-before-delete", steps: []step{{Kind: "stream", Open: -1, At: -2, Why: "doc2+0", Survive: "crash"}}},
		{name: "stream-cut-at-line-boundary-delete-fails", steps: []step{{Kind: "stream", Open: -1, At: -4, Survive: "remove-fails"}}},
		{name: "store-fails-midway-delete-fails", steps: []step{{Kind: "store", At: 40, Survive: "remove-fails"}}},
		{name: "store-fails-midway", steps: []step{{Kind: "store", At: 40}}},
		// an entry already damaged in the cache: nothing may be installed from it;
		// that the revision then stays unhealthy (the unparsable entry is kept) is
		// only observed, see runScenario
		{name: "entry-truncated", steps: []step{{Kind: "healthy"}, {Kind: "corrupt", Corrupt: "truncate", At: 60}}},
		{name: "entry-empty", steps: []step{{Kind: "healthy"}, {Kind: "corrupt", Corrupt: "empty"}}},
		{name: "neighbour-with-prefix-name", steps: []step{{Kind: "healthy"}}, rev: "acme-pkg-0a1b2c3d4e5f", nb: "acme-pkg-0a1b2c3d4e5"},
		{name: "configuration-with-crd", steps: []step{{Kind: "healthy"}}, typ: tConfiguration, want: "mustNot",
			docs: []doc{{Kind: "meta:Configuration", Name: "pkg", MetaAPI: "v1"}, {Kind: "xrd", Name: "a"}, {Kind: "crd", Name: "b"}}},
		{name: "provider-meta-in-configuration-revision", steps: []step{{Kind: "healthy"}}, typ: tConfiguration, want: "mustNot"},
		{name: "two-metas", steps: []step{{Kind: "healthy"}}, want: "mustNot",
			docs: []doc{{Kind: "meta:Provider", Name: "pkg", MetaAPI: "v1"}, {Kind: "meta:Provider", Name: "pkg2", MetaAPI: "v1"}, {Kind: "crd", Name: "a"}}},
		{name: "unmet-constraint", steps: []step{{Kind: "healthy"}}, want: "mustNot",
			docs: []doc{{Kind: "meta:Provider", Name: "pkg", MetaAPI: "v1", Constraint: ">=1.15.0"}, {Kind: "crd", Name: "a"}}},
	}
	for _, row := range rows {
		t.Run(row.name, func(t *testing.T) {
			rec.Eval()
			rs, bi := s, mk()
			if row.docs != nil {
				rs = render(row.docs, true, true)
				img, built := assemble([]layerSpec{{Annotation: "base", Files: []fileSpec{{Name: streamFile, Data: rs.Bytes}}}})
				bi = builtImage{img: img, target: built[0].digest, streamOff: built[0].streamOff[streamFile], valid: true, shape: "annotated"}
			}
			opens, _, err, _ := measure(bi)
			if err != nil {
				t.Fatal(err)
			}
			steps := append([]step(nil), row.steps...)
			for i := range steps {
				if steps[i].Open == -1 {
					steps[i].Open = opens - 1
				}
				switch steps[i].At {
				case -2:
					steps[i].At = bi.streamOff + rs.Starts[2]
				case -3:
					steps[i].At = bi.streamOff + rs.Starts[2] + 25
				case -4:
					// end of the "metadata:" ... line block: cut right after a complete line of document 2
					idx := bytes.Index(rs.Bytes[rs.Starts[2]+4:], []byte("spec:\n"))
					steps[i].At = bi.streamOff + rs.Starts[2] + 4 + idx
				}
			}
			typ := tProvider
			if row.typ != "" {
				typ = row.typ
			}
			rev := "pkg-0a1b2c3d4e5f"
			if row.rev != "" {
				rev = row.rev
			}
			v, reason := classify(typ, rs.Docs, false)
			if row.want != "" && v.String() != row.want {
				t.Fatalf("reference model: want %s got %s (%s)", row.want, v, reason)
			}
			sc := scenario{Type: typ, RevName: rev, Docs: rs.Docs, Shape: "annotated", Steps: steps, Neighbour: row.nb, Verdict: v.String(), Reason: reason, Seed: 7}
			if viol, _ := runScenario(sc, rs, bi, rec); viol != "" {
				t.Fatalf("C15 violated (pinned %s): %s", row.name, viol)
			}
		})
	}
}

var _ = sort.Strings

// TestVerifC15PinnedNested: only the ROOT package.yaml of the image is the
// package stream; entries called package.yaml in sub-directories are not, where
// ever they sit (plain table, no rapid).
func TestVerifC15PinnedNested(t *testing.T) {
	rec := verifkit.New(t, "C15", "pinned rows: nested package.yaml entries")
	docs := pinnedDocs()
	s := render(docs, true, true)
	root := fileSpec{Name: streamFile, Data: s.Bytes}
	other := decoyStream(tProvider)
	rows := []struct {
		name   string
		layers []layerSpec
		ti     int
		valid  bool
	}{
		{"annotated-nested-valid-before-root", []layerSpec{{Annotation: "base", Files: []fileSpec{{Name: "examples/package.yaml", Data: other}, root}}}, 0, true},
		{"annotated-nested-garbage-before-root", []layerSpec{{Annotation: "base", Files: []fileSpec{{Name: "a/b/package.yaml", Data: junk}, root}}}, 0, true},
		{"plain-single-layer-nested-before-root", []layerSpec{{Files: []fileSpec{{Name: "examples/package.yaml", Data: other}, root}}}, 0, true},
		{"plain-upper-layer-adds-nested", []layerSpec{{Files: []fileSpec{root}}, {Files: []fileSpec{{Name: "usr/share/charts/package.yaml", Data: other}}}}, 0, true},
		{"plain-upper-layer-adds-nested-garbage", []layerSpec{{Files: []fileSpec{root}}, {Files: []fileSpec{{Name: "usr/share/charts/package.yaml", Data: junk}}}}, 0, true},
		{"annotated-nested-after-root", []layerSpec{{Annotation: "base", Files: []fileSpec{root, {Name: "examples/package.yaml", Data: other}}}}, 0, true},
		{"annotated-only-nested", []layerSpec{{Annotation: "base", Files: []fileSpec{{Name: "examples/package.yaml", Data: s.Bytes}}}}, 0, false},
		{"plain-only-nested", []layerSpec{{Files: []fileSpec{{Name: "a/b/package.yaml", Data: s.Bytes}}}}, 0, false},
	}
	for _, row := range rows {
		t.Run(row.name, func(t *testing.T) {
			rec.Eval()
			img, built := assemble(row.layers)
			bi := builtImage{img: img, target: built[row.ti].digest, streamOff: built[row.ti].streamOff[streamFile], valid: row.valid, shape: row.name}
			_, got, err, _ := measure(bi)
			if row.valid && (err != nil || !bytes.Equal(got, s.Bytes)) {
				t.Fatalf("C15 violated (pinned %s): ImageBackend hands the parser %d bytes (err=%v) that are not the image's root package.yaml (%d bytes)", row.name, len(got), err, len(s.Bytes))
			}
			if !row.valid && err == nil {
				t.Fatalf("C15 violated (pinned %s): ImageBackend accepted an image without a root package.yaml", row.name)
			}
			v, reason := classify(tProvider, docs, false)
			if !row.valid {
				v, reason = mustNot, "shape:only-nested-package.yaml"
			}
			sc := scenario{Type: tProvider, RevName: "pkg-0a1b2c3d4e5f", Docs: docs, Shape: row.name, Steps: []step{{Kind: "healthy"}}, Verdict: v.String(), Reason: reason, Seed: 7}
			if viol, _ := runScenario(sc, s, bi, rec); viol != "" {
				t.Fatalf("C15 violated (pinned %s): %s", row.name, viol)
			}
		})
	}
}

// TestVerifC15PinnedForgedLayer: the bytes a package layer serves are tied to
// the digest the image manifest pins. An image whose package layer serves other
// bytes (another valid package, a tampered copy) is refused; nothing is parsed,
// cached or established from it (plain table, no rapid).
func TestVerifC15PinnedForgedLayer(t *testing.T) {
	rec := verifkit.New(t, "C15", "pinned rows: layer bytes do not match the pinned digest")
	docs := pinnedDocs()
	s := render(docs, true, true)
	root := fileSpec{Name: streamFile, Data: s.Bytes}
	other := fileSpec{Name: streamFile, Data: decoyStream(tProvider)}
	tampered := fileSpec{Name: streamFile, Data: bytes.ReplaceAll(s.Bytes, []byte("name: a"), []byte("name: z"))}
	rows := []struct {
		name   string
		layers []layerSpec
		ti     int
	}{
		{"annotated-base-layer-serves-other-package", []layerSpec{{Annotation: "base", Files: []fileSpec{root}, Forge: []fileSpec{other}}}, 0},
		{"annotated-base-layer-serves-tampered-copy", []layerSpec{{Annotation: "base", Files: []fileSpec{root}, Forge: []fileSpec{tampered}}}, 0},
		{"annotated-base-plus-runtime-layer", []layerSpec{{Files: []fileSpec{{Name: "usr/bin/provider", Data: junk}}}, {Annotation: "base", Files: []fileSpec{root}, Forge: []fileSpec{other}}}, 1},
		{"plain-single-layer-serves-other-package", []layerSpec{{Files: []fileSpec{root}, Forge: []fileSpec{other}}}, 0},
		{"plain-single-layer-serves-tampered-copy", []layerSpec{{Files: []fileSpec{root}, Forge: []fileSpec{tampered}}}, 0},
		{"plain-multi-layer-serves-other-package", []layerSpec{{Files: []fileSpec{{Name: "etc/passwd", Data: junk}}}, {Files: []fileSpec{{Name: "a.txt", Data: junk}, root}, Forge: []fileSpec{{Name: "a.txt", Data: junk}, other}}, {Files: []fileSpec{{Name: "usr/bin/provider", Data: junk}}}}, 1},
	}
	for _, row := range rows {
		t.Run(row.name, func(t *testing.T) {
			rec.Eval()
			img, built := assemble(row.layers)
			bi := builtImage{img: img, target: built[row.ti].digest, streamOff: built[row.ti].streamOff[streamFile], valid: false, shape: row.name, forged: "pinned"}
			_, got, err, _ := measure(bi)
			if err == nil {
				t.Fatalf("C15 violated (pinned %s): ImageBackend accepted an image whose package layer serves bytes that do not hash to the digest the manifest pins, and hands the parser %d bytes (the declared stream has %d)", row.name, len(got), len(s.Bytes))
			}
			sc := scenario{Type: tProvider, RevName: "pkg-0a1b2c3d4e5f", Docs: docs, Shape: row.name, Steps: []step{{Kind: "healthy"}}, Verdict: mustNot.String(), Reason: "shape:layer-bytes-do-not-match-digest", Seed: 7}
			if viol, _ := runScenario(sc, s, bi, rec); viol != "" {
				t.Fatalf("C15 violated (pinned %s): %s", row.name, viol)
			}
		})
	}
}
