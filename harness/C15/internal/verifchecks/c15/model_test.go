//go:build verif

// Package c15 decides property C15: a package revision installs exactly what
// its image declares (whatever the cache did), and never installs a package
// that is not of its type, has no/several meta objects, carries kinds its type
// does not allow, does not meet the Crossplane constraints, or is unverified.
package c15

import (
	"archive/tar"
	"bytes"
	"compress/gzip"
	"crypto/sha256"
	"encoding/hex"
	"encoding/json"
	"fmt"
	"hash"
	"io"
	"sort"
	"strings"

	"github.com/google/go-containerregistry/pkg/v1/empty"
	"github.com/google/go-containerregistry/pkg/v1/mutate"
	"github.com/google/go-containerregistry/pkg/v1/tarball"
	admv1 "k8s.io/api/admissionregistration/v1"
	extv1 "k8s.io/apiextensions-apiserver/pkg/apis/apiextensions/v1"
	extv1beta1 "k8s.io/apiextensions-apiserver/pkg/apis/apiextensions/v1beta1"
	metav1 "k8s.io/apimachinery/pkg/apis/meta/v1"
	"k8s.io/apimachinery/pkg/runtime"
	"pgregory.net/rapid"
	"sigs.k8s.io/yaml"

	gcrv1 "github.com/google/go-containerregistry/pkg/v1"

	apiextv1 "github.com/crossplane/crossplane/apis/apiextensions/v1"
)

// ---------------------------------------------------------------------------
// package contents

const (
	tProvider      = "Provider"
	tConfiguration = "Configuration"
	tFunction      = "Function"
)

var pkgTypes = []string{tProvider, tConfiguration, tFunction}

// doc is one YAML document of a package stream.
type doc struct {
	// Kind is one of: meta:<Type>, crd, crdbeta, xrd, composition, mwc, vwc,
	// unknown (a kind neither scheme knows), empty, comment.
	Kind       string   `json:"kind"`
	Name       string   `json:"name,omitempty"`
	MetaAPI    string   `json:"metaAPI,omitempty"`    // meta only: v1 | v1alpha1 | v1beta1
	Constraint string   `json:"constraint,omitempty"` // meta only: spec.crossplane.version ("" = none)
	Pad        int      `json:"pad,omitempty"`        // bytes of padding carried in an annotation
	Deps       []string `json:"deps,omitempty"`       // meta only: spec.dependsOn (provider packages, version >=0.1.0)
}

func (d doc) isMeta() bool { return strings.HasPrefix(d.Kind, "meta:") }
func (d doc) isObject() bool {
	switch d.Kind {
	case "crd", "crdbeta", "xrd", "composition", "mwc", "vwc":
		return true
	}
	return false
}

func pad(n int) map[string]string {
	if n <= 0 {
		return nil
	}
	var b strings.Builder
	for b.Len() < n {
		b.WriteString("lorem-ipsum-0123456789-")
	}
	return map[string]string{"verif/pad": b.String()[:n]}
}

// object returns the typed object a document declares (nil for non-objects).
// The typed object is the oracle's notion of "what the image declares"; the
// YAML put into the image is rendered from it.
func (d doc) object() runtime.Object {
	om := metav1.ObjectMeta{Name: d.Name, Annotations: pad(d.Pad), Labels: map[string]string{"verif/doc": d.Name}}
	switch d.Kind {
	case "crd":
		return &extv1.CustomResourceDefinition{
			TypeMeta:   metav1.TypeMeta{APIVersion: "apiextensions.k8s.io/v1", Kind: "CustomResourceDefinition"},
			ObjectMeta: om,
			Spec: extv1.CustomResourceDefinitionSpec{
				Group: "verif.example.org",
				Names: extv1.CustomResourceDefinitionNames{Plural: d.Name + "s", Singular: d.Name, Kind: "K" + d.Name, ListKind: "K" + d.Name + "List"},
				Scope: extv1.ClusterScoped,
				Versions: []extv1.CustomResourceDefinitionVersion{{
					Name: "v1", Served: true, Storage: true,
					Schema: &extv1.CustomResourceValidation{OpenAPIV3Schema: &extv1.JSONSchemaProps{Type: "object", Description: "tail-" + d.Name}},
				}},
			},
		}
	case "crdbeta":
		return &extv1beta1.CustomResourceDefinition{
			TypeMeta:   metav1.TypeMeta{APIVersion: "apiextensions.k8s.io/v1beta1", Kind: "CustomResourceDefinition"},
			ObjectMeta: om,
			Spec: extv1beta1.CustomResourceDefinitionSpec{
				Group: "verif.example.org", Version: "v1",
				Names: extv1beta1.CustomResourceDefinitionNames{Plural: d.Name + "s", Kind: "K" + d.Name},
				Scope: extv1beta1.ClusterScoped,
			},
		}
	case "xrd":
		return &apiextv1.CompositeResourceDefinition{
			TypeMeta:   metav1.TypeMeta{APIVersion: "apiextensions.crossplane.io/v1", Kind: "CompositeResourceDefinition"},
			ObjectMeta: om,
			Spec: apiextv1.CompositeResourceDefinitionSpec{
				Group: "verif.example.org",
				Names: extv1.CustomResourceDefinitionNames{Plural: "x" + d.Name + "s", Kind: "X" + d.Name},
				Versions: []apiextv1.CompositeResourceDefinitionVersion{{
					Name: "v1", Served: true, Referenceable: true,
					Schema: &apiextv1.CompositeResourceValidation{OpenAPIV3Schema: runtime.RawExtension{Raw: []byte(`{"type":"object","description":"tail-` + d.Name + `"}`)}},
				}},
			},
		}
	case "composition":
		mode := apiextv1.CompositionModePipeline
		return &apiextv1.Composition{
			TypeMeta:   metav1.TypeMeta{APIVersion: "apiextensions.crossplane.io/v1", Kind: "Composition"},
			ObjectMeta: om,
			Spec: apiextv1.CompositionSpec{
				CompositeTypeRef: apiextv1.TypeReference{APIVersion: "verif.example.org/v1", Kind: "X" + d.Name},
				Mode:             &mode,
				Pipeline:         []apiextv1.PipelineStep{{Step: "s-" + d.Name, FunctionRef: apiextv1.FunctionReference{Name: "fn-" + d.Name}}},
			},
		}
	case "mwc":
		se := admv1.SideEffectClassNone
		return &admv1.MutatingWebhookConfiguration{
			TypeMeta:   metav1.TypeMeta{APIVersion: "admissionregistration.k8s.io/v1", Kind: "MutatingWebhookConfiguration"},
			ObjectMeta: om,
			Webhooks: []admv1.MutatingWebhook{{Name: d.Name + ".verif.example.org", SideEffects: &se, AdmissionReviewVersions: []string{"v1"},
				ClientConfig: admv1.WebhookClientConfig{Service: &admv1.ServiceReference{Namespace: "ns", Name: "svc-" + d.Name}}}},
		}
	case "vwc":
		se := admv1.SideEffectClassNone
		return &admv1.ValidatingWebhookConfiguration{
			TypeMeta:   metav1.TypeMeta{APIVersion: "admissionregistration.k8s.io/v1", Kind: "ValidatingWebhookConfiguration"},
			ObjectMeta: om,
			Webhooks: []admv1.ValidatingWebhook{{Name: d.Name + ".verif.example.org", SideEffects: &se, AdmissionReviewVersions: []string{"v1"},
				ClientConfig: admv1.WebhookClientConfig{Service: &admv1.ServiceReference{Namespace: "ns", Name: "svc-" + d.Name}}}},
		}
	}
	return nil
}

// yaml renders the document (without separator).
func (d doc) yaml() []byte {
	switch {
	case d.isMeta():
		m := map[string]any{
			"apiVersion": "meta.pkg.crossplane.io/" + d.MetaAPI,
			"kind":       strings.TrimPrefix(d.Kind, "meta:"),
			"metadata":   map[string]any{"name": d.Name, "labels": map[string]any{"verif/meta": d.Name}},
		}
		spec := map[string]any{}
		if d.Constraint != "" {
			spec["crossplane"] = map[string]any{"version": d.Constraint}
		}
		if len(d.Deps) > 0 {
			var l []any
			for _, dep := range d.Deps {
				l = append(l, map[string]any{"provider": dep, "version": ">=0.1.0"})
			}
			spec["dependsOn"] = l
		}
		if p := pad(d.Pad); p != nil {
			m["metadata"].(map[string]any)["annotations"] = map[string]any{"verif/pad": p["verif/pad"]}
		}
		m["spec"] = spec
		b, err := yaml.Marshal(m)
		if err != nil {
			panic(err)
		}
		return b
	case d.isObject():
		b, err := yaml.Marshal(d.object())
		if err != nil {
			panic(err)
		}
		return b
	case d.Kind == "unknown":
		return []byte("apiVersion: v1\nkind: ConfigMap\nmetadata:\n  name: " + d.Name + "\ndata:\n  k: v\n")
	case d.Kind == "empty":
		return []byte("\n")
	case d.Kind == "comment":
		return []byte("# just a comment " + d.Name + "\n")
	}
	panic("unknown doc kind " + d.Kind)
}

// canon is the canonical JSON of an object (keys sorted), the unit of the
// multiset comparison.
func canon(o runtime.Object) string {
	b, err := json.Marshal(o)
	if err != nil {
		return "unmarshalable:" + err.Error()
	}
	var v any
	if err := json.Unmarshal(b, &v); err != nil {
		return "unparseable:" + err.Error()
	}
	b, _ = json.Marshal(v)
	return string(b)
}

func canonSet(objs []runtime.Object) []string {
	out := make([]string, 0, len(objs))
	for _, o := range objs {
		out = append(out, canon(o))
	}
	sort.Strings(out)
	return out
}

func sameSet(a, b []string) bool {
	if len(a) != len(b) {
		return false
	}
	for i := range a {
		if a[i] != b[i] {
			return false
		}
	}
	return true
}

// stream is a rendered package stream with the byte offsets of its documents.
type stream struct {
	Docs   []doc
	Bytes  []byte
	Starts []int // Starts[i] = offset of the "---" line that opens document i
}

func render(docs []doc, leadingSep, trailingSep bool) stream {
	s := stream{Docs: docs}
	var b bytes.Buffer
	for i, d := range docs {
		s.Starts = append(s.Starts, b.Len())
		if i > 0 || leadingSep {
			b.WriteString("---\n")
		}
		b.Write(d.yaml())
	}
	if trailingSep {
		b.WriteString("---\n")
	}
	s.Bytes = b.Bytes()
	return s
}

func (s stream) objects() []string {
	var objs []runtime.Object
	for _, d := range s.Docs {
		if o := d.object(); o != nil {
			objs = append(objs, o)
		}
	}
	return canonSet(objs)
}

// verdict of the reference model.
type verdict int

const (
	mustInstall verdict = iota
	mustNot
	unspecified
)

func (v verdict) String() string { return [...]string{"mustInstall", "mustNot", "unspecified"}[v] }

// constraint tables for running version 1.14.2 (answers are evident by inspection).
const runningVersion = "1.14.2"

var (
	constraintsMet       = []string{">=1.0.0", "^1.2.0", ">=1.14.2", ">=1.14.0, <2.0.0", "1.14.x", "~1.14.0"}
	constraintsUnmet     = []string{">=1.15.0", "<1.14.2", "^2.0.0", "~1.13.0", ">=2", "<1.0.0"}
	constraintsMalformed = []string{">>1.0", "not-a-version", "1.x.x.x", ">=1.0.0 &&& <2"}
)

func in(l []string, s string) bool {
	for _, x := range l {
		if x == s {
			return true
		}
	}
	return false
}

// classify is the reference model of "may this stream be installed by a
// revision of type revType" (content only; image shape and verification are
// judged by the caller).
func classify(revType string, docs []doc, ignoreConstraints bool) (verdict, string) {
	var metas []doc
	for _, d := range docs {
		if d.isMeta() {
			metas = append(metas, d)
		}
	}
	for _, d := range docs {
		if d.Kind == "unknown" {
			return mustNot, "unknown-kind"
		}
	}
	if len(metas) == 0 {
		return mustNot, "no-meta"
	}
	if len(metas) > 1 {
		return mustNot, "several-meta"
	}
	m := metas[0]
	if strings.TrimPrefix(m.Kind, "meta:") != revType {
		return mustNot, "wrong-meta-type"
	}
	allowed := map[string]map[string]bool{
		tProvider:      {"crd": true, "crdbeta": true, "mwc": true, "vwc": true},
		tConfiguration: {"xrd": true, "composition": true},
	}
	if a, ok := allowed[revType]; ok { // Function: no per-object rule is documented
		for _, d := range docs {
			if d.isObject() && !a[d.Kind] {
				return mustNot, "disallowed-kind"
			}
		}
	}
	switch {
	case m.Constraint == "":
	case in(constraintsMalformed, m.Constraint):
		if ignoreConstraints {
			return unspecified, "malformed-constraint-ignored"
		}
		return mustNot, "malformed-constraint"
	case in(constraintsUnmet, m.Constraint):
		if !ignoreConstraints {
			return mustNot, "unmet-constraint"
		}
		return mustInstall, "unmet-constraint-ignored"
	case in(constraintsMet, m.Constraint):
	default:
		panic("constraint not in any table: " + m.Constraint)
	}
	return mustInstall, "ok"
}

// ---------------------------------------------------------------------------
// generators for package contents

func genDocs(t *rapid.T, revType string) []doc {
	other := func() string {
		var l []string
		for _, x := range pkgTypes {
			if x != revType {
				l = append(l, x)
			}
		}
		return rapid.SampledFrom(l).Draw(t, "otherType")
	}
	metaFor := func(typ, name string) doc {
		api := "v1"
		switch typ {
		case tFunction:
			api = rapid.SampledFrom([]string{"v1", "v1beta1"}).Draw(t, "metaAPI")
		default:
			api = rapid.SampledFrom([]string{"v1", "v1alpha1"}).Draw(t, "metaAPI")
		}
		d := doc{Kind: "meta:" + typ, Name: name, MetaAPI: api}
		switch rapid.IntRange(0, 9).Draw(t, "constraintClass") {
		case 0, 1:
			d.Constraint = rapid.SampledFrom(constraintsMet).Draw(t, "cmet")
		case 2, 3:
			d.Constraint = rapid.SampledFrom(constraintsUnmet).Draw(t, "cunmet")
		case 4:
			d.Constraint = rapid.SampledFrom(constraintsMalformed).Draw(t, "cbad")
		}
		return d
	}
	goodKinds := map[string][]string{
		tProvider:      {"crd", "crd", "crdbeta", "mwc", "vwc"},
		tConfiguration: {"xrd", "composition"},
		tFunction:      {"crd", "crd", "crdbeta"},
	}
	badKinds := map[string][]string{
		tProvider:      {"xrd", "composition"},
		tConfiguration: {"crd", "crdbeta", "mwc", "vwc"},
		tFunction:      {"xrd", "composition", "mwc", "vwc"}, // not "bad" for a Function: no rule
	}
	var docs []doc
	// meta objects
	switch rapid.IntRange(0, 19).Draw(t, "metaClass") {
	case 0:
		// no meta
	case 1:
		docs = append(docs, metaFor(revType, "pkg"), metaFor(revType, "pkg2"))
	case 2:
		docs = append(docs, metaFor(revType, "pkg"), metaFor(other(), "pkg2"))
	case 3, 4:
		docs = append(docs, metaFor(other(), "pkg"))
	default:
		docs = append(docs, metaFor(revType, "pkg"))
	}
	n := rapid.IntRange(0, 6).Draw(t, "nobj")
	odd := rapid.IntRange(0, 9).Draw(t, "oddClass") // 0: a disallowed kind; 1: an unknown kind
	for i := 0; i < n; i++ {
		k := rapid.SampledFrom(goodKinds[revType]).Draw(t, "okind")
		d := doc{Kind: k, Name: fmt.Sprintf("o%d", i)}
		if rapid.IntRange(0, 3).Draw(t, "padded") == 0 {
			d.Pad = rapid.SampledFrom([]int{50, 700, 1500, 3300, 4096, 6000}).Draw(t, "pad")
		}
		if rapid.IntRange(0, 9).Draw(t, "dup") == 0 && i > 0 {
			d.Name = fmt.Sprintf("o%d", i-1) // a duplicate name (poorly formed but valid package)
		}
		docs = append(docs, d)
	}
	if odd == 0 {
		docs = append(docs, doc{Kind: rapid.SampledFrom(badKinds[revType]).Draw(t, "badkind"), Name: "odd"})
	}
	if odd == 1 {
		docs = append(docs, doc{Kind: "unknown", Name: "cm"})
	}
	if rapid.IntRange(0, 4).Draw(t, "filler") == 0 {
		docs = append(docs, doc{Kind: rapid.SampledFrom([]string{"empty", "comment"}).Draw(t, "fillkind"), Name: "f"})
	}
	// the meta object is usually first (xpkg build), but nothing requires it
	if rapid.IntRange(0, 3).Draw(t, "shuffle") == 0 && len(docs) > 1 {
		docs = rapid.Permutation(docs).Draw(t, "perm")
	}
	return docs
}

// ---------------------------------------------------------------------------
// images

type fileSpec struct {
	Name string
	Data []byte
}

type layerSpec struct {
	Annotation string // value of io.crossplane.xpkg ("" = not annotated)
	Files      []fileSpec
	// Forge: if set, the layer REPORTS the digest, diff id and size of the layer
	// made of Files (that is what the image manifest pins) but SERVES the bytes
	// of the layer made of Forge (a registry, pull-through cache or
	// man-in-the-middle handing out a different blob). Like a registry client's
	// reader, the served stream fails digest verification only when read to EOF.
	Forge []fileSpec
}

// builtLayer is a layer plus where the package stream sits in its tar.
type builtLayer struct {
	layer     gcrv1.Layer
	digest    gcrv1.Hash
	streamOff map[string]int // file name -> offset of its content in the uncompressed tar
}

func buildLayer(ls layerSpec) builtLayer {
	var buf bytes.Buffer
	tw := tar.NewWriter(&buf)
	offs := map[string]int{}
	for _, f := range ls.Files {
		if err := tw.WriteHeader(&tar.Header{Name: f.Name, Mode: 0o644, Size: int64(len(f.Data)), Typeflag: tar.TypeReg}); err != nil {
			panic(err)
		}
		offs[f.Name] = buf.Len()
		if _, err := tw.Write(f.Data); err != nil {
			panic(err)
		}
	}
	if err := tw.Close(); err != nil {
		panic(err)
	}
	raw := buf.Bytes()
	l, err := tarball.LayerFromOpener(func() (io.ReadCloser, error) { return io.NopCloser(bytes.NewReader(raw)), nil })
	if err != nil {
		panic(err)
	}
	d, err := l.Digest()
	if err != nil {
		panic(err)
	}
	if ls.Forge != nil {
		served := buildLayer(layerSpec{Files: ls.Forge})
		return builtLayer{layer: &forgedLayer{Layer: l, served: served.layer, pinned: d}, digest: d, streamOff: offs}
	}
	return builtLayer{layer: l, digest: d, streamOff: offs}
}

// forgedLayer reports the pinned layer's identity and serves another layer's bytes.
type forgedLayer struct {
	gcrv1.Layer             // Digest, DiffID, Size, MediaType of the pinned layer
	served      gcrv1.Layer // where the bytes come from
	pinned      gcrv1.Hash
}

func (f *forgedLayer) Compressed() (io.ReadCloser, error) {
	rc, err := f.served.Compressed()
	if err != nil {
		return nil, err
	}
	return &verifyAtEOF{rc: rc, h: sha256.New(), want: f.pinned.Hex}, nil
}

func (f *forgedLayer) Uncompressed() (io.ReadCloser, error) {
	c, err := f.Compressed()
	if err != nil {
		return nil, err
	}
	zr, err := gzip.NewReader(c)
	if err != nil {
		return nil, err
	}
	return &gzipOver{Reader: zr, under: c}, nil
}

type gzipOver struct {
	*gzip.Reader
	under io.Closer
}

func (g *gzipOver) Close() error { _ = g.Reader.Close(); return g.under.Close() }

// verifyAtEOF hashes what is read and, like go-containerregistry's remote
// verifying reader, reports a digest mismatch only when the stream ends.
type verifyAtEOF struct {
	rc   io.ReadCloser
	h    hash.Hash
	want string
}

func (v *verifyAtEOF) Read(p []byte) (int, error) {
	n, err := v.rc.Read(p)
	v.h.Write(p[:n])
	if err == io.EOF {
		if got := hex.EncodeToString(v.h.Sum(nil)); got != v.want {
			return n, fmt.Errorf("error verifying sha256 checksum after reading the whole blob; got %q, want %q", got, v.want)
		}
	}
	return n, err
}

func (v *verifyAtEOF) Close() error { return v.rc.Close() }

// builtImage is an image, the layer its package stream is read from, and the
// offset of the stream in that layer's uncompressed tar.
type builtImage struct {
	img       gcrv1.Image
	target    gcrv1.Hash
	streamOff int
	valid     bool   // the shape itself is installable
	shape     string // label
	// nested: where an extra tar entry whose BASE name is package.yaml sits in a
	// sub-directory ("" = none). Only the root package.yaml is the package stream.
	nested       string
	nestedBefore bool   // the nested entry precedes the root one in the tar the backend reads
	forged       string // "" | other-package | tampered-copy: the stream layer's bytes do not match its pinned digest
}

func assemble(layers []layerSpec) (gcrv1.Image, []builtLayer) {
	img := gcrv1.Image(empty.Image)
	var built []builtLayer
	for _, ls := range layers {
		bl := buildLayer(ls)
		built = append(built, bl)
		add := mutate.Addendum{Layer: bl.layer}
		if ls.Annotation != "" {
			add.Annotations = map[string]string{"io.crossplane.xpkg": ls.Annotation}
		}
		var err error
		img, err = mutate.Append(img, add)
		if err != nil {
			panic(err)
		}
	}
	return img, built
}

const streamFile = "package.yaml"

var junk = []byte("#!/bin/sh\necho this is not a package stream\n")

// genImage wraps the stream (and possibly a decoy stream that must NOT be the
// one installed) into an image of a drawn shape.
func genImage(t *rapid.T, s, decoy []byte) builtImage {
	shape := rapid.SampledFrom([]string{"annotated", "annotated", "annotated", "annotated+files", "annotated+files", "annotated+decoy", "plain", "plain", "plain+layers", "plain+layers", "plain+override", "base+examples", "two-base", "no-stream", "plain+whiteout"}).Draw(t, "shape")
	pf := fileSpec{Name: streamFile, Data: s}
	df := fileSpec{Name: streamFile, Data: decoy}
	var layers []layerSpec
	ti := 0 // index of the layer that holds the stream
	valid := true
	switch shape {
	case "annotated":
		layers = []layerSpec{{Annotation: "base", Files: []fileSpec{pf}}}
	case "annotated+files":
		layers = []layerSpec{
			{Files: []fileSpec{{Name: "usr/bin/provider", Data: junk}}},
			{Annotation: "base", Files: []fileSpec{{Name: "README.md", Data: junk}, {Name: "crossplane.yaml", Data: decoy}, pf, {Name: "zz/after.txt", Data: junk}}},
		}
		ti = 1
	case "annotated+decoy":
		// the xpkg base layer wins over whatever the rest of the filesystem holds
		layers = []layerSpec{
			{Annotation: "base", Files: []fileSpec{pf}},
			{Files: []fileSpec{df, {Name: "bin/run", Data: junk}}},
		}
	case "plain":
		layers = []layerSpec{{Files: []fileSpec{pf}}}
	case "plain+layers":
		layers = []layerSpec{
			{Files: []fileSpec{{Name: "etc/passwd", Data: junk}}},
			{Files: []fileSpec{{Name: "a.txt", Data: junk}, pf}},
			{Files: []fileSpec{{Name: "usr/bin/provider", Data: junk}}},
		}
		ti = 1
	case "plain+override":
		// a later layer overrides the file of an earlier one
		layers = []layerSpec{
			{Files: []fileSpec{df}},
			{Files: []fileSpec{{Name: "x", Data: junk}, pf}},
		}
		ti = 1
	case "base+examples":
		layers = []layerSpec{
			{Annotation: "base", Files: []fileSpec{pf}},
			{Annotation: "upbound", Files: []fileSpec{{Name: ".up/examples.yaml", Data: junk}}},
		}
	case "two-base":
		layers = []layerSpec{
			{Annotation: "base", Files: []fileSpec{pf}},
			{Annotation: "base", Files: []fileSpec{df}},
		}
		valid = false
	case "no-stream":
		layers = []layerSpec{{Annotation: rapid.SampledFrom([]string{"base", ""}).Draw(t, "ann"), Files: []fileSpec{{Name: "crossplane.yaml", Data: s}}}}
		valid = false
	case "plain+whiteout":
		// the stream was deleted by a later layer
		layers = []layerSpec{
			{Files: []fileSpec{pf}},
			{Files: []fileSpec{{Name: ".wh." + streamFile, Data: nil}}},
		}
		valid = false
	}
	// Extra entries whose base name is package.yaml, in sub-directories. They are
	// not the package stream: what a revision installs is what the ROOT
	// package.yaml declares, never anything from another path.
	nested, nestedBefore := "", false
	if valid {
		mode := rapid.SampledFrom([]string{"", "", "", "before-root", "before-root", "after-root", "upper-layer", "upper-layer", "lower-layer", "only-nested"}).Draw(t, "nested")
		if mode == "only-nested" && shape == "plain+override" {
			mode = "" // a lower layer holds another root package.yaml there: that one would legitimately be the stream
		}
		if mode != "" {
			nf := fileSpec{Name: rapid.SampledFrom([]string{"examples/package.yaml", "a/b/package.yaml", "usr/share/charts/package.yaml"}).Draw(t, "nestedName")}
			content := rapid.SampledFrom([]string{"valid-other-package", "valid-other-package", "unrelated-yaml", "garbage"}).Draw(t, "nestedContent")
			switch content {
			case "valid-other-package":
				nf.Data = decoy
			case "unrelated-yaml":
				nf.Data = []byte("name: some-chart\nversion: 1.2.3\ndependencies:\n- name: x\n")
			default:
				nf.Data = junk
			}
			annotated := layers[ti].Annotation != ""
			rootAt := -1
			for i, f := range layers[ti].Files {
				if f.Name == streamFile {
					rootAt = i
				}
			}
			ins := func(files []fileSpec, at int, f fileSpec) []fileSpec {
				out := append([]fileSpec{}, files[:at]...)
				out = append(out, f)
				return append(out, files[at:]...)
			}
			switch mode {
			case "before-root":
				layers[ti].Files = ins(layers[ti].Files, rootAt, nf)
				nestedBefore = true
			case "after-root":
				layers[ti].Files = ins(layers[ti].Files, rootAt+1, nf)
			case "upper-layer":
				layers = append(layers, layerSpec{Files: []fileSpec{{Name: "usr/bin/tool", Data: junk}, nf}})
				nestedBefore = !annotated // flattening emits upper layers first
			case "lower-layer":
				layers = append([]layerSpec{{Files: []fileSpec{nf}}}, layers...)
				ti++
			case "only-nested":
				layers[ti].Files[rootAt].Name = nf.Name
				valid = false
			}
			nested = mode + ":" + content
		}
	}
	// The layer holding the package stream serves bytes that do not hash to the
	// digest the manifest pins: another valid package, or a tampered copy.
	forged := ""
	if valid && rapid.IntRange(0, 7).Draw(t, "forge") == 0 {
		forged = rapid.SampledFrom([]string{"other-package", "tampered-copy"}).Draw(t, "forgeKind")
		var ff []fileSpec
		for _, f := range layers[ti].Files {
			if f.Name == streamFile {
				if forged == "other-package" {
					f.Data = decoy
				} else {
					f.Data = bytes.ReplaceAll(bytes.ReplaceAll(f.Data, []byte("name: o"), []byte("name: x")), []byte("name: pkg"), []byte("name: pkx"))
					if bytes.Equal(f.Data, s) {
						f.Data = append(append([]byte{}, s...), []byte("# tampered\n")...)
					}
				}
			}
			ff = append(ff, f)
		}
		layers[ti].Forge = ff
		valid = false
	}
	img, built := assemble(layers)
	bi := builtImage{img: img, target: built[ti].digest, streamOff: built[ti].streamOff[streamFile], valid: valid, shape: shape, nested: nested, nestedBefore: nestedBefore, forged: forged}
	return bi
}
