//go:build verif

package c15

import (
	"context"
	"fmt"
	"strings"
	"sync"
	"testing"

	"github.com/google/go-containerregistry/pkg/name"
	corev1 "k8s.io/api/core/v1"
	metav1 "k8s.io/apimachinery/pkg/apis/meta/v1"
	"k8s.io/apimachinery/pkg/types"
	utilrand "k8s.io/apimachinery/pkg/util/rand"
	"pgregory.net/rapid"
	"sigs.k8s.io/controller-runtime/pkg/reconcile"

	v1 "github.com/crossplane/crossplane/apis/pkg/v1"
	"github.com/crossplane/crossplane/apis/pkg/v1beta1"
	"github.com/crossplane/crossplane/internal/controller/pkg/signature"
	"github.com/crossplane/crossplane/internal/verifkit"
	"github.com/crossplane/crossplane/internal/verifsim"
	"github.com/crossplane/crossplane/internal/xpkg"
)

// ---------------------------------------------------------------------------
// signature verification gate
//
// ImageConfig prefixes are matched against the revision's source AS WRITTEN
// (xpkg.ImageConfigStore.bestMatch: "the longest prefix match"; the revision
// and manager reconcilers and the ImageConfig watches all hand it
// pr.GetSource()). The reference model below does exactly that and nothing
// else: no default registry is prepended, docker.io is not rewritten.

const defaultRegistry = "xpkg.example.org"

const vdigest = "sha256:0123456789abcdef0123456789abcdef0123456789abcdef0123456789abcdef"

// written forms of a revision source
var vsources = []struct {
	src   string
	class string
}{
	{"acme/pkg:v1.0.0", "no-registry-host"},
	{"pkg:v1.0.0", "no-registry-host"},
	{"acme/pkg@" + vdigest, "no-registry-host"},
	{"docker.io/acme/pkg:v1.0.0", "docker.io"},
	{"index.docker.io/acme/pkg:v1.0.0", "index.docker.io"},
	{"registry.example.org:5000/acme/pkg:v1.0.0", "host-port"},
	{"xpkg.example.org/acme/pkg:v1.0.0", "fully-qualified"},
	{"xpkg.example.org/acme/pkg@" + vdigest, "fully-qualified"},
}

type vprefix struct {
	P    string `json:"p"`
	Form string `json:"form"` // written (cut from the source as written) | normalised (cut from the parsed reference's name) | other
}

func cuts(s string) []string {
	var out []string
	if i := strings.Index(s, "/"); i > 0 {
		out = append(out, s[:i], s[:i+1])
		if j := strings.Index(s[i+1:], "/"); j > 0 {
			out = append(out, s[:i+1+j])
		}
	}
	end := len(s)
	if i := strings.LastIndexAny(s, "@"); i > 0 {
		end = i
	} else if i := strings.LastIndex(s, ":"); i > strings.LastIndex(s, "/") {
		end = i
	}
	out = append(out, s[:end], s)
	if end+2 <= len(s) {
		out = append(out, s[:end+2])
	}
	return out
}

func prefixPool(src string) []vprefix {
	seen := map[string]bool{}
	var pool []vprefix
	add := func(p, form string) {
		if p == "" || seen[p] {
			return
		}
		seen[p] = true
		pool = append(pool, vprefix{P: p, Form: form})
	}
	for _, c := range cuts(src) {
		add(c, "written")
	}
	ref, err := name.ParseReference(src, name.WithDefaultRegistry(defaultRegistry))
	if err != nil {
		panic(err)
	}
	for _, c := range cuts(ref.Name()) {
		add(c, "normalised")
	}
	add("registry.other.io", "other")
	add("zz/none", "other")
	add("xpkg.example.org/acme/pkg:v2", "other")
	return pool
}

type vcfg struct {
	Name   string  `json:"name"`
	Prefix vprefix `json:"prefix"`
	// Mode: none (no verification section) | nocosign (verification without
	// cosign config) | cosign
	Mode string `json:"mode"`
	// Verdict: what the validator does for this config's authority: accept | reject | error
	Verdict string `json:"verdict"`
	// Secret: the config also carries registry authentication with this pull secret
	Secret string `json:"secret,omitempty"`
}

type vstep struct {
	Kind string `json:"kind"` // sig | rev | add | del | flip
	Cfg  int    `json:"cfg,omitempty"`
}

type scriptedValidator struct {
	mu      sync.Mutex
	verdict map[string]string // by authority name
	calls   []vcall
}

type vcall struct {
	Ref       string
	Authority string
	OK        bool
	Secrets   []string
}

func (v *scriptedValidator) Validate(_ context.Context, ref name.Reference, config *v1beta1.ImageVerification, secrets ...string) error {
	v.mu.Lock()
	defer v.mu.Unlock()
	a := ""
	if config != nil && config.Cosign != nil && len(config.Cosign.Authorities) > 0 {
		a = config.Cosign.Authorities[0].Name
	}
	verdict := v.verdict[a]
	v.calls = append(v.calls, vcall{Ref: ref.String(), Authority: a, OK: verdict == "accept", Secrets: append([]string(nil), secrets...)})
	switch verdict {
	case "accept":
		return nil
	case "error":
		return fmt.Errorf("verif: cannot reach the transparency log for authority %q", a)
	}
	return fmt.Errorf("verif: signature rejected by authority %q", a)
}

func imageConfig(c vcfg) *v1beta1.ImageConfig {
	ic := &v1beta1.ImageConfig{ObjectMeta: metav1.ObjectMeta{Name: c.Name}, Spec: v1beta1.ImageConfigSpec{MatchImages: []v1beta1.ImageMatch{{Type: v1beta1.Prefix, Prefix: c.Prefix.P}}}}
	switch c.Mode {
	case "nocosign":
		ic.Spec.Verification = &v1beta1.ImageVerification{Provider: v1beta1.ImageVerificationProviderCosign}
	case "cosign":
		ic.Spec.Verification = &v1beta1.ImageVerification{Provider: v1beta1.ImageVerificationProviderCosign,
			Cosign: &v1beta1.CosignVerificationConfig{Authorities: []v1beta1.CosignAuthority{{Name: c.Name}}}}
	}
	if c.Secret != "" {
		ic.Spec.Registry = &v1beta1.RegistryConfig{Authentication: &v1beta1.RegistryAuthentication{PullSecretRef: corev1.LocalObjectReference{Name: c.Secret}}}
	}
	return ic
}

func verifiedOf(o verifsim.Obj) (status, reason, message string) {
	conds, _ := verifsim.Nested(o, "status", "conditions").([]any)
	for _, c := range conds {
		m, _ := c.(map[string]any)
		if m["type"] == string(v1.TypeVerified) {
			status, _ = m["status"].(string)
			reason, _ = m["reason"].(string)
			message, _ = m["message"].(string)
			return
		}
	}
	return
}

type vscenario struct {
	Source string  `json:"source"`
	Cfgs   []vcfg  `json:"configs"`
	Steps  []vstep `json:"steps"`
}

// vrun executes one verification scenario; "" = holds.
func vrun(sc vscenario, initially map[int]bool, bi builtImage, expected []string, rec *verifkit.Recorder) string {
	src := sc.Source
	ref, err := name.ParseReference(src, name.WithDefaultRegistry(defaultRegistry))
	if err != nil {
		panic(err)
	}
	e := newEnv(true)
	e.fetcher.images[ref.String()] = bi
	val := &scriptedValidator{verdict: map[string]string{}}
	sigClient := e.sim.Client("signature")
	sig := signature.NewReconciler(sigClient,
		signature.WithNewPackageRevisionFn(func() v1.PackageRevision { return &v1.ProviderRevision{} }),
		signature.WithNamespace(namespace), signature.WithServiceAccount("crossplane"),
		signature.WithDefaultRegistry(defaultRegistry),
		signature.WithConfigStore(xpkg.NewImageConfigStore(sigClient, namespace)),
		signature.WithValidator(val))
	const rev = "pkg-0a1b2c3d4e5f"
	e.createRevision(revOpts{Type: tProvider, Name: rev, Source: src})
	present := map[int]bool{}
	for i, c := range sc.Cfgs {
		if initially[i] {
			e.sim.MustCreate("user", imageConfig(c))
			present[i] = true
		}
		val.verdict[c.Name] = c.Verdict
	}
	label := func(l string) {
		if rec != nil {
			rec.Label(l)
		}
	}

	// reference: the config that governs the image right now = longest prefix
	// of the source as written, among the configs that qualify
	best := func(qualifies func(vcfg) bool) (vcfg, bool) {
		var b vcfg
		found := false
		for i, c := range sc.Cfgs {
			if !present[i] || !qualifies(c) || !strings.HasPrefix(src, c.Prefix.P) {
				continue
			}
			if !found || len(c.Prefix.P) > len(b.Prefix.P) {
				b, found = c, true
			}
		}
		return b, found
	}
	bestVerification := func() (vcfg, bool) { return best(func(c vcfg) bool { return c.Mode != "none" }) }
	wantSecrets := func() []string {
		if b, ok := best(func(c vcfg) bool { return c.Secret != "" }); ok {
			return []string{b.Secret}
		}
		return nil
	}

	logAt := e.sim.LogLen()
	for i, st := range sc.Steps {
		label("vstep:" + st.Kind)
		val.mu.Lock()
		val.calls = nil
		val.mu.Unlock()
		e.fetcher.mu.Lock()
		e.fetcher.secrets = nil
		e.fetcher.mu.Unlock()
		switch st.Kind {
		case "add":
			if !present[st.Cfg] {
				e.sim.MustCreate("user", imageConfig(sc.Cfgs[st.Cfg]))
				present[st.Cfg] = true
			}
		case "del":
			if present[st.Cfg] {
				_ = e.sim.Client("user").Delete(context.Background(), imageConfig(sc.Cfgs[st.Cfg]))
				delete(present, st.Cfg)
			}
		case "flip":
			val.mu.Lock()
			if val.verdict[sc.Cfgs[st.Cfg].Name] == "accept" {
				val.verdict[sc.Cfgs[st.Cfg].Name] = "reject"
			} else {
				val.verdict[sc.Cfgs[st.Cfg].Name] = "accept"
			}
			val.mu.Unlock()
		case "sig":
			_, _ = sig.Reconcile(context.Background(), reconcile.Request{NamespacedName: types.NamespacedName{Name: rev}})
		case "rev":
			if _, _, p := e.reconcile(tProvider, rev); p != nil {
				return fmt.Sprintf("revision reconcile panicked: %v", p)
			}
		}
		b, governed := bestVerification()
		secrets := wantSecrets()
		ctxt := fmt.Sprintf("\nsource=%q configs=%s present=%v steps=%s", src, verifkit.JSON(sc.Cfgs), present, verifkit.JSON(sc.Steps))

		val.mu.Lock()
		calls := append([]vcall(nil), val.calls...)
		val.mu.Unlock()
		// consistency: whatever the signature controller asked the validator
		// about is the image, under the governing config, with the pull secret
		// the revision controller's own lookup selects for this revision
		for _, c := range calls {
			label("validator-called")
			if c.Ref != ref.String() {
				return fmt.Sprintf("step %d: validator asked about %q, the revision's image is %q%s", i, c.Ref, ref.String(), ctxt)
			}
			if !governed || c.Authority != b.Name {
				return fmt.Sprintf("step %d: validator called with the verification config of %q, the config governing the source as written is %+v (governed=%v)%s", i, c.Authority, b, governed, ctxt)
			}
			if strings.Join(c.Secrets, ",") != strings.Join(secrets, ",") {
				return fmt.Sprintf("step %d: validator given pull secrets %v, the ImageConfig governing the source as written selects %v%s", i, c.Secrets, secrets, ctxt)
			}
		}
		e.fetcher.mu.Lock()
		fetched := append([]fetchSecrets(nil), e.fetcher.secrets...)
		e.fetcher.mu.Unlock()
		for _, f := range fetched {
			label("image-fetched")
			if strings.Join(f.Secrets, ",") != strings.Join(secrets, ",") {
				return fmt.Sprintf("step %d: revision controller fetched the image with pull secrets %v, the ImageConfig governing the source as written selects %v%s", i, f.Secrets, secrets, ctxt)
			}
		}

		// every write that touches the Verified condition
		log := e.sim.Log()
		for _, w := range log[logAt:] {
			if w.Key.Kind != "ProviderRevision" || w.Key.Name != rev || w.Err != "" || w.DryRun {
				continue
			}
			after, reason, msg := verifiedOf(w.After)
			before, _, _ := verifiedOf(w.Before)
			if after == "True" && before != "True" {
				label("verified-true-written")
				if w.Actor != "signature" || st.Kind != "sig" {
					return fmt.Sprintf("step %d (%s): Verified=True written by %q, not by the signature controller%s", i, st.Kind, w.Actor, ctxt)
				}
				if !governed {
					label("verified:no-matching-config")
					continue
				}
				okCall := false
				for _, c := range calls {
					if c.Authority == b.Name && c.OK {
						okCall = true
					}
				}
				if b.Mode != "cosign" || !okCall {
					return fmt.Sprintf("step %d: Verified=True (reason %s) written although the verification config governing the source as written, %+v, was not satisfied (validator calls in this reconcile: %+v)%s", i, reason, b, calls, ctxt)
				}
				if !strings.Contains(msg, fmt.Sprintf("%q", b.Name)) {
					return fmt.Sprintf("step %d: Verified=True reports %q, the governing config is %q%s", i, msg, b.Name, ctxt)
				}
				label("verified:validator-accepted")
				label("verified:accepted:source-" + sourceClass(src))
				label("verified:accepted:prefix-" + b.Prefix.Form)
			}
		}
		logAt = len(log)
		for _, c := range e.est.take() {
			label("established")
			if c.Verified != corev1.ConditionTrue {
				return fmt.Sprintf("step %d: revision established although Verified=%q and signature verification is enabled%s", i, c.Verified, ctxt)
			}
			if !sameSet(c.Objs, expected) {
				return fmt.Sprintf("step %d: established objects differ from the image", i)
			}
		}
	}
	return ""
}

func sourceClass(src string) string {
	for _, s := range vsources {
		if s.src == src {
			return s.class
		}
	}
	return "?"
}

func vimage() (builtImage, []string) {
	docs := []doc{{Kind: "meta:Provider", Name: "pkg", MetaAPI: "v1"}, {Kind: "crd", Name: "a"}, {Kind: "crd", Name: "b"}}
	s := render(docs, true, true)
	img, built := assemble([]layerSpec{{Annotation: "base", Files: []fileSpec{{Name: streamFile, Data: s.Bytes}}}})
	return builtImage{img: img, target: built[0].digest, streamOff: built[0].streamOff[streamFile], valid: true}, s.objects()
}

// TestVerifC15Verification: with signature verification enabled, Verified=True
// is only ever written by the signature controller, after the validator
// accepted the image under the verification config that governs the
// revision's source as written (longest matching prefix) or when no
// verification config matches it; the validator is asked about the right
// image, config and pull secret (the same the revision controller's own
// lookup selects); and the revision controller never establishes a revision
// that is not Verified=True.
func TestVerifC15Verification(t *testing.T) {
	rec := verifkit.New(t, "C15", "verification: cases = written form of the source (no registry host, docker.io, index.docker.io, host:port, fully qualified, by digest) x set of ImageConfigs (prefix cut from the source as written / from the normalised reference / unrelated; verification mode; validator accepts/rejects/errors; pull secret) x interleaving of signature/revision reconciles and config changes; non-trivial = at least one verification config governs the source at some step; distinct by (source, configs, steps)")
	bi, expected := vimage()
	rapid.Check(t, func(t *rapid.T) {
		utilrand.Seed(rapid.Int64Range(1, 1<<40).Draw(t, "seed"))
		sc := vscenario{Source: vsources[rapid.IntRange(0, len(vsources)-1).Draw(t, "source")].src}
		pool := prefixPool(sc.Source)
		ncfg := rapid.IntRange(0, 3).Draw(t, "ncfg")
		idx := make([]int, len(pool))
		for i := range idx {
			idx[i] = i
		}
		pidx := rapid.Permutation(idx).Draw(t, "prefixes")
		for i := 0; i < ncfg; i++ {
			c := vcfg{Name: fmt.Sprintf("cfg%d", i), Prefix: pool[pidx[i]],
				Mode:    rapid.SampledFrom([]string{"none", "nocosign", "cosign", "cosign", "cosign"}).Draw(t, "mode"),
				Verdict: rapid.SampledFrom([]string{"accept", "accept", "reject", "error"}).Draw(t, "verdict")}
			if rapid.IntRange(0, 2).Draw(t, "secret") == 0 {
				c.Secret = fmt.Sprintf("secret-%d", i)
			}
			sc.Cfgs = append(sc.Cfgs, c)
		}
		nsteps := rapid.IntRange(1, 7).Draw(t, "nsteps")
		for i := 0; i < nsteps; i++ {
			st := vstep{Kind: rapid.SampledFrom([]string{"sig", "sig", "rev", "rev", "add", "del", "flip"}).Draw(t, "vstep")}
			if ncfg > 0 {
				st.Cfg = rapid.IntRange(0, ncfg-1).Draw(t, "cfgidx")
			} else if st.Kind != "sig" && st.Kind != "rev" {
				st.Kind = "sig"
			}
			sc.Steps = append(sc.Steps, st)
		}
		initially := map[int]bool{}
		for i := range sc.Cfgs {
			if rapid.IntRange(0, 3).Draw(t, "initiallyPresent") > 0 {
				initially[i] = true
			}
		}
		rec.Eval()
		rec.Label("vsource:" + sourceClass(sc.Source))
		governs := false
		for _, c := range sc.Cfgs {
			if c.Mode != "none" && strings.HasPrefix(sc.Source, c.Prefix.P) {
				governs = true
				rec.Label("vconfig-matching-source-as-written:prefix-" + c.Prefix.Form)
				if c.Prefix.Form == "written" && sourceClass(sc.Source) != "fully-qualified" {
					rec.Label("class:prefix-written-like-" + sourceClass(sc.Source) + "-source")
				}
			}
		}
		if viol := vrun(sc, initially, bi, expected, rec); viol != "" {
			t.Fatalf("C15 violated: %s", viol)
		}
		if governs {
			rec.NonTrivial(verifkit.JSON(sc), func() any { return sc })
		}
	})
}

// TestVerifC15VerificationPinned: for every written form of the source, a
// verification config whose prefix is written like the source governs it: a
// rejecting validator keeps the revision from being verified and installed,
// an accepting one lets it through (plain table, no rapid).
func TestVerifC15VerificationPinned(t *testing.T) {
	rec := verifkit.New(t, "C15", "verification pinned rows")
	bi, expected := vimage()
	for _, s := range vsources {
		for _, p := range prefixPool(s.src) {
			if p.Form != "written" {
				continue
			}
			for _, verdict := range []string{"reject", "accept"} {
				t.Run(fmt.Sprintf("%s/prefix=%s/%s", s.src, p.P, verdict), func(t *testing.T) {
					rec.Eval()
					sc := vscenario{Source: s.src,
						Cfgs:  []vcfg{{Name: "cfg0", Prefix: p, Mode: "cosign", Verdict: verdict, Secret: "secret-0"}},
						Steps: []vstep{{Kind: "rev"}, {Kind: "sig"}, {Kind: "rev"}, {Kind: "sig"}, {Kind: "rev"}}}
					if v := vrun(sc, map[int]bool{0: true}, bi, expected, nil); v != "" {
						t.Fatalf("C15 violated (pinned): %s", v)
					}
				})
			}
		}
	}
}
