//go:build verif

package verifsim

import (
	"context"
	"testing"

	corev1 "k8s.io/api/core/v1"
	kerrors "k8s.io/apimachinery/pkg/api/errors"
	metav1 "k8s.io/apimachinery/pkg/apis/meta/v1"
	"k8s.io/apimachinery/pkg/apis/meta/v1/unstructured"
	"k8s.io/apimachinery/pkg/types"
	"sigs.k8s.io/controller-runtime/pkg/client"
)

func cr(name string, spec map[string]any) *unstructured.Unstructured {
	return &unstructured.Unstructured{Object: map[string]any{"apiVersion": "example.org/v1", "kind": "Thing", "metadata": map[string]any{"name": name}, "spec": spec}}
}

func TestSimBasics(t *testing.T) {
	ctx := context.Background()
	s := New(NewScheme())
	c := s.Client("t")

	// create / get / already exists
	a := cr("a", map[string]any{"x": int64(1)})
	if err := c.Create(ctx, a); err != nil {
		t.Fatal(err)
	}
	if a.GetUID() == "" || a.GetResourceVersion() == "" || a.GetGeneration() != 1 {
		t.Fatalf("create did not populate metadata: %v", a.Object)
	}
	if err := c.Create(ctx, cr("a", nil)); !kerrors.IsAlreadyExists(err) {
		t.Fatalf("want AlreadyExists, got %v", err)
	}
	got := cr("", nil)
	if err := c.Get(ctx, types.NamespacedName{Name: "a"}, got); err != nil {
		t.Fatal(err)
	}
	if err := c.Get(ctx, types.NamespacedName{Name: "zz"}, got); !kerrors.IsNotFound(err) {
		t.Fatalf("want NotFound, got %v", err)
	}

	// no-op update keeps the resourceVersion; real update bumps it and the generation
	rv := a.GetResourceVersion()
	if err := c.Update(ctx, a); err != nil {
		t.Fatal(err)
	}
	if a.GetResourceVersion() != rv {
		t.Fatalf("no-op update changed resourceVersion %s -> %s", rv, a.GetResourceVersion())
	}
	_ = unstructured.SetNestedField(a.Object, int64(2), "spec", "x")
	if err := c.Update(ctx, a); err != nil {
		t.Fatal(err)
	}
	if a.GetResourceVersion() == rv || a.GetGeneration() != 2 {
		t.Fatalf("update did not bump rv/generation: %v", a.Object["metadata"])
	}

	// stale update conflicts
	stale := a.DeepCopy()
	stale.SetResourceVersion(rv)
	if err := c.Update(ctx, stale); !kerrors.IsConflict(err) {
		t.Fatalf("want Conflict, got %v", err)
	}

	// status subresource: Update ignores status, Status().Update ignores spec
	_ = unstructured.SetNestedField(a.Object, "yes", "status", "ready")
	_ = unstructured.SetNestedField(a.Object, int64(3), "spec", "x")
	if err := c.Update(ctx, a); err != nil {
		t.Fatal(err)
	}
	if _, found, _ := unstructured.NestedString(s.Get(KeyOf(a.Object)), "status", "ready"); found {
		t.Fatalf("Update wrote status")
	}
	_ = unstructured.SetNestedField(a.Object, "yes", "status", "ready")
	_ = unstructured.SetNestedField(a.Object, int64(99), "spec", "x")
	if err := c.Status().Update(ctx, a); err != nil {
		t.Fatal(err)
	}
	st := s.Get(KeyOf(a.Object))
	if v, _, _ := unstructured.NestedString(st, "status", "ready"); v != "yes" {
		t.Fatalf("Status().Update did not write status: %v", st)
	}
	if v, _, _ := unstructured.NestedInt64(st, "spec", "x"); v != 3 {
		t.Fatalf("Status().Update wrote spec: %v", st)
	}

	// two controllers are invalid
	tr := true
	b := cr("b", nil)
	b.SetOwnerReferences([]metav1.OwnerReference{{APIVersion: "v1", Kind: "K", Name: "o1", UID: "u1", Controller: &tr}, {APIVersion: "v1", Kind: "K", Name: "o2", UID: "u2", Controller: &tr}})
	if err := c.Create(ctx, b); !kerrors.IsInvalid(err) {
		t.Fatalf("want Invalid for two controllers, got %v", err)
	}

	// finalizers and deletion
	f := cr("f", nil)
	f.SetFinalizers([]string{"keep"})
	if err := c.Create(ctx, f); err != nil {
		t.Fatal(err)
	}
	if err := c.Delete(ctx, f); err != nil {
		t.Fatal(err)
	}
	if err := c.Get(ctx, types.NamespacedName{Name: "f"}, f); err != nil || f.GetDeletionTimestamp() == nil {
		t.Fatalf("object with finalizer should be terminating: %v %v", err, f.Object)
	}
	f.SetFinalizers(nil)
	if err := c.Update(ctx, f); err != nil {
		t.Fatal(err)
	}
	if err := c.Get(ctx, types.NamespacedName{Name: "f"}, f); !kerrors.IsNotFound(err) {
		t.Fatalf("object should be gone after last finalizer removed, got %v", err)
	}

	// typed objects
	sec := &corev1.Secret{ObjectMeta: metav1.ObjectMeta{Name: "s", Namespace: "ns"}, Data: map[string][]byte{"k": []byte("v")}}
	if err := c.Create(ctx, sec); err != nil {
		t.Fatal(err)
	}
	sl := &corev1.SecretList{}
	if err := c.List(ctx, sl, client.InNamespace("ns")); err != nil || len(sl.Items) != 1 || string(sl.Items[0].Data["k"]) != "v" {
		t.Fatalf("list: %v %v", err, sl.Items)
	}
	// merge patch
	orig := sec.DeepCopy()
	sec.Data["k2"] = []byte("v2")
	if err := c.Patch(ctx, sec, client.MergeFrom(orig)); err != nil {
		t.Fatal(err)
	}
	if len(sec.Data) != 2 {
		t.Fatalf("merge patch: %v", sec.Data)
	}
}

func TestSimSSA(t *testing.T) {
	ctx := context.Background()
	s := New(NewScheme())
	c := s.Client("t")
	tr := true

	a := cr("a", map[string]any{"x": int64(1), "y": "mine"})
	a.SetOwnerReferences([]metav1.OwnerReference{{APIVersion: "v1", Kind: "XR", Name: "xr1", UID: "u1", Controller: &tr}})
	if err := c.Patch(ctx, a, client.Apply, client.ForceOwnership, client.FieldOwner("m1")); err != nil {
		t.Fatal(err)
	}
	if a.GetUID() == "" || len(a.GetManagedFields()) != 1 || a.GetManagedFields()[0].Manager != "m1" {
		t.Fatalf("apply-create: %v", a.Object["metadata"])
	}
	rv := a.GetResourceVersion()

	// identical re-apply is a no-op
	a2 := cr("a", map[string]any{"x": int64(1), "y": "mine"})
	a2.SetOwnerReferences([]metav1.OwnerReference{{APIVersion: "v1", Kind: "XR", Name: "xr1", UID: "u1", Controller: &tr}})
	if err := c.Patch(ctx, a2, client.Apply, client.ForceOwnership, client.FieldOwner("m1")); err != nil {
		t.Fatal(err)
	}
	if a2.GetResourceVersion() != rv {
		t.Fatalf("identical apply changed rv %s -> %s", rv, a2.GetResourceVersion())
	}

	// another manager conflicts unless forced
	b := cr("a", map[string]any{"y": "theirs"})
	if err := c.Patch(ctx, b, client.Apply, client.FieldOwner("m2")); !kerrors.IsConflict(err) {
		t.Fatalf("want conflict, got %v", err)
	}

	// a second controller reference via forced apply is rejected as invalid
	d := cr("a", map[string]any{"z": "other"})
	d.SetOwnerReferences([]metav1.OwnerReference{{APIVersion: "v1", Kind: "XR", Name: "xr2", UID: "u2", Controller: &tr}})
	if err := c.Patch(ctx, d, client.Apply, client.ForceOwnership, client.FieldOwner("m3")); !kerrors.IsInvalid(err) {
		t.Fatalf("want invalid (two controllers), got %v", err)
	}
	if s.Get(KeyOf(a.Object))["spec"].(map[string]any)["z"] != nil {
		t.Fatalf("refused apply changed the object")
	}

	// dropping a field from the applied config removes it
	a3 := cr("a", map[string]any{"x": int64(1)})
	a3.SetOwnerReferences([]metav1.OwnerReference{{APIVersion: "v1", Kind: "XR", Name: "xr1", UID: "u1", Controller: &tr}})
	if err := c.Patch(ctx, a3, client.Apply, client.ForceOwnership, client.FieldOwner("m1")); err != nil {
		t.Fatal(err)
	}
	if _, ok := a3.Object["spec"].(map[string]any)["y"]; ok {
		t.Fatalf("field y should have been removed: %v", a3.Object["spec"])
	}

	// status apply touches only status
	st := cr("a", nil)
	delete(st.Object, "spec")
	st.Object["status"] = map[string]any{"ok": true}
	if err := c.Status().Patch(ctx, st, client.Apply, client.ForceOwnership, client.FieldOwner("m1")); err != nil {
		t.Fatal(err)
	}
	cur := s.Get(KeyOf(a.Object))
	if cur["status"].(map[string]any)["ok"] != true || cur["spec"].(map[string]any)["x"] != int64(1) {
		t.Fatalf("status apply: %v", cur)
	}

	// dry run persists nothing
	n := s.Digest()
	dr := cr("dry", map[string]any{"x": int64(1)})
	if err := c.Create(ctx, dr, client.DryRunAll); err != nil {
		t.Fatal(err)
	}
	if s.Digest() != n {
		t.Fatalf("dry-run create changed the store")
	}
}

func TestSimFaultsAndStale(t *testing.T) {
	ctx := context.Background()
	s := New(NewScheme())
	s.MustCreate("setup", cr("a", map[string]any{"x": int64(1)}))

	run := s.NewRun("r", map[int]Fault{1: {Kind: CrashAfter}})
	c := run.Client()
	a := cr("", nil)
	if err := c.Get(ctx, types.NamespacedName{Name: "a"}, a); err != nil {
		t.Fatal(err)
	}
	_ = unstructured.SetNestedField(a.Object, int64(2), "spec", "x")
	if err := c.Update(ctx, a); !IsInjected(err) {
		t.Fatalf("want injected crash, got %v", err)
	}
	if v, _, _ := unstructured.NestedInt64(s.Get(KeyOf(a.Object)), "spec", "x"); v != 2 {
		t.Fatalf("crash-after must take effect")
	}
	if err := c.Get(ctx, types.NamespacedName{Name: "a"}, a); !IsInjected(err) {
		t.Fatalf("calls after a crash must fail, got %v", err)
	}
	if run.N != 3 || run.FirstWrite != 1 {
		t.Fatalf("call accounting: N=%d first=%d", run.N, run.FirstWrite)
	}

	// stale read sees the previous version
	sc := s.NewRun("r2", nil).StaleClient(func(Key) int { return 1 })
	old := cr("", nil)
	if err := sc.Get(ctx, types.NamespacedName{Name: "a"}, old); err != nil {
		t.Fatal(err)
	}
	if v, _, _ := unstructured.NestedInt64(old.Object, "spec", "x"); v != 1 {
		t.Fatalf("stale read should see x=1, got %d", v)
	}

	// snapshot / restore
	sn := s.Snapshot()
	d0 := s.Digest()
	_ = s.Client("t").Delete(ctx, cr("a", nil))
	if s.Digest() == d0 {
		t.Fatalf("delete did not change the store")
	}
	s.Restore(sn)
	if s.Digest() != d0 {
		t.Fatalf("restore did not rewind the store")
	}

	// garbage collection of dependents
	owner := cr("owner", nil)
	s.MustCreate("setup", owner)
	dep := cr("dep", nil)
	dep.SetOwnerReferences([]metav1.OwnerReference{{APIVersion: "example.org/v1", Kind: "Thing", Name: "owner", UID: owner.GetUID()}})
	s.MustCreate("setup", dep)
	if s.GCStep() {
		t.Fatalf("nothing to collect yet")
	}
	_ = s.Client("t").Delete(ctx, owner)
	if !s.GCStep() || s.Get(KeyOf(dep.Object)) != nil {
		t.Fatalf("dependent should have been collected")
	}
}
