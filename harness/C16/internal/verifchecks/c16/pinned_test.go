//go:build verif

package c16

import (
	"context"
	"fmt"
	"strings"
	"sync"
	"testing"

	"k8s.io/apimachinery/pkg/apis/meta/v1/unstructured"
	"k8s.io/apimachinery/pkg/types"

	"github.com/crossplane/crossplane/internal/verifkit"
	"github.com/crossplane/crossplane/internal/verifsim"
)

func fatal(t *testing.T) func(string, ...any) {
	return func(f string, a ...any) { t.Helper(); t.Fatalf(f, a...) }
}

// ---------------------------------------------------------------------------
// known finding C16/inactive-webhook-config-name
//
// establisher.go deploys a package's Validating/MutatingWebhookConfiguration as
// crossplane-<kind>-<package> when the revision has a webhook CA
// (enrichControlledResource, control=true only). A revision that does not
// control (validate/establish with control=false) and ReleaseObjects (through
// status.objectRefs recorded before the object was deployed) look the object up
// under its static name from the package instead, do not find it, and report
// success: deactivation does not give up control of the deployed webhook
// configuration.

const knownKey = "inactive-webhook-config-name"

var knownOpen = sync.OnceValue(func() bool { return verifkit.OpenFinding("C16", knownKey) })

func hasWebhookConfig(objs []objSpec) bool {
	for _, o := range objs {
		if o.Kind == "VWC" || o.Kind == "MWC" {
			return true
		}
	}
	return false
}

// excludeKnown steers a direct Establish scenario away from the open finding:
// a non-controlling revision of a package that ships webhook configurations and
// has a webhook CA (so that they are deployed under the package-derived name).
// Without the CA the same objects live under their static names, which is kept.
func excludeKnown(sc *scenario) bool {
	if !knownOpen() || sc.Control || !flavours[sc.Flavour].Runtime || sc.Secret != "ok" || !hasWebhookConfig(sc.Objs) {
		return false
	}
	sc.Secret = "none"
	return true
}

// isKnownClass is the classifier of the pinned reproducers: the offending object
// is a webhook configuration deployed under the package-derived name.
func isKnownClass(msg string) bool {
	head := msg
	if i := strings.Index(head, "\nhistory:"); i >= 0 {
		head = head[:i]
	}
	return strings.Contains(head, "WebhookConfiguration//crossplane-")
}

type aborted struct{ msg string }

// try runs a reproducer row with a fail function that aborts the row and hands the message back.
func try(body func(fail func(string, ...any))) (msg string, failed bool) {
	defer func() {
		if r := recover(); r != nil {
			a, ok := r.(aborted)
			if !ok {
				panic(r)
			}
			msg, failed = a.msg, true
		}
	}()
	body(func(f string, a ...any) { panic(aborted{fmt.Sprintf(f, a...)}) })
	return "", false
}

// settle applies the known-finding protocol to the rows of one reproducer.
func settle(t *testing.T, rec *verifkit.Recorder, what string, known int, first string, other []string) {
	t.Helper()
	if len(other) > 0 {
		t.Fatalf("%d rows failed with something else than the known finding, first:\n%s", len(other), other[0])
	}
	switch {
	case known == 0:
	case knownOpen():
		rec.KnownReproduced(fmt.Sprintf("key=%s %s (%d rows)", knownKey, what, known))
	default:
		t.Fatalf("%d rows failed, first:\n%s", known, first)
	}
}

// TestVerifC16PinnedInactiveWebhookName is the smallest form of the defect the
// histories found on the pinned tree: webhook configurations of a package with
// a CA are deployed as crossplane-<kind>-<package>, but an inactive revision
// (control=false) looked for them under their static name from the package,
// so a deactivated revision whose status.objectRefs is empty (never recorded
// because the activating reconcile failed half way, or lost - the case the
// comment in ReleaseObjects describes) stayed their controller for ever.
func TestVerifC16PinnedInactiveWebhookName(t *testing.T) {
	rec := verifkit.New(t, "C16", "pinned rows")
	known, first, other := 0, "", []string(nil)
	for fi, fl := range flavours {
		if !fl.Runtime {
			continue
		}
		for _, kinds := range [][]string{{"VWC"}, {"MWC"}, {"CRD", "VWC", "MWC"}} {
			rec.Eval()
			sc := scenario{Flavour: fi, Control: false, Reject: -1, Secret: "ok", Limit: 1}
			for _, k := range kinds {
				sc.Objs = append(sc.Objs, objSpec{Kind: k, Name: namePool[k][0], Variant: 1})
				sc.Pre = append(sc.Pre, preSpec{State: pSelfControlled, PkgRef: true})
			}
			msg, failed := try(func(fail func(string, ...any)) { runEstablishScenario(sc, rec, fail, false) })
			switch {
			case failed && isKnownClass(msg):
				if known++; first == "" {
					first = msg
				}
			case failed:
				other = append(other, msg)
			}
		}
	}
	settle(t, rec, "Establish(control=false) of a revision that controls crossplane-<kind>-<package> looks for the webhook configuration under its static package name and stays its controller", known, first, other)
}

func (h *hworld) wipeStatus(rev string) {
	c := h.sim.Client("restore")
	u := &unstructured.Unstructured{}
	u.SetAPIVersion(pkgAPI)
	u.SetKind(h.fl.RevKind)
	if err := c.Get(context.Background(), types.NamespacedName{Name: rev}, u); err != nil {
		h.failf("harness: %v", err)
	}
	delete(u.Object, "status")
	if err := c.Status().Update(context.Background(), u); err != nil {
		h.failf("harness: %v", err)
	}
	h.logf("status of %s lost", rev)
}

func pinnedWorld(t *testing.T, fl flavour) *hworld { return pinnedWorldF(fl, fatal(t)) }

func pinnedWorldF(fl flavour, fail func(string, ...any)) *hworld {
	h := newHWorld(fl, fail, 1, map[string]bool{"alpha": true, "beta": true})
	if fl.Kind == "Configuration" {
		h.addContent("alpha", "alpha-r1", []objSpec{{Kind: "XRD", Name: "xas.acme.example.org", Variant: 1}, {Kind: "Composition", Name: "comp-a", Variant: 1}, {Kind: "Composition", Name: "comp-b", Variant: 1}})
		h.addContent("alpha", "alpha-r2", []objSpec{{Kind: "XRD", Name: "xas.acme.example.org", Variant: 2}, {Kind: "Composition", Name: "comp-a", Variant: 2}})
		h.addContent("alpha", "alpha-r3", []objSpec{{Kind: "XRD", Name: "xas.acme.example.org", Variant: 3}})
		h.addContent("beta", "beta-r1", []objSpec{{Kind: "Composition", Name: "comp-c", Variant: 1}})
	} else {
		h.addContent("alpha", "alpha-r1", []objSpec{{Kind: "CRD", Name: "widgets.acme.example.org", Variant: 1}, {Kind: "CRD", Name: "gadgets.acme.example.org", Variant: 1}, {Kind: "VWC", Name: namePool["VWC"][0], Variant: 1}})
		h.addContent("alpha", "alpha-r2", []objSpec{{Kind: "CRD", Name: "widgets.acme.example.org", Variant: 2, Conv: true}, {Kind: "VWC", Name: namePool["VWC"][0], Variant: 2}})
		h.addContent("alpha", "alpha-r3", []objSpec{{Kind: "CRD", Name: "widgets.acme.example.org", Variant: 3}})
		h.addContent("beta", "beta-r1", []objSpec{{Kind: "CRD", Name: "gizmos.acme.example.org", Variant: 1}})
	}
	return h
}

func (h *hworld) mustBe(k verifsim.Key, controller string, plainOwners ...string) {
	o := h.sim.Get(k)
	if o == nil {
		h.failf("%s does not exist", k)
		return
	}
	want := ""
	if controller != "" {
		want = h.world.revs[controller].UID
	}
	if got := verifsim.ControllerUID(o); got != want {
		h.failf("%s: controller is %q, want %s (%q): %v", k, got, controller, want, verifsim.OwnerRefs(o))
	}
	for _, n := range plainOwners {
		uid := h.world.revs[n].UID
		if n == "alpha" || n == "beta" {
			uid = h.pkgs[n].UID
		}
		if r := refByUID(o, uid); r == nil || isController(r) {
			h.failf("%s: %s is not a plain owner: %v", k, n, verifsim.OwnerRefs(o))
		}
	}
}

// TestVerifC16PinnedUpgradeChain walks install -> upgrade (successor reconciled
// before the predecessor: refused, nothing written) -> deactivation -> take-over
// -> deletion of the old revision -> garbage collection, and states the expected
// owner references explicitly. It also guards against a vacuously quiet harness.
func TestVerifC16PinnedUpgradeChain(t *testing.T) {
	rec := verifkit.New(t, "C16", "pinned rows")
	for _, fl := range flavours {
		t.Run(fl.Kind, func(t *testing.T) {
			rec.Eval()
			h := pinnedWorld(t, fl)
			r1, r2 := h.revs["alpha-r1"], h.revs["alpha-r2"]
			key := func(r *hrev, i int) verifsim.Key { return h.planKeys(r)[i] }
			h.switchTo("alpha-r1")
			h.step(rec, "alpha-r1", nil)
			for i := range r1.Objs {
				h.mustBe(key(r1, i), "alpha-r1", "alpha")
			}
			h.switchTo("alpha-r2")
			before := h.sim.Digest()
			h.step(rec, "alpha-r2", nil) // predecessor still controls the shared objects
			if h.refusals != 1 {
				t.Fatalf("expected the successor to be refused while its predecessor controls the shared objects\n%v", h.hist)
			}
			for i := range r1.Objs {
				h.mustBe(key(r1, i), "alpha-r1", "alpha")
			}
			_ = before
			h.step(rec, "alpha-r1", nil) // deactivation
			for i := range r1.Objs {
				h.mustBe(key(r1, i), "", "alpha-r1", "alpha")
			}
			h.step(rec, "alpha-r2", nil)
			if h.tookOver != 1 {
				t.Fatalf("expected the successor to take over the shared objects\n%v", h.hist)
			}
			for i := range r2.Objs {
				h.mustBe(key(r2, i), "alpha-r2", "alpha-r1", "alpha")
			}
			// history GC of the package manager deletes the old revision
			o := h.fl.newRev()
			o.SetName("alpha-r1")
			if err := h.sim.Client("pkg-manager").Delete(context.Background(), o); err != nil {
				t.Fatal(err)
			}
			h.step(rec, "alpha-r1", nil) // removes the finalizer
			if h.created("alpha-r1") {
				t.Fatalf("alpha-r1 should be gone")
			}
			h.gc("deletion of alpha-r1")
			for i := range r1.Objs { // including the one alpha-r2 dropped
				if h.sim.Get(key(r1, i)) == nil {
					t.Fatalf("%s was garbage collected", key(r1, i))
				}
			}
			// rollback is not possible (r1 is gone); upgrade to r3 and back to r2
			h.switchTo("alpha-r3")
			h.step(rec, "alpha-r2", nil)
			h.step(rec, "alpha-r3", nil)
			h.switchTo("alpha-r2")
			h.step(rec, "alpha-r3", nil)
			h.step(rec, "alpha-r2", nil)
			h.mustBe(key(r2, 0), "alpha-r2", "alpha-r3", "alpha")
			for i := range r2.Objs {
				h.mustBe(key(r2, i), "alpha-r2", "alpha")
			}
			h.finish(rec)
		})
	}
}

func (h *hworld) planKeys(r *hrev) []verifsim.Key {
	var out []verifsim.Key
	for _, o := range r.Objs {
		name := o.Name
		if (o.Kind == "VWC" || o.Kind == "MWC") && h.fl.Runtime && h.secret[r.Pkg] == "ok" {
			name = "crossplane-" + lower(h.fl.Kind) + "-" + r.Pkg
		}
		out = append(out, objKey(o, name))
	}
	return out
}

func lower(s string) string {
	b := []byte(s)
	for i, c := range b {
		if c >= 'A' && c <= 'Z' {
			b[i] = c + 32
		}
	}
	return string(b)
}

// TestVerifC16PinnedDeactivationAfterPartialActivation: the activating reconcile
// of alpha-r1 is hit by every fault kind at every call index; then alpha-r2
// becomes current and both reconcile fault-free (old first). The deactivated
// revision must end up controlling nothing, whatever part of its activation
// had happened, and the successor must hold everything it ships. A second row
// loses status.objectRefs of a fully activated revision instead (backup/restore);
// the "manual" rows let the revision reconcile as an inactive one before it is
// activated, so that its status already lists (not yet deployed) objects.
func TestVerifC16PinnedDeactivationAfterPartialActivation(t *testing.T) {
	rec := verifkit.New(t, "C16", "pinned rows")
	known, first, other := 0, "", []string(nil)
	for _, fl := range flavours {
		probe := pinnedWorld(t, fl)
		probe.switchTo("alpha-r1")
		_, _, run := probe.reconcile("alpha-r1", nil)
		n := run.N
		if n < 8 {
			t.Fatalf("harness: the activating reconcile issued only %d calls", n)
		}
		for _, manual := range []bool{false, true} {
			for k := -1; k < n; k++ {
				for _, f := range faultKinds {
					rec.Eval()
					msg, failed := try(func(fail func(string, ...any)) {
						h := pinnedWorldF(fl, fail)
						if manual {
							// revisionActivationPolicy Manual: the revision is reconciled while
							// inactive first (its status then lists objects that are not deployed yet).
							h.createRevision("alpha-r1", false)
							h.logf("create alpha-r1 inactive")
							h.step(rec, "alpha-r1", nil)
							h.step(rec, "alpha-r1", nil)
						}
						h.switchTo("alpha-r1")
						if k < 0 {
							h.step(rec, "alpha-r1", nil)
							h.wipeStatus("alpha-r1")
						} else {
							h.step(rec, "alpha-r1", map[int]verifsim.Fault{k: f})
						}
						h.switchTo("alpha-r2")
						h.step(rec, "alpha-r1", nil)
						h.step(rec, "alpha-r1", nil)
						h.step(rec, "alpha-r2", nil)
						for _, key := range h.planKeys(h.revs["alpha-r2"]) {
							h.mustBe(key, "alpha-r2", "alpha")
						}
					})
					switch {
					case failed && isKnownClass(msg):
						if known++; first == "" {
							first = msg
						}
					case failed:
						other = append(other, msg)
					}
					if k < 0 {
						break
					}
				}
			}
		}
	}
	settle(t, rec, "a revision deactivated after a partial activation / lost status / manual activation (reconciler: Establish control=false or ReleaseObjects via stale status.objectRefs) never gives up control of the deployed webhook configuration", known, first, other)
}

// TestVerifC16PinnedPostHookFails: the post-establish hook of a package with a
// runtime fails (its deployment never becomes available) after Establish took
// control of the package's objects. The status the reconcile writes must record
// what the revision controls by then, because deactivation works from
// status.objectRefs only; on rollback the deactivated revision must control
// nothing and its predecessor must get everything back.
//
// Rows: first activation (no references recorded before); a revision that was
// reconciled inactive first (manual activation) - its older references name the
// webhook configuration by its static package name while the active revision
// controls crossplane-<kind>-<package>; a successor adding a CRD.
func TestVerifC16PinnedPostHookFails(t *testing.T) {
	rec := verifkit.New(t, "C16", "pinned rows")
	for _, fl := range flavours {
		if !fl.Runtime {
			continue
		}
		for _, manual := range []bool{false, true} {
			for _, webhook := range []bool{false, true} {
				t.Run(fmt.Sprintf("%s/inactive-first=%v/webhook=%v", fl.Kind, manual, webhook), func(t *testing.T) {
					rec.Eval()
					h := newHWorld(fl, fatal(t), 1, map[string]bool{"alpha": true, "beta": true})
					r1 := []objSpec{{Kind: "CRD", Name: "widgets.acme.example.org", Variant: 1}}
					r2 := []objSpec{{Kind: "CRD", Name: "widgets.acme.example.org", Variant: 2}, {Kind: "CRD", Name: "gadgets.acme.example.org", Variant: 1}}
					if webhook {
						r1 = append(r1, objSpec{Kind: "VWC", Name: namePool["VWC"][0], Variant: 1})
						r2 = append(r2, objSpec{Kind: "VWC", Name: namePool["VWC"][0], Variant: 2})
					}
					h.addContent("alpha", "alpha-r1", r1)
					h.addContent("alpha", "alpha-r2", r2)
					h.addContent("alpha", "alpha-r3", r1[:1])
					h.addContent("beta", "beta-r1", []objSpec{{Kind: "CRD", Name: "gizmos.acme.example.org", Variant: 1}})
					h.switchTo("alpha-r1")
					h.step(rec, "alpha-r1", nil)
					if manual {
						h.createRevision("alpha-r2", false)
						h.logf("create alpha-r2 inactive")
						h.step(rec, "alpha-r2", nil)
						h.step(rec, "alpha-r2", nil)
					}
					h.switchTo("alpha-r2") // upgrade
					h.step(rec, "alpha-r1", nil)
					h.postDown["alpha-r2"] = true
					for i := 0; i < 2; i++ {
						h.step(rec, "alpha-r2", nil) // Establish succeeds, Post fails
					}
					if h.postFailedAfterEstablish != 2 {
						t.Fatalf("harness: expected Establish to succeed and the post hook to fail twice, got %d\n%v", h.postFailedAfterEstablish, h.hist)
					}
					for _, k := range h.planKeys(h.revs["alpha-r2"]) {
						h.mustBe(k, "alpha-r2", "alpha")
					}
					h.switchTo("alpha-r1") // rollback
					h.step(rec, "alpha-r2", nil)
					h.step(rec, "alpha-r2", nil)
					h.step(rec, "alpha-r1", nil)
					for _, k := range h.planKeys(h.revs["alpha-r1"]) {
						h.mustBe(k, "alpha-r1", "alpha-r2", "alpha")
					}
					h.finish(rec)
				})
			}
		}
	}
}
