//go:build verif

package c16

// Incoherent views of the cluster. The establisher decides create-vs-update from
// a Get; here that Get can be wrong:
//
//   - stale reads: the establisher reads through a lagging cache that does not
//     show some objects that exist (writes hit the live store), and
//   - an interloper creates a contested object between the establisher's API
//     calls k and k+1, for every k.
//
// What the property and the code promise, and what is judged:
//
//   S1 (all-or-nothing, strict). If an object of the package cannot be taken over
//      - it exists under another controller while control is wanted, or the
//      server rejects its write - and that was already so when the establisher
//      validated (dry-ran) that object, Establish returns an error and issues no
//      real request for any object of the package. A stale NotFound does not
//      change this: the dry-run create hits the live server, which refuses it
//      (AlreadyExists), and the object could not have been taken over anyway.
//   S2 (no false success). If Establish of an active revision returns nil, every
//      object of the package exists and is controlled by the revision (and keeps
//      the package as plain owner): success never covers an object somebody else
//      holds, however the Get was answered.
//   Exempt: a contested object that appears only after the establisher validated
//      it is a lost race like a transient fault; the real create then fails with
//      AlreadyExists and objects written before it may exist. Only S2 is judged.
//      Likewise a hidden object that could be taken over (uncontrolled, or the
//      revision's own): the code fails with AlreadyExists until its cache catches
//      up; only S2 is judged.

import (
	"context"
	"fmt"
	"sync"
	"testing"

	"k8s.io/apimachinery/pkg/apis/meta/v1/unstructured"
	"pgregory.net/rapid"
	"sigs.k8s.io/controller-runtime/pkg/client"

	"github.com/crossplane/crossplane/internal/verifkit"
	"github.com/crossplane/crossplane/internal/verifsim"
)

// ---------------------------------------------------------------------------
// stale reads

type staleScenario struct {
	scenario
	Hidden []int // indexes of existing objects the establisher's cache does not show
}

func genStale(t *rapid.T) staleScenario {
	sc := genScenario(t)
	// Active revisions are where a wrong NotFound turns into a create.
	if rapid.IntRange(0, 3).Draw(t, "stale.active") > 0 {
		sc.Control = true
	}
	var existing []int
	for i, p := range sc.Pre {
		if p.State != pAbsent {
			existing = append(existing, i)
		}
	}
	if len(existing) == 0 {
		i := rapid.IntRange(0, len(sc.Objs)-1).Draw(t, "stale.which")
		sc.Pre[i].State = rapid.SampledFrom([]preState{pUncontrolled, pSelfControlled, pPrevControlled, pPrevControlled, pPrevReleased, pForeignControlled, pForeignControlled, pForeignOwned}).Draw(t, "stale.pre")
		existing = []int{i}
	}
	st := staleScenario{scenario: sc}
	for _, i := range existing {
		if len(st.Hidden) == 0 || rapid.Bool().Draw(t, "stale.hide") {
			st.Hidden = append(st.Hidden, i)
		}
	}
	return st
}

func runStaleScenario(st staleScenario, rec *verifkit.Recorder, fail func(string, ...any)) (err error) {
	sc := st.scenario
	w, m := sc.setup(fail)
	if !sc.Control {
		// A revision that does not control never writes an object it does not see.
		for _, i := range st.Hidden {
			delete(m.Refused, i)
		}
	}
	must := m.mustFail()
	self, pkg := w.revs[revName], w.pkgs[pkgName]
	hidden := map[verifsim.Key]bool{}
	hiddenIdx := map[int]bool{}
	hiddenRefused := 0
	for _, i := range st.Hidden {
		hidden[m.Keys[i]] = true
		hiddenIdx[i] = true
		if _, ok := m.Refused[i]; ok {
			hiddenRefused++
			rec.Label("stale:hidden-refused")
		} else {
			rec.Label("stale:hidden-takeable")
		}
	}
	rec.Labelf("stale:control=%v", sc.Control)
	if hiddenRefused > 0 && len(sc.Objs) >= 2 {
		rec.NonTrivial("stale|"+verifkit.JSON(st), func() any { return st })
	}
	before := w.sim.Digest()
	run := w.sim.NewRun(estActor, nil)
	c := run.StaleClient(func(k verifsim.Key) int {
		if hidden[k] {
			return verifsim.LagHideNew
		}
		return 0
	})
	_, err, cc := w.establishWith(c, revName, sc.Objs, sc.Control, sc.Limit, must)
	where := "Establish through a cache that hides " + fmt.Sprint(st.Hidden) + " of " + verifkit.JSON(sc)
	w.violations(where)
	switch {
	case must != "":
		rec.Label("stale:outcome-must-fail")
		if err == nil {
			fail("ALL-OR-NOTHING: %s returned nil although %s", where, must)
		}
		if cc.RealWrite > 0 || w.sim.Digest() != before {
			fail("ALL-OR-NOTHING: %s: %s, yet the cluster changed (%d real requests)", where, must, cc.RealWrite)
		}
	case err == nil:
		rec.Label("stale:outcome-ok")
		// For an inactive revision a hidden object is simply not seen this time.
		keys, exist, owned := m.Keys, m.Existing, m.Owned
		if !sc.Control {
			keys, exist, owned = nil, map[int]bool{}, map[int]bool{}
			for i, k := range m.Keys {
				if !hiddenIdx[i] {
					exist[len(keys)], owned[len(keys)] = m.Existing[i], m.Owned[i]
					keys = append(keys, k)
				}
			}
		}
		w.checkEstablished(where, self, pkg, sc.Control, keys, exist, owned)
		if !sc.Control && cc.Creates > 0 {
			fail("INACTIVE-ROLE: %s issued %d creates", where, cc.Creates)
		}
	default:
		// A hidden object that could have been taken over: the create is refused
		// (AlreadyExists) until the cache catches up.
		rec.Label("stale:outcome-error-takeable")
	}
	if del := w.gcQuiesce(); len(del) > 0 {
		fail("GC: after %s the garbage collector deleted %v", where, del)
	}
	return err
}

func TestVerifC16StaleReads(t *testing.T) {
	rec := verifkit.New(t, "C16", "scenario as for Establish with at least one pre-existing object, a non-empty drawn subset of the pre-existing objects being invisible to the establisher's reads (lagging cache, verifsim.LagHideNew) while its writes hit the live store; non-trivial = a hidden object that cannot be taken over in a package of >= 2 objects")
	rapid.Check(t, func(t *rapid.T) {
		rec.Eval()
		st := genStale(t)
		if excludeKnown(&st.scenario) {
			rec.Excluded()
		}
		_ = runStaleScenario(st, rec, func(f string, a ...any) { t.Helper(); t.Fatalf(f, a...) })
	})
}

// ---------------------------------------------------------------------------
// interloper between two API calls of the establisher

// tickClient calls fire before the establisher's API call number at.
type tickClient struct {
	client.Client
	mu    sync.Mutex
	n, at int
	fired bool
	fire  func()
}

func (c *tickClient) tick() {
	c.mu.Lock()
	defer c.mu.Unlock()
	if c.n == c.at && !c.fired {
		c.fired = true
		c.fire()
	}
	c.n++
}

func (c *tickClient) Get(ctx context.Context, key client.ObjectKey, obj client.Object, opts ...client.GetOption) error {
	c.tick()
	return c.Client.Get(ctx, key, obj, opts...)
}

func (c *tickClient) Create(ctx context.Context, obj client.Object, opts ...client.CreateOption) error {
	c.tick()
	return c.Client.Create(ctx, obj, opts...)
}

func (c *tickClient) Update(ctx context.Context, obj client.Object, opts ...client.UpdateOption) error {
	c.tick()
	return c.Client.Update(ctx, obj, opts...)
}

type raceScenario struct {
	scenario
	Contested int      // index of an absent object somebody else creates meanwhile
	As        preState // how the interloper's object is owned
	Drift     bool
}

func genRace(t *rapid.T) raceScenario {
	sc := genScenario(t)
	if rapid.IntRange(0, 3).Draw(t, "race.active") > 0 {
		sc.Control = true
	}
	j := rapid.IntRange(0, len(sc.Objs)-1).Draw(t, "race.which")
	sc.Pre[j].State = pAbsent
	if sc.Reject == j {
		sc.Reject = -1
	}
	sc.Limit = 1 // the numbering of the establisher's calls is then deterministic
	return raceScenario{scenario: sc, Contested: j,
		As:    rapid.SampledFrom([]preState{pForeignControlled, pForeignControlled, pPrevControlled, pUncontrolled, pForeignOwned}).Draw(t, "race.as"),
		Drift: rapid.Bool().Draw(t, "race.drift")}
}

func runRaceScenario(rs raceScenario, rec *verifkit.Recorder, fail func(string, ...any)) {
	sc := rs.scenario
	w, m := sc.setup(fail)
	must := m.mustFail()
	self, pkg := w.revs[revName], w.pkgs[pkgName]
	snap := w.sim.Snapshot()
	probe := w.sim.NewRun(estActor, nil)
	w.establish(probe, revName, sc.Objs, sc.Control, 1, must)
	w.sim.TakeViolations()
	n := probe.N
	j := rs.Contested
	kj := m.Keys[j]
	refusing := sc.Control && (rs.As == pForeignControlled || rs.As == pPrevControlled)
	tr, fa := true, false
	rec.Labelf("race:as=%s control=%v", rs.As, sc.Control)
	for at := 0; at < n; at++ {
		rec.Eval()
		w.sim.Restore(snap)
		when := ""
		tc := &tickClient{Client: w.sim.NewRun(estActor, nil).Client(), at: at}
		tc.fire = func() {
			stored := sc.Objs[j]
			if rs.Drift {
				stored.Variant = stored.Variant%3 + 1
			}
			var refs []map[string]any
			switch rs.As {
			case pForeignControlled:
				refs = []map[string]any{w.revs[foreignRev].ref(&tr), w.pkgs[foreignPkg].ref(&fa)}
			case pForeignOwned:
				refs = []map[string]any{w.revs[foreignRev].ref(nil), w.pkgs[foreignPkg].ref(&fa)}
			case pPrevControlled:
				refs = []map[string]any{w.revs[prevName].ref(&tr), w.pkgs[pkgName].ref(&fa)}
			}
			if err := w.tryPutObject("interloper", stored, m.Names[j], refs); err != nil {
				when = "interloper-too-late" // the establisher created the object first
				return
			}
			w.sim.With(func(*verifsim.View) {
				when = "after-dry-run"
				if w.cur != nil && !w.cur.DryKeys[kj] {
					when = "before-dry-run"
					if refusing && w.cur.MustFail == "" {
						w.cur.MustFail = fmt.Sprintf("%s was created under another controller (%s) before the establisher validated it", kj, rs.As)
					}
				}
			})
		}
		_, err, cc := w.establishWith(tc, revName, sc.Objs, sc.Control, 1, must)
		if !tc.fired || when == "interloper-too-late" {
			rec.Label("race:interloper-too-late")
			continue
		}
		where := fmt.Sprintf("Establish of %s while %s is created as %s before the establisher's call %d (%s, %s)", verifkit.JSON(sc), kj, rs.As, at, at2(probe.Calls, at), when)
		w.violations(where)
		rec.Labelf("race:%s refusing=%v", when, refusing)
		if refusing && when == "before-dry-run" && len(sc.Objs) >= 2 {
			rec.NonTrivial(fmt.Sprintf("race|%s|%d", verifkit.JSON(rs), at), func() any { return map[string]any{"scenario": rs, "before_call": at} })
		}
		switch {
		case cc.MustFail != "":
			rec.Label("race:outcome-must-fail")
			if err == nil {
				fail("ALL-OR-NOTHING: %s returned nil although %s", where, cc.MustFail)
			}
			if cc.RealWrite > 0 {
				fail("ALL-OR-NOTHING: %s: %s, yet %d real requests were issued", where, cc.MustFail, cc.RealWrite)
			}
		case err == nil:
			rec.Label("race:outcome-ok")
			exist, owned := map[int]bool{}, map[int]bool{}
			for i := range m.Keys {
				exist[i], owned[i] = m.Existing[i], m.Owned[i]
			}
			exist[j] = true // somebody else created it, whatever the establisher did
			w.checkEstablished(where, self, pkg, sc.Control, m.Keys, exist, owned)
		default:
			rec.Label("race:outcome-error")
		}
	}
}

func at2(calls []string, k int) string { return at(calls, k) }

func TestVerifC16Interloper(t *testing.T) {
	rec := verifkit.New(t, "C16", "scenario as for Establish with one absent object of the package being created by somebody else (controlled by another package's revision, by the previous revision, plainly owned, or by nobody) between the establisher's API calls k and k+1, for every k; non-trivial = the contested object cannot be taken over and appears before the establisher validated it, in a package of >= 2 objects")
	rapid.Check(t, func(t *rapid.T) {
		rec.Eval()
		rs := genRace(t)
		if excludeKnown(&rs.scenario) {
			rec.Excluded()
		}
		runRaceScenario(rs, rec, func(f string, a ...any) { t.Helper(); t.Fatalf(f, a...) })
	})
}

// TestVerifC16PinnedStaleNotFound: the smallest incoherent view. The package
// ships two CRDs; one exists under another package's controller but the
// establisher's cache says NotFound, the other is absent. The create of the
// contested one is refused by the server, so nothing may be written - and a
// success would list an object the revision does not hold.
func TestVerifC16PinnedStaleNotFound(t *testing.T) {
	rec := verifkit.New(t, "C16", "pinned rows")
	for fi, fl := range flavours {
		for _, as := range []preState{pForeignControlled, pPrevControlled, pUncontrolled} {
			t.Run(fmt.Sprintf("%s/%s", fl.Kind, as), func(t *testing.T) {
				rec.Eval()
				kind := "CRD"
				if fl.Kind == "Configuration" {
					kind = "XRD"
				}
				st := staleScenario{Hidden: []int{0}, scenario: scenario{Flavour: fi, Control: true, Reject: -1, Secret: "none", Limit: 1,
					Objs: []objSpec{{Kind: kind, Name: namePool[kind][0], Variant: 1}, {Kind: kind, Name: namePool[kind][1], Variant: 1}},
					Pre:  []preSpec{{State: as, PkgRef: true}, {State: pAbsent}}}}
				if err := runStaleScenario(st, rec, fatal(t)); err == nil {
					t.Fatalf("Establish succeeded although the server holds %s, which the cache hides", st.Objs[0].id())
				}
			})
		}
	}
}

// ---------------------------------------------------------------------------
// an object of the package vanishes (or is replaced) between two API calls

type vanishScenario struct {
	scenario
	Victim   int      // index of an existing object that could be taken over
	Recreate preState // pAbsent: just deleted; otherwise re-created by somebody else, owned like this
}

func genVanish(t *rapid.T) vanishScenario {
	sc := genScenario(t)
	// Both roles matter: an inactive revision must not re-create what vanished.
	sc.Control = rapid.Bool().Draw(t, "vanish.active")
	j := rapid.IntRange(0, len(sc.Objs)-1).Draw(t, "vanish.which")
	sc.Pre[j].State = rapid.SampledFrom([]preState{pUncontrolled, pSelfControlled, pSelfControlled, pSelfOwned, pPrevReleased, pPrevReleased, pForeignOwned}).Draw(t, "vanish.pre")
	if sc.Reject == j {
		sc.Reject = -1
	}
	sc.Limit = 1
	return vanishScenario{scenario: sc, Victim: j,
		Recreate: rapid.SampledFrom([]preState{pAbsent, pAbsent, pAbsent, pForeignControlled, pUncontrolled}).Draw(t, "vanish.recreate")}
}

// What is judged when an object vanishes under the establisher:
//   - always, at every request (monitors): an inactive revision issues no create
//     and is never written as controller; every written object keeps the package
//     as plain owner;
//   - strict all-or-nothing if the object comes back under another controller
//     before the establisher validated it (it then cannot be taken over);
//   - one-directional: if Establish returns nil, an active revision controls every
//     object of the package, an inactive one controls nothing and created nothing;
//   - if it returns an error (the unchanged code returns the NotFound / conflict of
//     the write that lost the race) nothing more is demanded: like a transient
//     fault in the establish phase, objects written before may exist.
func runVanishScenario(vs vanishScenario, rec *verifkit.Recorder, fail func(string, ...any)) {
	sc := vs.scenario
	w, m := sc.setup(fail)
	must := m.mustFail()
	self, pkg := w.revs[revName], w.pkgs[pkgName]
	snap := w.sim.Snapshot()
	probe := w.sim.NewRun(estActor, nil)
	w.establish(probe, revName, sc.Objs, sc.Control, 1, must)
	w.sim.TakeViolations()
	n := probe.N
	j := vs.Victim
	kj := m.Keys[j]
	refusing := sc.Control && vs.Recreate == pForeignControlled
	tr, fa := true, false
	gk := objGK[sc.Objs[j].Kind]
	for at := 0; at < n; at++ {
		rec.Eval()
		w.sim.Restore(snap)
		when := ""
		tc := &tickClient{Client: w.sim.NewRun(estActor, nil).Client(), at: at}
		tc.fire = func() {
			w.sim.With(func(*verifsim.View) {
				switch {
				case w.cur != nil && w.cur.RealKeys[kj]:
					when = "after-real-write"
				case w.cur != nil && w.cur.DryKeys[kj]:
					when = "between-dry-run-and-real-write"
				default:
					when = "before-dry-run"
				}
			})
			u := &unstructured.Unstructured{}
			u.SetAPIVersion(gk.Group + "/v1")
			u.SetKind(gk.Kind)
			u.SetName(kj.Name)
			if err := w.sim.Client("interloper").Delete(context.Background(), u); err != nil {
				fail("harness: interloper cannot delete %s: %v", kj, err)
			}
			if vs.Recreate == pAbsent {
				return
			}
			var refs []map[string]any
			if vs.Recreate == pForeignControlled {
				refs = []map[string]any{w.revs[foreignRev].ref(&tr), w.pkgs[foreignPkg].ref(&fa)}
			}
			stored := sc.Objs[j]
			stored.Variant = stored.Variant%3 + 1
			if err := w.tryPutObject("interloper", stored, m.Names[j], refs); err != nil {
				fail("harness: interloper cannot re-create %s: %v", kj, err)
			}
			if refusing && when == "before-dry-run" {
				w.sim.With(func(*verifsim.View) {
					if w.cur != nil && w.cur.MustFail == "" {
						w.cur.MustFail = fmt.Sprintf("%s was replaced by an object under another controller before the establisher validated it", kj)
					}
				})
			}
		}
		_, err, cc := w.establishWith(tc, revName, sc.Objs, sc.Control, 1, must)
		if !tc.fired {
			continue
		}
		what := "deleted"
		if vs.Recreate != pAbsent {
			what = "replaced by a " + vs.Recreate.String() + " one"
		}
		where := fmt.Sprintf("Establish of %s while %s is %s before the establisher's call %d (%s, %s)", verifkit.JSON(sc), kj, what, at, at2(probe.Calls, at), when)
		w.violations(where)
		rec.Labelf("vanish:%s control=%v", when, sc.Control)
		rec.Labelf("vanish:recreate=%s", vs.Recreate)
		if when == "between-dry-run-and-real-write" {
			rec.NonTrivial(fmt.Sprintf("vanish|%s|%d", verifkit.JSON(vs), at), func() any { return map[string]any{"scenario": vs, "before_call": at} })
		}
		switch {
		case cc.MustFail != "":
			rec.Label("vanish:outcome-must-fail")
			if err == nil {
				fail("ALL-OR-NOTHING: %s returned nil although %s", where, cc.MustFail)
			}
			if cc.RealWrite > 0 {
				fail("ALL-OR-NOTHING: %s: %s, yet %d real requests were issued", where, cc.MustFail, cc.RealWrite)
			}
		case err == nil:
			rec.Label("vanish:outcome-ok")
			exist, owned := map[int]bool{}, map[int]bool{}
			for i := range m.Keys {
				exist[i], owned[i] = m.Existing[i], m.Owned[i]
			}
			// The original is gone; what is there now (if anything) is somebody else's.
			exist[j], owned[j] = vs.Recreate != pAbsent, false
			if when == "after-real-write" && vs.Recreate != pAbsent && sc.Control {
				// The establisher had finished with the object before it was replaced.
				rec.Label("vanish:replaced-after-establish")
				break
			}
			if when == "after-real-write" && vs.Recreate == pAbsent && sc.Control {
				rec.Label("vanish:deleted-after-establish")
				break
			}
			w.checkEstablished(where, self, pkg, sc.Control, m.Keys, exist, owned)
		default:
			rec.Label("vanish:outcome-error")
		}
		if !sc.Control && cc.Creates > 0 {
			fail("INACTIVE-ROLE: %s issued %d creates", where, cc.Creates)
		}
		if !sc.Control {
			for _, k := range m.Keys {
				if o := w.sim.Get(k); o != nil && verifsim.ControllerUID(o) == self.UID && !(k != kj && ownedController(sc, m, k)) {
					fail("INACTIVE-ROLE: after %s the inactive revision controls %s: %v", where, k, verifsim.OwnerRefs(o))
				}
			}
		}
	}
}

// ownedController: did the revision under test control this object before the call
// (an inactive revision's failed call may leave that as it was)?
func ownedController(sc scenario, m model, k verifsim.Key) bool {
	for i, mk := range m.Keys {
		if mk == k {
			return sc.Pre[i].State == pSelfControlled
		}
	}
	return false
}

func TestVerifC16Vanish(t *testing.T) {
	rec := verifkit.New(t, "C16", "scenario as for Establish with one existing, takeable object of the package being deleted - or deleted and re-created by somebody else (under another package's controller, or owned by nobody) - before the establisher's API call k, for every k, for active and inactive revisions; non-trivial = the object vanishes between its dry-run and its real write")
	rapid.Check(t, func(t *rapid.T) {
		rec.Eval()
		vs := genVanish(t)
		if excludeKnown(&vs.scenario) {
			rec.Excluded()
		}
		runVanishScenario(vs, rec, func(f string, a ...any) { t.Helper(); t.Fatalf(f, a...) })
	})
}
