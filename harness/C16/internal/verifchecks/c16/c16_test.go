//go:build verif

// Package c16 decides property C16: establishing the objects of a package is
// all-or-nothing (conditioned on refusals) and respects the active/inactive
// role of the revision.
//
// Code under test: revision.NewAPIEstablisher(...).Establish / ReleaseObjects
// (driven directly, this file) and the real package revision reconciler around
// them (histories_test.go), both against the simulated API server.
//
// The oracle never looks at the establisher's internals. It is
//   - a refusal model computed from the generated scenario alone (which
//     objects cannot be taken over: controlled by somebody else while control is
//     wanted, or rejected by admission),
//   - invariants over the server's write log (dry-run vs real writes, creates,
//     owner references before/after each write), and
//   - the Kubernetes garbage collector stepped as an actor.
package c16

import (
	"context"
	"fmt"
	"reflect"
	"sort"
	"strings"
	"testing"

	admv1 "k8s.io/api/admissionregistration/v1"
	corev1 "k8s.io/api/core/v1"
	extv1 "k8s.io/apiextensions-apiserver/pkg/apis/apiextensions/v1"
	kerrors "k8s.io/apimachinery/pkg/api/errors"
	metav1 "k8s.io/apimachinery/pkg/apis/meta/v1"
	"k8s.io/apimachinery/pkg/apis/meta/v1/unstructured"
	"k8s.io/apimachinery/pkg/runtime"
	"k8s.io/apimachinery/pkg/runtime/schema"
	"k8s.io/apimachinery/pkg/types"
	"k8s.io/apimachinery/pkg/util/validation/field"
	"pgregory.net/rapid"
	"sigs.k8s.io/controller-runtime/pkg/client"

	xpv1 "github.com/crossplane/crossplane-runtime/apis/common/v1"

	xextv1 "github.com/crossplane/crossplane/apis/apiextensions/v1"
	v1 "github.com/crossplane/crossplane/apis/pkg/v1"
	"github.com/crossplane/crossplane/internal/controller/pkg/revision"
	"github.com/crossplane/crossplane/internal/verifkit"
	"github.com/crossplane/crossplane/internal/verifsim"
)

const (
	ns          = "crossplane-system"
	pkgGroup    = "pkg.crossplane.io"
	pkgAPI      = "pkg.crossplane.io/v1"
	parentLabel = "pkg.crossplane.io/package" // v1.LabelParentPackage spelled out: the oracle reads raw JSON
	estActor    = "establisher"               // actor prefix of every client handed to the code under test
	gcActor     = "kube-gc"
)

// ---------------------------------------------------------------------------
// flavours

type flavour struct {
	Kind    string
	RevKind string
	Runtime bool // revision implements PackageRevisionWithRuntime (webhook TLS secret)
	newPkg  func() client.Object
	newRev  func() v1.PackageRevision
}

var flavours = []flavour{
	{"Provider", "ProviderRevision", true, func() client.Object { return &v1.Provider{} }, func() v1.PackageRevision { return &v1.ProviderRevision{} }},
	{"Configuration", "ConfigurationRevision", false, func() client.Object { return &v1.Configuration{} }, func() v1.PackageRevision { return &v1.ConfigurationRevision{} }},
	{"Function", "FunctionRevision", true, func() client.Object { return &v1.Function{} }, func() v1.PackageRevision { return &v1.FunctionRevision{} }},
}

// ---------------------------------------------------------------------------
// package objects

// objSpec describes one object of a package. Names come from small pools so
// that revisions and packages share objects.
type objSpec struct {
	Kind    string // CRD | XRD | Composition | VWC | MWC
	Name    string
	Variant int  // content variant: revisions of a package differ in it
	Conv    bool // CRD only: conversion strategy Webhook
	Labeled bool // the object carries labels of its own
}

var objGK = map[string]schema.GroupKind{
	"CRD":         {Group: "apiextensions.k8s.io", Kind: "CustomResourceDefinition"},
	"XRD":         {Group: "apiextensions.crossplane.io", Kind: "CompositeResourceDefinition"},
	"Composition": {Group: "apiextensions.crossplane.io", Kind: "Composition"},
	"VWC":         {Group: "admissionregistration.k8s.io", Kind: "ValidatingWebhookConfiguration"},
	"MWC":         {Group: "admissionregistration.k8s.io", Kind: "MutatingWebhookConfiguration"},
}

func isPackageObjectKind(gk schema.GroupKind) bool {
	for _, k := range objGK {
		if k == gk {
			return true
		}
	}
	return false
}

var namePool = map[string][]string{
	"CRD":         {"widgets.acme.example.org", "gadgets.acme.example.org", "gizmos.acme.example.org"},
	"XRD":         {"xas.acme.example.org", "xbs.acme.example.org", "xcs.acme.example.org"},
	"Composition": {"comp-a", "comp-b", "comp-c"},
	// controller-tools generates these static names for every provider.
	"VWC": {"validating-webhook-configuration"},
	"MWC": {"mutating-webhook-configuration"},
}

func (o objSpec) id() string { return o.Kind + "/" + o.Name }

func (o objSpec) labels() map[string]string {
	if o.Labeled {
		return map[string]string{"own": "label"}
	}
	return nil
}

// build returns the object as the package parser would hand it to the
// establisher: typed, with its TypeMeta set.
func (o objSpec) build() runtime.Object {
	om := metav1.ObjectMeta{Name: o.Name, Labels: o.labels()}
	variant := fmt.Sprintf("v%d", o.Variant)
	switch o.Kind {
	case "CRD":
		plural := strings.SplitN(o.Name, ".", 2)[0]
		crd := &extv1.CustomResourceDefinition{
			TypeMeta:   metav1.TypeMeta{APIVersion: "apiextensions.k8s.io/v1", Kind: "CustomResourceDefinition"},
			ObjectMeta: om,
			Spec: extv1.CustomResourceDefinitionSpec{
				Group: "acme.example.org",
				Names: extv1.CustomResourceDefinitionNames{Plural: plural, Singular: strings.TrimSuffix(plural, "s"), Kind: strings.Title(strings.TrimSuffix(plural, "s")), ShortNames: []string{variant}}, //nolint:staticcheck // ASCII only
				Scope: extv1.ClusterScoped,
				Versions: []extv1.CustomResourceDefinitionVersion{{
					Name: "v1", Served: true, Storage: true,
					Schema: &extv1.CustomResourceValidation{OpenAPIV3Schema: &extv1.JSONSchemaProps{Type: "object", XPreserveUnknownFields: boolPtr(true)}},
				}},
			},
		}
		if o.Conv {
			crd.Spec.Conversion = &extv1.CustomResourceConversion{Strategy: extv1.WebhookConverter, Webhook: &extv1.WebhookConversion{ConversionReviewVersions: []string{"v1"}}}
		}
		return crd
	case "XRD":
		plural := strings.SplitN(o.Name, ".", 2)[0]
		return &xextv1.CompositeResourceDefinition{
			TypeMeta:   metav1.TypeMeta{APIVersion: "apiextensions.crossplane.io/v1", Kind: "CompositeResourceDefinition"},
			ObjectMeta: om,
			Spec: xextv1.CompositeResourceDefinitionSpec{
				Group:                "acme.example.org",
				Names:                extv1.CustomResourceDefinitionNames{Plural: plural, Kind: strings.ToUpper(plural[:2])},
				ConnectionSecretKeys: []string{variant},
				Versions:             []xextv1.CompositeResourceDefinitionVersion{{Name: "v1", Served: true, Referenceable: true}},
			},
		}
	case "Composition":
		return &xextv1.Composition{
			TypeMeta:   metav1.TypeMeta{APIVersion: "apiextensions.crossplane.io/v1", Kind: "Composition"},
			ObjectMeta: om,
			Spec:       xextv1.CompositionSpec{CompositeTypeRef: xextv1.TypeReference{APIVersion: "acme.example.org/" + variant, Kind: "XA"}},
		}
	case "VWC":
		se := admv1.SideEffectClassNone
		return &admv1.ValidatingWebhookConfiguration{
			TypeMeta:   metav1.TypeMeta{APIVersion: "admissionregistration.k8s.io/v1", Kind: "ValidatingWebhookConfiguration"},
			ObjectMeta: om,
			Webhooks: []admv1.ValidatingWebhook{{
				Name: variant + ".acme.example.org", SideEffects: &se, AdmissionReviewVersions: []string{"v1"},
				ClientConfig: admv1.WebhookClientConfig{Service: &admv1.ServiceReference{Name: "webhook-service", Namespace: "system", Path: strPtr("/validate")}},
			}},
		}
	case "MWC":
		se := admv1.SideEffectClassNone
		return &admv1.MutatingWebhookConfiguration{
			TypeMeta:   metav1.TypeMeta{APIVersion: "admissionregistration.k8s.io/v1", Kind: "MutatingWebhookConfiguration"},
			ObjectMeta: om,
			Webhooks: []admv1.MutatingWebhook{{
				Name: variant + ".acme.example.org", SideEffects: &se, AdmissionReviewVersions: []string{"v1"},
				ClientConfig: admv1.WebhookClientConfig{}, // no service: the establisher must add one when it injects the CA
			}},
		}
	}
	panic("c16: unknown object kind " + o.Kind)
}

func boolPtr(b bool) *bool    { return &b }
func strPtr(s string) *string { return &s }

// genObjs draws a set (no duplicates: the property quantifies over object sets)
// of 1..max package objects a package of the flavour can contain.
func genObjs(t *rapid.T, fl flavour, max int, label string) []objSpec {
	var kinds []string
	if fl.Kind == "Configuration" {
		kinds = []string{"XRD", "Composition"}
	} else {
		kinds = []string{"CRD", "CRD", "CRD", "VWC", "MWC"}
	}
	var cands []objSpec
	seen := map[string]bool{}
	for _, k := range kinds {
		for _, n := range namePool[k] {
			o := objSpec{Kind: k, Name: n}
			if !seen[o.id()] {
				seen[o.id()] = true
				cands = append(cands, o)
			}
		}
	}
	n := rapid.IntRange(1, min(max, len(cands))).Draw(t, label+".n")
	perm := rapid.Permutation(cands).Draw(t, label+".pick")[:n]
	for i := range perm {
		perm[i].Variant = rapid.IntRange(1, 3).Draw(t, label+".variant")
		perm[i].Labeled = rapid.Bool().Draw(t, label+".labeled")
		if perm[i].Kind == "CRD" {
			perm[i].Conv = rapid.IntRange(0, 5).Draw(t, label+".conv") == 0
		}
	}
	return perm
}

// ---------------------------------------------------------------------------
// world: a simulated cluster with packages and revisions in it

type owner struct {
	APIVersion, Kind, Name, UID string
}

func (o owner) ref(controller *bool) map[string]any {
	r := map[string]any{"apiVersion": o.APIVersion, "kind": o.Kind, "name": o.Name, "uid": o.UID}
	if controller != nil {
		r["controller"] = *controller
		if *controller {
			r["blockOwnerDeletion"] = true
		}
	}
	return r
}

type world struct {
	sim  *verifsim.Sim
	fl   flavour
	fail func(format string, a ...any)

	pkgs map[string]owner // package name -> identity
	revs map[string]owner // revision name -> identity

	// what the monitor needs to know about the call in flight
	cur *callCtx
}

// callCtx describes the Establish / ReleaseObjects call in flight, computed
// from the scenario before the call starts.
type callCtx struct {
	What      string // "establish" | "release"
	Rev       owner
	Pkg       owner // the revision's package ("" UID if it has none)
	Control   bool
	MustFail  string // non-empty: a deterministic refusal exists; no real write may happen
	RealWrite int    // non-dry-run requests by the code under test
	Changed   int
	Creates   int
	DryKeys   map[verifsim.Key]bool // package objects for which a dry-run write was issued so far
	RealKeys  map[verifsim.Key]bool // package objects for which a real write was issued so far

	// reconciler histories only
	EstOK           bool // the Establish call of this reconcile returned nil
	StatusAfterEst  int  // status writes of the revision after that
	StatusUnrecords int
}

func newWorld(fl flavour, fail func(string, ...any)) *world {
	w := &world{sim: verifsim.New(verifsim.NewScheme()), fl: fl, fail: fail, pkgs: map[string]owner{}, revs: map[string]owner{}}
	w.sim.ClusterScoped = func(gk schema.GroupKind) bool { return !(gk.Group == "" && gk.Kind == "Secret") }
	w.sim.AddMonitor(w.monitor)
	return w
}

func (w *world) addPackage(name string) owner {
	p := w.fl.newPkg()
	p.SetName(name)
	w.sim.MustCreate("user", p)
	o := owner{APIVersion: pkgAPI, Kind: w.fl.Kind, Name: name, UID: string(p.GetUID())}
	w.pkgs[name] = o
	return o
}

type revOpts struct {
	Active       bool
	Number       int64
	TLSSecret    string // "" = unset
	CommonLabels map[string]string
}

// addRevision creates a revision exactly as the package manager does: labelled
// with its package and controlled by it.
func (w *world) addRevision(pkg, name string, o revOpts) owner {
	p := w.pkgs[pkg]
	r := w.fl.newRev()
	r.SetName(name)
	r.SetLabels(map[string]string{parentLabel: pkg})
	r.SetSource("r.io/acme/" + pkg + ":" + name)
	r.SetRevision(o.Number)
	r.SetCommonLabels(o.CommonLabels)
	if o.Active {
		r.SetDesiredState(v1.PackageRevisionActive)
	} else {
		r.SetDesiredState(v1.PackageRevisionInactive)
	}
	if rr, ok := r.(v1.PackageRevisionWithRuntime); ok && o.TLSSecret != "" {
		rr.SetTLSServerSecretName(&o.TLSSecret)
	}
	t := true
	r.SetOwnerReferences([]metav1.OwnerReference{{APIVersion: p.APIVersion, Kind: p.Kind, Name: p.Name, UID: types.UID(p.UID), Controller: &t, BlockOwnerDeletion: &t}})
	w.sim.MustCreate("pkg-manager", r)
	ow := owner{APIVersion: pkgAPI, Kind: w.fl.RevKind, Name: name, UID: string(r.GetUID())}
	w.revs[name] = ow
	return ow
}

func (w *world) revKey(name string) verifsim.Key {
	return verifsim.Key{Group: pkgGroup, Kind: w.fl.RevKind, Name: name}
}

// getRevision reads a revision the way the reconciler does.
func (w *world) getRevision(name string) v1.PackageRevision {
	r := w.fl.newRev()
	if err := w.sim.Client("harness").Get(context.Background(), types.NamespacedName{Name: name}, r); err != nil {
		w.fail("harness: cannot get revision %s: %v", name, err)
	}
	return r
}

// putObject stores a pre-existing cluster object with the given owner references.
func (w *world) putObject(o objSpec, name string, refs []map[string]any) {
	if err := w.tryPutObject("earlier", o, name, refs); err != nil {
		panic("c16: cannot store pre-existing object: " + err.Error())
	}
}

// tryPutObject creates an object as the given actor; it fails if the object exists.
func (w *world) tryPutObject(actor string, o objSpec, name string, refs []map[string]any) error {
	obj := o.build()
	m, err := runtime.DefaultUnstructuredConverter.ToUnstructured(obj)
	if err != nil {
		w.fail("harness: %v", err)
	}
	u := &unstructured.Unstructured{Object: m}
	u.SetName(name)
	if len(refs) > 0 {
		l := make([]any, len(refs))
		for i := range refs {
			l[i] = refs[i]
		}
		verifsim.Meta(u.Object)["ownerReferences"] = l
	}
	delete(verifsim.Meta(u.Object), "creationTimestamp")
	return w.sim.Client(actor).Create(context.Background(), u)
}

func objKey(o objSpec, name string) verifsim.Key {
	gk := objGK[o.Kind]
	return verifsim.Key{Group: gk.Group, Kind: gk.Kind, Name: name}
}

// gcQuiesce steps the garbage collector until it has nothing to do and
// returns the keys it removed or marked for deletion.
func (w *world) gcQuiesce() []verifsim.Key {
	from := w.sim.LogLen()
	for i := 0; w.sim.GCStep(); i++ {
		if i > 1000 {
			w.fail("harness: the garbage collector does not quiesce")
			break
		}
	}
	var out []verifsim.Key
	for _, wr := range w.sim.Log()[from:] {
		if wr.Actor == gcActor && wr.Verb == "delete" && wr.Err == "" {
			out = append(out, wr.Key)
		}
	}
	return out
}

// ---------------------------------------------------------------------------
// monitor: evaluated at the instant of every request of the code under test

func refByUID(o verifsim.Obj, uid string) map[string]any {
	for _, r := range verifsim.OwnerRefs(o) {
		if u, _ := r["uid"].(string); u == uid {
			return r
		}
	}
	return nil
}

func isController(r map[string]any) bool {
	c, _ := r["controller"].(bool)
	return c
}

// monitorStatus judges the status writes a reconcile makes for its revision
// once its Establish call has succeeded: deactivation works from
// status.objectRefs only, so whatever the revision controls at that instant must
// be recorded there - also when the reconcile goes on to fail (post-establish
// hook, later status conflict).
func (w *world) monitorStatus(v *verifsim.View, wr *verifsim.Write, c *callCtx) {
	if !c.EstOK || wr.Sub != "status" || wr.DryRun || wr.Err != "" || wr.After == nil {
		return
	}
	c.StatusAfterEst++
	recorded := map[verifsim.Key]bool{}
	l, _ := verifsim.Nested(wr.After, "status", "objectRefs").([]any)
	for _, e := range l {
		m, _ := e.(map[string]any)
		av, _ := m["apiVersion"].(string)
		kind, _ := m["kind"].(string)
		name, _ := m["name"].(string)
		recorded[verifsim.Key{Group: strings.SplitN(av, "/", 2)[0], Kind: kind, Name: name}] = true
	}
	for _, k := range v.All() {
		if !isPackageObjectKind(k.GK()) || recorded[k] {
			continue
		}
		if o := v.Get(k); o != nil && verifsim.ControllerUID(o) == c.Rev.UID {
			c.StatusUnrecords++
			v.Violate("UNRECORDED: reconcile of %s (control=%v): Establish succeeded and the reconcile writes the revision's status, but %s, which the revision controls, is not in status.objectRefs (%d references) - deactivation would never release it", c.Rev.Name, c.Control, k, len(l))
		}
	}
}

func (w *world) monitor(v *verifsim.View, wr *verifsim.Write) {
	c := w.cur
	if c == nil || !strings.HasPrefix(wr.Actor, estActor) {
		return
	}
	if wr.Key.Group == pkgGroup && wr.Key.Kind == w.fl.RevKind && wr.Key.Name == c.Rev.Name {
		w.monitorStatus(v, wr, c)
		return
	}
	if !isPackageObjectKind(wr.Key.GK()) {
		return // the reconciler's other bookkeeping
	}
	if wr.DryRun {
		if c.DryKeys == nil {
			c.DryKeys = map[verifsim.Key]bool{}
		}
		c.DryKeys[wr.Key] = true
		return
	}
	c.RealWrite++
	if c.RealKeys == nil {
		c.RealKeys = map[verifsim.Key]bool{}
	}
	c.RealKeys[wr.Key] = true
	if wr.Changed {
		c.Changed++
	}
	at := fmt.Sprintf("%s of %s (control=%v): %s %s", c.What, c.Rev.Name, c.Control, wr.Verb, wr.Key)
	if c.MustFail != "" {
		v.Violate("ALL-OR-NOTHING: %s is a real (non dry-run) request although %s [err=%q changed=%v]", at, c.MustFail, wr.Err, wr.Changed)
	}
	if wr.Verb == "delete" && c.What != "deleting" {
		v.Violate("%s: a package object is deleted while its ownership is being established or released", at)
		return
	}
	switch c.What {
	case "establish":
		if wr.Verb == "create" {
			c.Creates++
			if !c.Control {
				v.Violate("INACTIVE-ROLE: %s: an inactive revision issued a create [err=%q]", at, wr.Err)
			}
		}
		if wr.Err != "" || wr.After == nil {
			return
		}
		if !c.Control {
			if r := refByUID(wr.After, c.Rev.UID); r != nil && isController(r) {
				v.Violate("INACTIVE-ROLE: %s: an inactive revision is written as controller: %v", at, verifsim.OwnerRefs(wr.After))
			}
		}
		if wr.Changed && c.Pkg.UID != "" {
			if r := refByUID(wr.After, c.Pkg.UID); r == nil || isController(r) {
				v.Violate("PACKAGE-OWNER: %s: the written object does not keep package %s as a non-controlling owner: %v", at, c.Pkg.Name, verifsim.OwnerRefs(wr.After))
			}
		}
	case "release":
		if wr.Verb != "update" {
			v.Violate("RELEASE: %s: deactivation issued a %s", at, wr.Verb)
			return
		}
		if wr.Err != "" || wr.After == nil || wr.Before == nil {
			return
		}
		if r := refByUID(wr.After, c.Rev.UID); r == nil {
			v.Violate("RELEASE: %s: the deactivated revision is no longer an owner: before %v after %v", at, verifsim.OwnerRefs(wr.Before), verifsim.OwnerRefs(wr.After))
		} else if isController(r) {
			v.Violate("RELEASE: %s: the deactivated revision is still written as controller: %v", at, verifsim.OwnerRefs(wr.After))
		}
		for _, b := range verifsim.OwnerRefs(wr.Before) {
			u, _ := b["uid"].(string)
			if u == c.Rev.UID {
				continue
			}
			if a := refByUID(wr.After, u); !reflect.DeepEqual(a, b) {
				v.Violate("RELEASE: %s: deactivation changed somebody else's owner reference %v -> %v", at, b, a)
			}
		}
	}
}

// ---------------------------------------------------------------------------
// direct scenario: one Establish (or ReleaseObjects) call on a prepared cluster

type preState int

const (
	pAbsent            preState = iota
	pUncontrolled               // exists, nobody owns it
	pSelfControlled             // the revision under test already controls it
	pSelfOwned                  // the revision under test is a plain owner (it was released before)
	pPrevControlled             // the previous revision of the same package controls it
	pPrevReleased               // the previous revision of the same package is a plain owner
	pForeignControlled          // a revision of another package controls it
	pForeignOwned               // a revision of another package is a plain owner, nobody controls it
	nPreStates
)

var preNames = [...]string{"absent", "uncontrolled", "self-controlled", "self-owned", "prev-controlled", "prev-released", "foreign-controlled", "foreign-owned"}

func (p preState) String() string { return preNames[p] }

type preSpec struct {
	State  preState
	PkgRef bool // the owning side's package is recorded as a plain owner too
	Drift  bool // stored content differs from the package's
}

type scenario struct {
	Flavour      int
	Control      bool
	Objs         []objSpec
	Pre          []preSpec
	Reject       int    // index of the object admission rejects, -1 = none
	Secret       string // none | ok | missing | empty  (webhook TLS secret of the revision)
	Limit        int    // MaxConcurrentPackageEstablishers
	CommonLabels bool
}

const (
	pkgName     = "alpha"
	revName     = "alpha-r2"
	prevName    = "alpha-r1"
	foreignPkg  = "beta"
	foreignRev  = "beta-r1"
	tlsSecret   = "alpha-tls-server"
	rejectedMsg = "c16: admission policy denies this object"
)

func genScenario(t *rapid.T) scenario {
	sc := scenario{Flavour: rapid.IntRange(0, len(flavours)-1).Draw(t, "flavour"), Reject: -1, Secret: "none"}
	fl := flavours[sc.Flavour]
	// Active revisions are the interesting half of the all-or-nothing clause.
	sc.Control = rapid.IntRange(0, 2).Draw(t, "control") > 0
	sc.Objs = genObjs(t, fl, 6, "objs")
	weights := []preState{pAbsent, pAbsent, pAbsent, pUncontrolled, pSelfControlled, pSelfControlled, pSelfOwned, pPrevControlled, pPrevReleased, pPrevReleased, pForeignControlled, pForeignOwned}
	mode := rapid.IntRange(0, 3).Draw(t, "premode")
	for range sc.Objs {
		var p preSpec
		switch mode {
		case 0: // fresh install
			p.State = pAbsent
		case 1: // upgrade after the predecessor was deactivated, or re-establish
			p.State = rapid.SampledFrom([]preState{pAbsent, pPrevReleased, pPrevReleased, pSelfControlled, pSelfOwned}).Draw(t, "pre")
		default:
			p.State = rapid.SampledFrom(weights).Draw(t, "pre")
		}
		p.PkgRef = rapid.IntRange(0, 3).Draw(t, "pkgref") > 0
		p.Drift = rapid.Bool().Draw(t, "drift")
		sc.Pre = append(sc.Pre, p)
	}
	if rapid.IntRange(0, 2).Draw(t, "withreject") == 0 {
		sc.Reject = rapid.IntRange(0, len(sc.Objs)-1).Draw(t, "reject")
	}
	if fl.Runtime {
		sc.Secret = rapid.SampledFrom([]string{"ok", "ok", "ok", "none", "missing", "empty"}).Draw(t, "secret")
	}
	sc.Limit = rapid.SampledFrom([]int{1, 2, 10}).Draw(t, "limit")
	sc.CommonLabels = rapid.Bool().Draw(t, "commonlabels")
	return sc
}

// model is what the scenario alone says about the call, independent of the code under test.
type model struct {
	Names    []string       // name under which object i lives in the cluster
	Keys     []verifsim.Key // same as store keys
	Refused  map[int]string // object index -> why it cannot be taken over
	PreErr   string         // the package as a whole cannot be established (no webhook CA)
	HasCert  bool
	Existing map[int]bool
	Owned    map[int]bool // the revision under test is an owner (controller or not) beforehand
}

func (sc scenario) model() model {
	fl := flavours[sc.Flavour]
	m := model{Refused: map[int]string{}, Existing: map[int]bool{}, Owned: map[int]bool{}}
	m.HasCert = sc.Control && fl.Runtime && sc.Secret == "ok"
	if sc.Control && fl.Runtime && (sc.Secret == "missing" || sc.Secret == "empty") {
		m.PreErr = "the revision's webhook TLS secret is " + sc.Secret
	}
	for i, o := range sc.Objs {
		name := o.Name
		if (o.Kind == "VWC" || o.Kind == "MWC") && fl.Runtime && sc.Secret == "ok" {
			// documented in enrichControlledResource: the webhook configurations
			// of a package live under a name derived from the package when its
			// revisions have a CA to inject. That is where they are - for an
			// active and for an inactive revision alike.
			name = "crossplane-" + strings.ToLower(fl.Kind) + "-" + pkgName
		}
		m.Names = append(m.Names, name)
		m.Keys = append(m.Keys, objKey(o, name))
		exists := sc.Pre[i].State != pAbsent
		m.Existing[i] = exists
		m.Owned[i] = sc.Pre[i].State == pSelfControlled || sc.Pre[i].State == pSelfOwned
		if sc.Control && exists && (sc.Pre[i].State == pPrevControlled || sc.Pre[i].State == pForeignControlled) {
			m.Refused[i] = fmt.Sprintf("%s is controlled by somebody else (%s)", o.id(), sc.Pre[i].State)
		}
		if sc.Reject == i && (exists || sc.Control) {
			m.Refused[i] = fmt.Sprintf("the API server rejects %s", o.id())
		}
		if o.Conv && sc.Control && !m.HasCert && m.PreErr == "" {
			m.PreErr = "a CRD with webhook conversion cannot be deployed without a CA bundle"
		}
	}
	return m
}

func (m model) mustFail() string {
	if len(m.Refused) > 0 {
		idx := make([]int, 0, len(m.Refused))
		for i := range m.Refused {
			idx = append(idx, i)
		}
		sort.Ints(idx)
		return m.Refused[idx[0]]
	}
	return m.PreErr
}

// setup builds the cluster of a scenario.
func (sc scenario) setup(fail func(string, ...any)) (*world, model) {
	fl := flavours[sc.Flavour]
	w := newWorld(fl, fail)
	m := sc.model()
	pkg := w.addPackage(pkgName)
	fpkg := w.addPackage(foreignPkg)
	prev := w.addRevision(pkgName, prevName, revOpts{Active: false, Number: 1})
	var cl map[string]string
	if sc.CommonLabels {
		cl = map[string]string{"team": "acme"}
	}
	ro := revOpts{Active: sc.Control, Number: 2, CommonLabels: cl}
	if sc.Secret != "none" {
		ro.TLSSecret = tlsSecret
	}
	self := w.addRevision(pkgName, revName, ro)
	frev := w.addRevision(foreignPkg, foreignRev, revOpts{Active: true, Number: 1})
	switch sc.Secret {
	case "ok":
		w.sim.MustCreate("tls-init", &corev1.Secret{ObjectMeta: metav1.ObjectMeta{Name: tlsSecret, Namespace: ns}, Data: map[string][]byte{"tls.crt": []byte("CERT"), "tls.key": []byte("KEY")}})
	case "empty":
		w.sim.MustCreate("tls-init", &corev1.Secret{ObjectMeta: metav1.ObjectMeta{Name: tlsSecret, Namespace: ns}})
	}
	tr, fa := true, false
	for i, o := range sc.Objs {
		p := sc.Pre[i]
		if p.State == pAbsent {
			continue
		}
		stored := o
		if p.Drift {
			stored.Variant = o.Variant%3 + 1
			stored.Labeled = !o.Labeled
		}
		var refs []map[string]any
		var side owner
		switch p.State {
		case pSelfControlled:
			refs, side = append(refs, self.ref(&tr)), pkg
		case pSelfOwned:
			refs, side = append(refs, self.ref(nil)), pkg
		case pPrevControlled:
			refs, side = append(refs, prev.ref(&tr)), pkg
		case pPrevReleased:
			refs, side = append(refs, prev.ref(&fa)), pkg
		case pForeignControlled:
			refs, side = append(refs, frev.ref(&tr)), fpkg
		case pForeignOwned:
			refs, side = append(refs, frev.ref(nil)), fpkg
		}
		if p.PkgRef && side.UID != "" {
			refs = append(refs, side.ref(&fa))
		}
		w.putObject(stored, m.Names[i], refs)
	}
	if sc.Reject >= 0 {
		k := m.Keys[sc.Reject]
		w.sim.AddAdmission(func(_ *verifsim.View, op verifsim.Op) error {
			if strings.HasPrefix(op.Actor, estActor) && op.Key == k {
				return kerrors.NewInvalid(k.GK(), k.Name, field.ErrorList{field.Forbidden(field.NewPath("spec"), rejectedMsg)})
			}
			return nil
		})
	}
	return w, m
}

// establish runs Establish through the given run and returns its outcome.
func (w *world) establish(run *verifsim.Run, rev string, objs []objSpec, control bool, limit int, mustFail string) ([]xpv1.TypedReference, error, *callCtx) {
	return w.establishWith(run.Client(), rev, objs, control, limit, mustFail)
}

// establishWith is establish with the client the establisher talks through.
func (w *world) establishWith(c client.Client, rev string, objs []objSpec, control bool, limit int, mustFail string) ([]xpv1.TypedReference, error, *callCtx) {
	parent := w.getRevision(rev)
	built := make([]runtime.Object, len(objs))
	for i, o := range objs {
		built[i] = o.build()
	}
	pkg := w.pkgs[parent.GetLabels()[parentLabel]]
	w.cur = &callCtx{What: "establish", Rev: w.revs[rev], Pkg: pkg, Control: control, MustFail: mustFail}
	defer func() { w.cur = nil }()
	refs, err := revision.NewAPIEstablisher(c, ns, limit).Establish(context.Background(), built, parent, control)
	return refs, err, w.cur
}

// release runs ReleaseObjects for a revision whose status lists refs.
func (w *world) release(run *verifsim.Run, rev string, refs []xpv1.TypedReference, limit int) (error, *callCtx) {
	parent := w.getRevision(rev)
	parent.SetObjects(refs)
	pkg := w.pkgs[parent.GetLabels()[parentLabel]]
	w.cur = &callCtx{What: "release", Rev: w.revs[rev], Pkg: pkg}
	defer func() { w.cur = nil }()
	err := revision.NewAPIEstablisher(run.Client(), ns, limit).ReleaseObjects(context.Background(), parent)
	return err, w.cur
}

func (w *world) violations(where string) {
	if vs := w.sim.TakeViolations(); len(vs) > 0 {
		w.fail("%s:\n  %s", where, strings.Join(vs, "\n  "))
	}
}

// checkEstablished: the statements of the property about a successful Establish.
//
// For an inactive revision the property only says "at most a plain owner": it
// need not become an owner of an object it did not own, but it must stay an
// owner of what it owned (deactivation keeps ownership).
func (w *world) checkEstablished(where string, rev owner, pkg owner, control bool, keys []verifsim.Key, existedBefore, ownedBefore map[int]bool) {
	for i, k := range keys {
		o := w.sim.Get(k)
		if o == nil {
			if control {
				w.fail("%s: Establish of active revision %s succeeded but %s does not exist", where, rev.Name, k)
			}
			if existedBefore[i] {
				w.fail("%s: %s disappeared", where, k)
			}
			continue
		}
		if !control && !existedBefore[i] {
			w.fail("INACTIVE-ROLE: %s: inactive revision %s created %s", where, rev.Name, k)
		}
		r := refByUID(o, rev.UID)
		switch {
		case r == nil && !control && !ownedBefore[i]:
			continue
		case r == nil:
			w.fail("%s: after a successful Establish revision %s is not an owner of %s: %v", where, rev.Name, k, verifsim.OwnerRefs(o))
		case control && !isController(r):
			w.fail("%s: after a successful Establish active revision %s is not the controller of %s: %v", where, rev.Name, k, verifsim.OwnerRefs(o))
		case !control && isController(r):
			w.fail("INACTIVE-ROLE: %s: inactive revision %s is the controller of %s: %v", where, rev.Name, k, verifsim.OwnerRefs(o))
		}
		if pkg.UID != "" {
			if pr := refByUID(o, pkg.UID); pr == nil || isController(pr) {
				w.fail("PACKAGE-OWNER: %s: established object %s does not have package %s as a non-controlling owner: %v", where, k, pkg.Name, verifsim.OwnerRefs(o))
			}
		}
	}
}

var faultKinds = []verifsim.Fault{
	{Kind: verifsim.ErrBefore, Err: "conflict"},
	{Kind: verifsim.ErrBefore, Err: "server"},
	{Kind: verifsim.ErrAfter, Err: "timeout"},
	{Kind: verifsim.CrashBefore},
	{Kind: verifsim.CrashAfter},
}

func (sc scenario) key() string { return verifkit.JSON(sc) }

// runEstablishScenario checks one scenario: fault-free first, then (sweep)
// every call index x fault kind from the same initial cluster.
func runEstablishScenario(sc scenario, rec *verifkit.Recorder, fail func(string, ...any), sweep bool) {
	w, m := sc.setup(fail)
	must := m.mustFail()
	self, pkg := w.revs[revName], w.pkgs[pkgName]
	snap := w.sim.Snapshot()
	before := w.sim.Digest()

	// classification
	nRef := 0
	for i := range sc.Objs {
		rec.Labelf("pre:%s", sc.Pre[i].State)
		if _, ok := m.Refused[i]; ok {
			nRef++
		}
	}
	rec.Labelf("control:%v", sc.Control)
	switch {
	case len(m.Refused) > 0:
		rec.Label("outcome:refused")
	case m.PreErr != "":
		rec.Label("outcome:no-ca")
	default:
		rec.Label("outcome:establishable")
	}
	if len(m.Refused) > 0 && len(sc.Objs) >= 2 {
		rec.NonTrivial("establish|"+sc.key(), func() any { return sc })
	}

	run := w.sim.NewRun(estActor, nil)
	refs, err, cc := w.establish(run, revName, sc.Objs, sc.Control, sc.Limit, must)
	where := fmt.Sprintf("fault-free Establish of %s", verifkit.JSON(sc))
	w.violations(where)
	if must != "" {
		if err == nil {
			fail("ALL-OR-NOTHING: %s returned nil although %s", where, must)
		}
		if cc.RealWrite > 0 || w.sim.Digest() != before {
			fail("ALL-OR-NOTHING: %s: %s, yet the cluster changed (%d real requests)", where, must, cc.RealWrite)
		}
	} else {
		if err != nil {
			// No fault, nothing refuses: an error means some object could not be taken over
			// for a reason the model does not know. It must still be all-or-nothing.
			rec.Label("unexpected-error")
			if cc.Changed > 0 {
				fail("ALL-OR-NOTHING: %s failed with %v after changing %d objects", where, err, cc.Changed)
			}
			fail("harness/model: %s failed although nothing refuses: %v", where, err)
		}
		w.checkEstablished(where, self, pkg, sc.Control, m.Keys, m.Existing, m.Owned)
		_ = refs
		if !sc.Control && cc.Creates > 0 {
			fail("INACTIVE-ROLE: %s issued %d creates", where, cc.Creates)
		}
		if del := w.gcQuiesce(); len(del) > 0 {
			fail("GC: after %s the garbage collector deleted %v", where, del)
		}
	}
	if !sweep {
		return
	}
	n := run.N
	for k := 0; k < n; k++ {
		for _, f := range faultKinds {
			rec.Eval()
			w.sim.Restore(snap)
			// One worker: the call numbering of the run is then deterministic.
			frun := w.sim.NewRun(estActor, map[int]verifsim.Fault{k: f})
			_, ferr, fc := w.establish(frun, revName, sc.Objs, sc.Control, 1, must)
			fwhere := fmt.Sprintf("Establish with %v/%s at call %d (%s) of %s", f.Kind, f.Err, k, at(frun.Calls, k), verifkit.JSON(sc))
			w.violations(fwhere)
			if must != "" {
				if ferr == nil {
					fail("ALL-OR-NOTHING: %s returned nil although %s", fwhere, must)
				}
				if fc.RealWrite > 0 || w.sim.Digest() != before {
					fail("ALL-OR-NOTHING: %s: %s, yet the cluster changed", fwhere, must)
				}
				if len(sc.Objs) >= 2 && len(m.Refused) > 0 {
					rec.NonTrivial(fmt.Sprintf("establish|%s|%d|%v", sc.key(), k, f), nil)
				}
				continue
			}
			if ferr == nil {
				rec.Label("fault:masked")
				w.checkEstablished(fwhere, self, pkg, sc.Control, m.Keys, m.Existing, m.Owned)
			} else {
				rec.Label("fault:failed")
			}
			// A retry without faults.
			_, rerr, _ := w.establish(w.sim.NewRun(estActor, nil), revName, sc.Objs, sc.Control, sc.Limit, "")
			w.violations(fwhere + " [retry]")
			if rerr != nil {
				rec.Label("retry:error")
				continue
			}
			w.checkEstablished(fwhere+" [retry]", self, pkg, sc.Control, m.Keys, m.Existing, m.Owned)
			if del := w.gcQuiesce(); len(del) > 0 {
				fail("GC: after %s [retry] the garbage collector deleted %v", fwhere, del)
			}
		}
	}
}

func at(calls []string, k int) string {
	if k < len(calls) {
		return calls[k]
	}
	return "?"
}

// runReleaseScenario: the revision under test is deactivated; its status lists
// every object of the package (as the reconciler records after Establish).
func runReleaseScenario(sc scenario, rec *verifkit.Recorder, fail func(string, ...any), sweep bool) {
	sc.Control = false
	sc.Reject = -1
	w, m := sc.setup(fail)
	self := w.revs[revName]
	var refs []xpv1.TypedReference
	owned := 0
	for i, o := range sc.Objs {
		gk := objGK[o.Kind]
		refs = append(refs, xpv1.TypedReference{APIVersion: gk.Group + "/v1", Kind: gk.Kind, Name: m.Names[i]})
		rec.Labelf("release-pre:%s", sc.Pre[i].State)
		if sc.Pre[i].State == pSelfControlled {
			owned++
		}
	}
	if owned > 0 {
		rec.NonTrivial("release|"+sc.key(), func() any { return sc })
	}
	snap := w.sim.Snapshot()
	check := func(where string) {
		for i, k := range m.Keys {
			o := w.sim.Get(k)
			if !m.Existing[i] {
				if o != nil {
					fail("RELEASE: %s: deactivation created %s", where, k)
				}
				continue
			}
			if o == nil {
				fail("RELEASE: %s: %s is gone after deactivation", where, k)
				continue
			}
			r := refByUID(o, self.UID)
			if r == nil {
				fail("RELEASE: %s: the deactivated revision is not an owner of %s any more: %v", where, k, verifsim.OwnerRefs(o))
			} else if isController(r) {
				fail("RELEASE: %s: the deactivated revision still controls %s: %v", where, k, verifsim.OwnerRefs(o))
			}
		}
		if del := w.gcQuiesce(); len(del) > 0 {
			fail("GC: after %s the garbage collector deleted %v", where, del)
		}
	}
	run := w.sim.NewRun(estActor, nil)
	err, _ := w.release(run, revName, refs, sc.Limit)
	where := "fault-free ReleaseObjects of " + verifkit.JSON(sc)
	w.violations(where)
	if err != nil {
		fail("harness/model: %s failed: %v", where, err)
	}
	check(where)
	if !sweep {
		return
	}
	for k := 0; k < run.N; k++ {
		for _, f := range faultKinds {
			rec.Eval()
			w.sim.Restore(snap)
			frun := w.sim.NewRun(estActor, map[int]verifsim.Fault{k: f})
			ferr, _ := w.release(frun, revName, refs, 1)
			fwhere := fmt.Sprintf("ReleaseObjects with %v/%s at call %d (%s) of %s", f.Kind, f.Err, k, at(frun.Calls, k), verifkit.JSON(sc))
			w.violations(fwhere)
			if ferr == nil {
				check(fwhere)
			}
			if rerr, _ := w.release(w.sim.NewRun(estActor, nil), revName, refs, sc.Limit); rerr == nil {
				w.violations(fwhere + " [retry]")
				check(fwhere + " [retry]")
			} else {
				rec.Label("release-retry:error")
			}
		}
	}
}

// ---------------------------------------------------------------------------
// tests

const estRule = "scenario = flavour x active/inactive x 1-6 distinct package objects (CRD/XRD/Composition/webhook configurations) x per-object pre-existing state (absent, uncontrolled, controlled/owned by the revision itself, by the previous revision of the package, by another package's revision; with/without package owner reference, same/drifted content) x optional admission rejection of one object x webhook TLS secret state x worker limit; each scenario is run fault-free and then with every fault kind at every API call index; non-trivial = a refused object in a package of >= 2 objects"

func TestVerifC16Establish(t *testing.T) {
	rec := verifkit.New(t, "C16", estRule)
	rapid.Check(t, func(t *rapid.T) {
		rec.Eval()
		sc := genScenario(t)
		if excludeKnown(&sc) {
			rec.Excluded()
		}
		runEstablishScenario(sc, rec, func(f string, a ...any) { t.Helper(); t.Fatalf(f, a...) }, true)
	})
}

func TestVerifC16Release(t *testing.T) {
	rec := verifkit.New(t, "C16", "scenario as for Establish, the revision under test being deactivated with every package object listed in its status; ReleaseObjects is run fault-free and with every fault kind at every call index, the garbage collector is stepped to quiescence afterwards; non-trivial = at least one object was controlled by the deactivated revision")
	rapid.Check(t, func(t *rapid.T) {
		rec.Eval()
		sc := genScenario(t)
		runReleaseScenario(sc, rec, func(f string, a ...any) { t.Helper(); t.Fatalf(f, a...) }, true)
	})
}
