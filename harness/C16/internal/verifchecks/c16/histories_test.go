//go:build verif

package c16

// Histories: the real package revision reconciler (revision.NewReconciler wired
// like SetupProviderRevision / SetupConfigurationRevision / SetupFunctionRevision,
// with the real parser and linters, the real APIEstablisher, and an in-memory
// package cache holding each revision's YAML stream) is stepped through
// install / upgrade / rollback / manual-activation / revision-deletion histories
// of one package next to a second package, with the garbage collector running
// to quiescence after every action.

import (
	"bytes"
	"context"
	"fmt"
	"io"
	"sort"
	"strings"
	"sync"
	"testing"

	"github.com/go-logr/logr"
	"k8s.io/apimachinery/pkg/apis/meta/v1/unstructured"
	"k8s.io/apimachinery/pkg/runtime"
	"k8s.io/apimachinery/pkg/types"
	"k8s.io/client-go/tools/record"
	"pgregory.net/rapid"
	ctrl "sigs.k8s.io/controller-runtime"
	"sigs.k8s.io/controller-runtime/pkg/client"
	"sigs.k8s.io/controller-runtime/pkg/reconcile"
	"sigs.k8s.io/yaml"

	corev1 "k8s.io/api/core/v1"
	kerrors "k8s.io/apimachinery/pkg/api/errors"
	metav1 "k8s.io/apimachinery/pkg/apis/meta/v1"
	"k8s.io/apimachinery/pkg/util/validation/field"

	xpv1 "github.com/crossplane/crossplane-runtime/apis/common/v1"
	"github.com/crossplane/crossplane-runtime/pkg/parser"

	pkgmetav1 "github.com/crossplane/crossplane/apis/pkg/meta/v1"
	v1 "github.com/crossplane/crossplane/apis/pkg/v1"
	"github.com/crossplane/crossplane/apis/pkg/v1beta1"
	"github.com/crossplane/crossplane/internal/controller/pkg/revision"
	"github.com/crossplane/crossplane/internal/verifkit"
	"github.com/crossplane/crossplane/internal/verifsim"
	"github.com/crossplane/crossplane/internal/xpkg"
)

// ---------------------------------------------------------------------------
// wiring

type fakeManager struct {
	ctrl.Manager // nil: anything not overridden panics loudly
	c            client.Client
	scheme       *runtime.Scheme
}

func (m *fakeManager) GetClient() client.Client                        { return m.c }
func (m *fakeManager) GetScheme() *runtime.Scheme                      { return m.scheme }
func (m *fakeManager) GetLogger() logr.Logger                          { return logr.Discard() }
func (m *fakeManager) GetEventRecorderFor(string) record.EventRecorder { return nopEvents{} }

type nopEvents struct{}

func (nopEvents) Event(runtime.Object, string, string, string)                                      {}
func (nopEvents) Eventf(runtime.Object, string, string, string, ...any)                             {}
func (nopEvents) AnnotatedEventf(runtime.Object, map[string]string, string, string, string, ...any) {}

// memCache is a pre-populated xpkg.PackageCache: the package contents of every
// revision are "already pulled".
type memCache struct {
	mu sync.Mutex
	m  map[string][]byte
}

func (c *memCache) Has(id string) bool { c.mu.Lock(); defer c.mu.Unlock(); _, ok := c.m[id]; return ok }
func (c *memCache) Get(id string) (io.ReadCloser, error) {
	c.mu.Lock()
	defer c.mu.Unlock()
	b, ok := c.m[id]
	if !ok {
		return nil, fmt.Errorf("c16 cache: %s not cached", id)
	}
	return io.NopCloser(bytes.NewReader(b)), nil
}

func (c *memCache) Store(id string, rc io.ReadCloser) error {
	b, err := io.ReadAll(rc)
	if err != nil {
		return err
	}
	c.mu.Lock()
	c.m[id] = b
	c.mu.Unlock()
	return nil
}
func (c *memCache) Delete(string) error { return nil } // contents are immutable; never drop them

type noBackend struct{}

func (noBackend) Init(context.Context, ...parser.BackendOption) (io.ReadCloser, error) {
	return nil, fmt.Errorf("c16: the image backend is not expected to be used (contents are cached)")
}

type nopLock struct{}

func (nopLock) Resolve(context.Context, pkgmetav1.Pkg, v1.PackageRevision) (int, int, int, error) {
	return 0, 0, 0, nil
}
func (nopLock) RemoveSelf(context.Context, v1.PackageRevision) error { return nil }

type nopConfig struct{}

func (nopConfig) PullSecretFor(context.Context, string) (string, string, error) { return "", "", nil }
func (nopConfig) ImageVerificationConfigFor(context.Context, string) (string, *v1beta1.ImageVerification, error) {
	return "", nil, nil
}

// scriptedHooks are the runtime hooks of a package with a runtime (deployment,
// service, ...): each of them can fail, e.g. Post while the deployment is not
// available yet.
type scriptedHooks struct {
	FailPre, FailPost, FailDeactivate bool
	posts                             int
}

func (s *scriptedHooks) Pre(context.Context, runtime.Object, v1.PackageRevisionWithRuntime, revision.ManifestBuilder) error {
	if s.FailPre {
		return fmt.Errorf("c16 hook: cannot apply the runtime service account")
	}
	return nil
}

func (s *scriptedHooks) Post(context.Context, runtime.Object, v1.PackageRevisionWithRuntime, revision.ManifestBuilder) error {
	s.posts++
	if s.FailPost {
		return fmt.Errorf("c16 hook: the runtime deployment is not available yet")
	}
	return nil
}

func (s *scriptedHooks) Deactivate(context.Context, v1.PackageRevisionWithRuntime, revision.ManifestBuilder) error {
	if s.FailDeactivate {
		return fmt.Errorf("c16 hook: cannot delete the runtime deployment")
	}
	return nil
}

func (s *scriptedHooks) String() string {
	if s == nil {
		return "-"
	}
	var out []string
	for n, b := range map[string]bool{"pre": s.FailPre, "post": s.FailPost, "deactivate": s.FailDeactivate} {
		if b {
			out = append(out, n)
		}
	}
	sort.Strings(out)
	if len(out) == 0 {
		return "-"
	}
	return strings.Join(out, "+") + " fail"
}

// recordingEstablisher tells the oracle whether the reconcile's Establish call succeeded.
type recordingEstablisher struct {
	revision.Establisher
	h *hworld
}

func (e recordingEstablisher) Establish(ctx context.Context, objs []runtime.Object, parent v1.PackageRevision, control bool) ([]xpv1.TypedReference, error) {
	refs, err := e.Establisher.Establish(ctx, objs, parent, control)
	e.h.sim.With(func(*verifsim.View) {
		if e.h.cur != nil {
			e.h.cur.EstOK = err == nil
		}
	})
	return refs, err
}

var (
	metaScheme, _ = xpkg.BuildMetaScheme()
	objScheme, _  = xpkg.BuildObjectScheme()
)

func (fl flavour) linter() parser.Linter {
	switch fl.Kind {
	case "Provider":
		return xpkg.NewProviderLinter()
	case "Configuration":
		return xpkg.NewConfigurationLinter()
	}
	return xpkg.NewFunctionLinter()
}

// packageYAML renders the stream the parser reads: the package metadata and the objects.
func packageYAML(fl flavour, pkg string, objs []objSpec) []byte {
	var b bytes.Buffer
	meta := map[string]any{"apiVersion": "meta.pkg.crossplane.io/v1", "kind": fl.Kind, "metadata": map[string]any{"name": pkg}}
	switch fl.Kind {
	case "Provider":
		meta["spec"] = map[string]any{"controller": map[string]any{"image": "r.io/acme/" + pkg + "-controller:v1"}}
	case "Function":
		meta["spec"] = map[string]any{"image": "r.io/acme/" + pkg + "-fn:v1"}
	default:
		meta["spec"] = map[string]any{}
	}
	mb, _ := yaml.Marshal(meta)
	b.Write(mb)
	for _, o := range objs {
		ob, err := yaml.Marshal(o.build())
		if err != nil {
			panic(err)
		}
		b.WriteString("---\n")
		b.Write(ob)
	}
	return b.Bytes()
}

// ---------------------------------------------------------------------------
// history world

type hrev struct {
	Pkg  string
	Name string
	Objs []objSpec
}

type hworld struct {
	*world
	cache                        *memCache
	revs                         map[string]*hrev // generated revisions by name (created or not yet)
	order                        map[string][]string
	secret                       map[string]string // package -> "ok" | "none"
	reject                       *verifsim.Key
	hist                         []string
	excluded                     bool            // contents were steered away from an open known finding
	hooks                        *scriptedHooks  // hooks of the next reconcile (nil = never fail)
	postDown                     map[string]bool // revisions whose post-establish hook keeps failing (deployment never available)
	postFailedAfterEstablish     int
	limit                        int
	tookOver, refusals, upgrades int
}

func (h *hworld) logf(f string, a ...any) { h.hist = append(h.hist, fmt.Sprintf(f, a...)) }

func (h *hworld) failf(f string, a ...any) {
	h.fail("%s\nhistory:\n  %s", fmt.Sprintf(f, a...), strings.Join(h.hist, "\n  "))
}

func secretNameOf(pkg string) string { return pkg + "-tls-server" }

func (h *hworld) created(rev string) bool { return h.sim.Get(h.revKey(rev)) != nil }

// createRevision creates the revision object as the package manager would.
func (h *hworld) createRevision(rev string, active bool) {
	r := h.revs[rev]
	n := int64(0)
	for i, name := range h.order[r.Pkg] {
		if name == rev {
			n = int64(i + 1)
		}
	}
	ro := revOpts{Active: active, Number: n}
	if h.fl.Runtime {
		// The package manager always names the TLS server secret of a package with a runtime.
		ro.TLSSecret = secretNameOf(r.Pkg)
	}
	h.addRevision(r.Pkg, rev, ro)
	h.cache.m[rev] = packageYAML(h.fl, r.Pkg, r.Objs)
}

func (h *hworld) setDesired(rev string, active bool) {
	c := h.sim.Client("pkg-manager")
	u := &unstructured.Unstructured{}
	u.SetAPIVersion(pkgAPI)
	u.SetKind(h.fl.RevKind)
	if err := c.Get(context.Background(), types.NamespacedName{Name: rev}, u); err != nil {
		return
	}
	st := "Inactive"
	if active {
		st = "Active"
	}
	spec, _ := u.Object["spec"].(map[string]any)
	spec["desiredState"] = st
	if err := c.Update(context.Background(), u); err != nil {
		h.failf("harness: cannot set desiredState of %s: %v", rev, err)
	}
}

type revState struct {
	Exists      bool
	Terminating bool
	Active      bool
	Refs        []verifsim.Key
	UID         string
}

func (h *hworld) state(rev string) revState {
	o := h.sim.Get(h.revKey(rev))
	if o == nil {
		return revState{}
	}
	st := revState{Exists: true, Terminating: verifsim.Terminating(o), UID: verifsim.MetaString(o, "uid")}
	ds, _ := verifsim.Nested(o, "spec", "desiredState").(string)
	st.Active = ds == "Active"
	l, _ := verifsim.Nested(o, "status", "objectRefs").([]any)
	for _, e := range l {
		m, _ := e.(map[string]any)
		av, _ := m["apiVersion"].(string)
		kind, _ := m["kind"].(string)
		name, _ := m["name"].(string)
		g := strings.SplitN(av, "/", 2)[0]
		st.Refs = append(st.Refs, verifsim.Key{Group: g, Kind: kind, Name: name})
	}
	return st
}

// plan is the oracle's view of one reconcile, computed before it starts from
// the store and the generated package contents only.
type plan struct {
	Mode    string // deleting | release | establish
	Control bool
	Keys    []verifsim.Key
	Exist   map[int]bool
	Owned   map[int]bool
	Must    string
	Refs    []verifsim.Key
	Shared  int // objects that exist and carry a plain owner reference of another revision of the package
}

func (h *hworld) plan(rev string) plan {
	r := h.revs[rev]
	st := h.state(rev)
	p := plan{Exist: map[int]bool{}, Owned: map[int]bool{}}
	switch {
	case st.Terminating:
		p.Mode = "deleting"
		return p
	case !st.Active && len(st.Refs) > 0:
		p.Mode, p.Refs = "release", st.Refs
		return p
	}
	p.Mode, p.Control = "establish", st.Active
	hasCert := st.Active && h.fl.Runtime && h.secret[r.Pkg] == "ok"
	if st.Active && h.fl.Runtime && h.secret[r.Pkg] != "ok" {
		p.Must = "the revision's webhook TLS secret does not exist"
	}
	siblings := map[string]bool{}
	for _, n := range h.order[r.Pkg] {
		if n != rev {
			if o, ok := h.world.revs[n]; ok {
				siblings[o.UID] = true
			}
		}
	}
	for i, o := range r.Objs {
		k := h.liveKey(o, r.Pkg, st.Active)
		p.Keys = append(p.Keys, k)
		cur := h.sim.Get(k)
		p.Exist[i] = cur != nil
		p.Owned[i] = cur != nil && refByUID(cur, st.UID) != nil
		if cur != nil && st.Active {
			if c := verifsim.ControllerUID(cur); c != "" && c != st.UID && p.Must == "" {
				p.Must = fmt.Sprintf("%s is controlled by somebody else (uid %s)", k, c)
			}
			for _, ref := range verifsim.OwnerRefs(cur) {
				if u, _ := ref["uid"].(string); siblings[u] && !isController(ref) {
					p.Shared++
					break
				}
			}
		}
		if h.reject != nil && *h.reject == k && (cur != nil || st.Active) && p.Must == "" {
			p.Must = fmt.Sprintf("the API server rejects %s", k)
		}
		if o.Conv && st.Active && !hasCert && p.Must == "" {
			p.Must = "a CRD with webhook conversion cannot be deployed without a CA bundle"
		}
	}
	return p
}

// liveKey says where an object of a package lives in the cluster. Webhook
// configurations are deployed under a name derived from the package when the
// active revision has a CA to inject (documented in enrichControlledResource);
// an inactive revision finds them wherever they were deployed.
func (h *hworld) liveKey(o objSpec, pkg string, active bool) verifsim.Key {
	if o.Kind != "VWC" && o.Kind != "MWC" {
		return objKey(o, o.Name)
	}
	renamed := objKey(o, "crossplane-"+strings.ToLower(h.fl.Kind)+"-"+pkg)
	if active {
		if h.fl.Runtime && h.secret[pkg] == "ok" {
			return renamed
		}
		return objKey(o, o.Name)
	}
	if h.sim.Get(renamed) != nil {
		return renamed
	}
	return objKey(o, o.Name)
}

// reconcile runs the real reconciler once for a revision.
func (h *hworld) reconcile(rev string, faults map[int]verifsim.Fault) (reconcile.Result, error, *verifsim.Run) {
	run := h.sim.NewRun(estActor+":"+rev, faults)
	c := run.Client()
	opts := []revision.ReconcilerOption{
		revision.WithCache(h.cache),
		revision.WithDependencyManager(nopLock{}),
		revision.WithEstablisher(recordingEstablisher{Establisher: revision.NewAPIEstablisher(c, ns, h.limit), h: h}),
		revision.WithNewPackageRevisionFn(h.fl.newRev),
		revision.WithParser(parser.New(metaScheme, objScheme)),
		revision.WithParserBackend(noBackend{}),
		revision.WithConfigStore(nopConfig{}),
		revision.WithLinter(h.fl.linter()),
		revision.WithNamespace(ns),
		revision.WithServiceAccount("crossplane"),
	}
	if h.fl.Runtime {
		// Provider and function revisions run with runtime hooks (SetupProviderRevision / SetupFunctionRevision).
		hooks := h.hooks
		if hooks == nil {
			hooks = &scriptedHooks{}
		}
		opts = append(opts, revision.WithRuntimeHooks(hooks))
	}
	r := revision.NewReconciler(&fakeManager{c: c, scheme: h.sim.Scheme}, opts...)
	res, err := r.Reconcile(context.Background(), reconcile.Request{NamespacedName: types.NamespacedName{Name: rev}})
	return res, err, run
}

// step reconciles a revision and judges the reconcile.
func (h *hworld) step(rec *verifkit.Recorder, rev string, faults map[int]verifsim.Fault) {
	if !h.created(rev) {
		return
	}
	r := h.revs[rev]
	p := h.plan(rev)
	rv, pkg := h.world.revs[rev], h.pkgs[r.Pkg]
	switch p.Mode {
	case "establish":
		h.cur = &callCtx{What: "establish", Rev: rv, Pkg: pkg, Control: p.Control, MustFail: p.Must}
	case "release":
		h.cur = &callCtx{What: "release", Rev: rv, Pkg: pkg}
	default:
		h.cur = &callCtx{What: "deleting", Rev: rv, Pkg: pkg}
	}
	cc := h.cur
	limit := h.limit
	if len(faults) > 0 {
		h.limit = 1
	}
	hooks := h.hooks
	if h.fl.Runtime && h.postDown[rev] {
		if hooks == nil {
			hooks = &scriptedHooks{}
		}
		hooks.FailPost = true
	}
	if !h.fl.Runtime {
		hooks = nil
	}
	h.hooks = hooks
	res, err, run := h.reconcile(rev, faults)
	h.hooks = nil
	h.limit = limit
	h.cur = nil
	ok := err == nil && !res.Requeue //nolint:staticcheck // the reconciler still uses Requeue
	h.logf("reconcile %s [%s control=%v must-fail=%q faults=%v hooks=%v] -> ok=%v calls=%d", rev, p.Mode, p.Control, p.Must, faultString(faults), hooks, ok, run.N)
	// Which scripted hook failures apply to this reconcile: Deactivate runs for every
	// inactive revision, Pre and Post around Establish.
	hookFailed := hooks != nil && ((p.Mode != "deleting" && !p.Control && hooks.FailDeactivate) || (p.Mode == "establish" && (hooks.FailPre || hooks.FailPost)))
	if cc.EstOK && cc.StatusAfterEst > 0 {
		rec.Label("status-write-after-establish")
	}
	where := "reconcile of " + rev
	if vs := h.sim.TakeViolations(); len(vs) > 0 {
		h.failf("%s:\n  %s", where, strings.Join(vs, "\n  "))
	}
	rec.Labelf("reconcile:%s", p.Mode)
	injected := false
	for k := range faults {
		if k < run.N {
			injected = true
		}
	}
	switch {
	case p.Mode == "deleting":
		_ = cc // the property says nothing about what a revision does to its objects while it is deleted
	case p.Mode == "establish" && p.Must != "":
		rec.Label("establish:refused")
		if ok {
			h.failf("ALL-OR-NOTHING: %s reported success although %s", where, p.Must)
		}
		if len(r.Objs) >= 2 {
			h.refusals++
		}
	case p.Mode == "establish" && ok:
		rec.Labelf("establish:ok control=%v", p.Control)
		h.checkEstablished(where, rv, pkg, p.Control, p.Keys, p.Exist, p.Owned)
		if p.Control && p.Shared > 0 {
			h.tookOver++
		}
		if !p.Control {
			h.noControl(where, rv)
		}
	case p.Mode == "establish" && hookFailed && !ok:
		rec.Label("reconcile:hook-failed")
		if cc.EstOK {
			// Establish itself succeeded; the reconcile failed afterwards (post-establish hook).
			rec.Labelf("establish:ok-then-post-hook-failed control=%v", p.Control)
			h.postFailedAfterEstablish++
			h.checkEstablished(where, rv, pkg, p.Control, p.Keys, p.Exist, p.Owned)
			if !p.Control {
				h.noControl(where, rv)
			}
		}
	case p.Mode == "release" && hookFailed && !ok:
		rec.Label("reconcile:hook-failed")
	case p.Mode == "establish" && !injected:
		rec.Label("establish:unexpected-error")
		h.failf("harness/model: %s failed without faults although nothing refuses: %v (%+v)", where, err, res)
	case p.Mode == "release" && ok:
		rec.Label("release:ok")
		for _, k := range p.Refs {
			o := h.sim.Get(k)
			if o == nil {
				continue
			}
			ref := refByUID(o, rv.UID)
			if ref == nil {
				h.failf("RELEASE: %s: the deactivated revision is not an owner of %s: %v", where, k, verifsim.OwnerRefs(o))
			} else if isController(ref) {
				h.failf("RELEASE: %s: the deactivated revision still controls %s", where, k)
			}
		}
		h.noControl(where, rv)
	case p.Mode == "release" && !injected && h.rejects(p.Refs):
		rec.Label("release:rejected-by-admission")
	case p.Mode == "release" && !injected:
		h.failf("harness/model: %s (deactivation) failed without faults: %v", where, err)
	default:
		rec.Label("reconcile:faulted")
	}
	h.gc(where)
}

// rejects: may the admission rule make the deactivation of a revision with
// these references fail? Webhook configurations may be released under the name
// they were deployed with, whatever the reference says.
func (h *hworld) rejects(keys []verifsim.Key) bool {
	if h.reject == nil {
		return false
	}
	for _, k := range keys {
		if *h.reject == k || (k.GK() == h.reject.GK() && k.Group == "admissionregistration.k8s.io") {
			return true
		}
	}
	return false
}

// noControl: after a successful reconcile of an inactive revision nothing is controlled by it.
func (h *hworld) noControl(where string, rv owner) {
	for _, k := range h.sim.AllKeys() {
		if !isPackageObjectKind(k.GK()) {
			continue
		}
		if o := h.sim.Get(k); o != nil && verifsim.ControllerUID(o) == rv.UID {
			h.failf("INACTIVE-ROLE: after a successful %s the inactive revision still controls %s: %v", where, k, verifsim.OwnerRefs(o))
		}
	}
}

// gc runs the garbage collector to quiescence: while the packages exist, no
// object a package holds may be collected, whatever happened to its revisions.
func (h *hworld) gc(where string) {
	for _, k := range h.gcQuiesce() {
		if isPackageObjectKind(k.GK()) {
			h.failf("GC: after %s the garbage collector deleted %s", where, k)
		}
	}
}

func faultString(f map[int]verifsim.Fault) string {
	if len(f) == 0 {
		return "-"
	}
	ks := make([]int, 0, len(f))
	for k := range f {
		ks = append(ks, k)
	}
	sort.Ints(ks)
	var out []string
	for _, k := range ks {
		out = append(out, fmt.Sprintf("%d:%v/%s", k, f[k].Kind, f[k].Err))
	}
	return strings.Join(out, ",")
}

func (h *hworld) activeOf(pkg string) string {
	for _, n := range h.order[pkg] {
		if st := h.state(n); st.Exists && st.Active {
			return n
		}
	}
	return ""
}

// switchTo makes rev the package's current revision the way the package manager
// does within one of its reconciles: every other revision is deactivated first.
func (h *hworld) switchTo(rev string) {
	r := h.revs[rev]
	for _, n := range h.order[r.Pkg] {
		if n != rev && h.created(n) && h.state(n).Active {
			h.setDesired(n, false)
		}
	}
	if !h.created(rev) {
		h.createRevision(rev, true)
	} else if st := h.state(rev); !st.Terminating {
		h.setDesired(rev, true)
	}
	h.upgrades++
	h.logf("switch %s to %s", r.Pkg, rev)
}

func genFaults(t *rapid.T) map[int]verifsim.Fault {
	if rapid.IntRange(0, 3).Draw(t, "faulty") != 0 {
		return nil
	}
	out := map[int]verifsim.Fault{}
	for i, n := 0, rapid.IntRange(1, 2).Draw(t, "nfaults"); i < n; i++ {
		out[rapid.IntRange(0, 40).Draw(t, "faultat")] = rapid.SampledFrom(faultKinds).Draw(t, "faultkind")
	}
	return out
}

// newHWorld builds the cluster: packages alpha and beta, each with or without its webhook TLS secret.
func newHWorld(fl flavour, fail func(string, ...any), limit int, withSecret map[string]bool) *hworld {
	h := &hworld{world: newWorld(fl, fail), cache: &memCache{m: map[string][]byte{}}, revs: map[string]*hrev{}, order: map[string][]string{}, secret: map[string]string{}}
	h.limit = limit
	h.postDown = map[string]bool{}
	// The core Crossplane service account the reconciler reads for packages with a runtime.
	h.sim.MustCreate("helm", &corev1.ServiceAccount{ObjectMeta: metav1.ObjectMeta{Name: "crossplane", Namespace: ns}})
	for _, pkg := range []string{"alpha", "beta"} {
		h.addPackage(pkg)
		h.secret[pkg] = "none"
		if fl.Runtime && withSecret[pkg] {
			h.secret[pkg] = "ok"
			h.sim.MustCreate("tls-init", &corev1.Secret{ObjectMeta: metav1.ObjectMeta{Name: secretNameOf(pkg), Namespace: ns}, Data: map[string][]byte{"tls.crt": []byte("CERT-" + pkg)}})
		}
	}
	h.sim.AddAdmission(func(_ *verifsim.View, op verifsim.Op) error {
		if h.reject != nil && strings.HasPrefix(op.Actor, estActor) && op.Key == *h.reject {
			return kerrors.NewInvalid(op.Key.GK(), op.Key.Name, field.ErrorList{field.Forbidden(field.NewPath("spec"), rejectedMsg)})
		}
		return nil
	})
	return h
}

func (h *hworld) addContent(pkg, rev string, objs []objSpec) {
	h.revs[rev] = &hrev{Pkg: pkg, Name: rev, Objs: objs}
	h.order[pkg] = append(h.order[pkg], rev)
}

func setupHistory(t *rapid.T, fail func(string, ...any)) *hworld {
	fl := flavours[rapid.IntRange(0, len(flavours)-1).Draw(t, "flavour")]
	limit := rapid.SampledFrom([]int{1, 3, 10}).Draw(t, "limit")
	ws := map[string]bool{}
	for _, pkg := range []string{"alpha", "beta"} {
		ws[pkg] = rapid.IntRange(0, 4).Draw(t, "secret."+pkg) > 0
	}
	h := newHWorld(fl, fail, limit, ws)
	// alpha: three revisions over one base set; each drops/adds/changes a few objects.
	base := genObjs(t, fl, 5, "base")
	for i := 1; i <= 3; i++ {
		name := fmt.Sprintf("alpha-r%d", i)
		objs := make([]objSpec, 0, len(base))
		for _, o := range base {
			if len(base) > 1 && rapid.IntRange(0, 4).Draw(t, name+".drop") == 0 {
				continue
			}
			if rapid.Bool().Draw(t, name+".change") {
				o.Variant = o.Variant%3 + 1
			}
			objs = append(objs, o)
		}
		if len(objs) == 0 {
			objs = append(objs, base[0])
		}
		if rapid.IntRange(0, 2).Draw(t, name+".add") == 0 {
			extra := genObjs(t, fl, 2, name+".extra")
			have := map[string]bool{}
			for _, o := range objs {
				have[o.id()] = true
			}
			for _, o := range extra {
				if !have[o.id()] {
					objs = append(objs, o)
				}
			}
		}
		if knownOpen() && fl.Runtime && h.secret["alpha"] == "ok" && hasWebhookConfig(objs) {
			// Open finding inactive-webhook-config-name: revisions of alpha get deactivated,
			// and with a webhook CA their webhook configurations are deployed under the
			// package-derived name. Keep them out of this package (beta, whose revision
			// stays active, and alpha without a CA still ship them).
			kept := objs[:0:0]
			for _, o := range objs {
				if o.Kind != "VWC" && o.Kind != "MWC" {
					kept = append(kept, o)
				}
			}
			if len(kept) == 0 {
				kept = append(kept, objSpec{Kind: "CRD", Name: namePool["CRD"][0], Variant: 1})
			}
			objs = kept
			h.excluded = true
		}
		h.addContent("alpha", name, objs)
	}
	// beta: one revision that may claim objects alpha also ships.
	h.addContent("beta", "beta-r1", genObjs(t, fl, 2, "beta"))
	// objects somebody created by hand before any package was installed
	if rapid.IntRange(0, 2).Draw(t, "preexisting") == 0 {
		for _, o := range genObjs(t, fl, 2, "uncontrolled") {
			if o.Kind == "VWC" || o.Kind == "MWC" {
				continue
			}
			h.putObject(o, o.Name, nil)
			h.logf("pre-existing uncontrolled %s", o.id())
		}
	}
	for n, r := range h.revs {
		_ = n
		ids := make([]string, len(r.Objs))
		for i, o := range r.Objs {
			ids[i] = fmt.Sprintf("%s#v%d", o.id(), o.Variant)
			if o.Conv {
				ids[i] += "+conv"
			}
		}
		sort.Strings(ids)
		h.hist = append(h.hist, fmt.Sprintf("content %s = %v", r.Name, ids))
	}
	sort.Strings(h.hist)
	h.hist = append([]string{fmt.Sprintf("flavour=%s secrets=%v workers=%d", fl.Kind, h.secret, h.limit)}, h.hist...)
	return h
}

func (h *hworld) action(t *rapid.T, rec *verifkit.Recorder) {
	all := []string{"alpha-r1", "alpha-r2", "alpha-r3", "beta-r1"}
	switch a := rapid.SampledFrom([]string{"reconcile", "reconcile", "reconcile", "reconcile", "reconcile", "switch", "switch", "create-inactive", "delete", "reject", "beta", "post-down"}).Draw(t, "action"); a {
	case "reconcile":
		var live []string
		for _, n := range all {
			if h.created(n) {
				live = append(live, n)
			}
		}
		if len(live) == 0 {
			return
		}
		rev := rapid.SampledFrom(live).Draw(t, "rev")
		faults := genFaults(t)
		if h.fl.Runtime && rapid.IntRange(0, 2).Draw(t, "hooks") == 0 {
			h.hooks = &scriptedHooks{
				FailPost:       rapid.IntRange(0, 1).Draw(t, "failpost") == 0,
				FailPre:        rapid.IntRange(0, 5).Draw(t, "failpre") == 0,
				FailDeactivate: rapid.IntRange(0, 5).Draw(t, "faildeactivate") == 0,
			}
		}
		h.step(rec, rev, faults)
	case "post-down":
		if !h.fl.Runtime {
			return
		}
		rev := rapid.SampledFrom(h.order["alpha"]).Draw(t, "postdown")
		h.postDown[rev] = !h.postDown[rev]
		h.logf("post hook of %s keeps failing: %v", rev, h.postDown[rev])
		rec.Label("action:post-down")
	case "switch":
		rev := rapid.SampledFrom(h.order["alpha"]).Draw(t, "to")
		if st := h.state(rev); st.Terminating || (st.Exists && st.Active) {
			return
		}
		rec.Label("action:switch")
		h.switchTo(rev)
		h.gc("switch to " + rev)
	case "create-inactive": // revisionActivationPolicy: Manual
		for _, n := range h.order["alpha"] {
			if !h.created(n) {
				h.createRevision(n, false)
				h.logf("create %s inactive", n)
				rec.Label("action:create-inactive")
				return
			}
		}
	case "delete": // revision history garbage collection by the package manager
		var cand []string
		for _, n := range h.order["alpha"] {
			if st := h.state(n); st.Exists && !st.Active && !st.Terminating {
				cand = append(cand, n)
			}
		}
		if len(cand) == 0 {
			return
		}
		rev := rapid.SampledFrom(cand).Draw(t, "victim")
		o := h.fl.newRev()
		o.SetName(rev)
		if err := h.sim.Client("pkg-manager").Delete(context.Background(), o); err != nil {
			h.failf("harness: delete %s: %v", rev, err)
		}
		h.logf("delete %s", rev)
		rec.Label("action:delete-revision")
		h.gc("deletion of " + rev)
	case "reject":
		if h.reject != nil && rapid.Bool().Draw(t, "clear") {
			h.reject = nil
			h.logf("admission: clear")
			return
		}
		r := h.revs[rapid.SampledFrom(all).Draw(t, "rejectrev")]
		o := r.Objs[rapid.IntRange(0, len(r.Objs)-1).Draw(t, "rejectobj")]
		name := o.Name
		if (o.Kind == "VWC" || o.Kind == "MWC") && h.fl.Runtime && h.secret[r.Pkg] == "ok" && rapid.Bool().Draw(t, "renamed") {
			name = "crossplane-" + strings.ToLower(h.fl.Kind) + "-" + r.Pkg
		}
		k := objKey(o, name)
		h.reject = &k
		h.logf("admission: reject %s", k)
		rec.Label("action:reject")
	case "beta":
		if !h.created("beta-r1") {
			h.createRevision("beta-r1", true)
			h.logf("create beta-r1 active")
		}
		h.step(rec, "beta-r1", nil)
	}
}

func newHistory(t *rapid.T, fail func(string, ...any)) *hworld { return setupHistory(t, fail) }

// finish: drop the admission rule and let every revision reconcile twice
// without faults; then the active revision must hold everything it ships.
func (h *hworld) finish(rec *verifkit.Recorder) {
	h.reject = nil
	h.postDown = map[string]bool{}
	h.logf("admission: clear, hooks healthy (end)")
	for round := 0; round < 3; round++ {
		// Inactive revisions first: an active revision cannot take objects over before
		// its predecessor gave them up.
		for _, n := range []string{"alpha-r1", "alpha-r2", "alpha-r3", "beta-r1"} {
			if st := h.state(n); st.Exists && !st.Active {
				h.step(rec, n, nil)
			}
		}
		for _, n := range []string{"alpha-r1", "alpha-r2", "alpha-r3", "beta-r1"} {
			if st := h.state(n); st.Exists && st.Active {
				h.step(rec, n, nil)
			}
		}
	}
}

func TestVerifC16Histories(t *testing.T) {
	rec := verifkit.New(t, "C16", "history = 10-40 actions on the real revision reconciler: reconciles (0-2 random faults) of three revisions of package alpha sharing objects and of package beta, switching the current revision (upgrade, rollback; predecessors deactivated first as the package manager does), manually-activated (inactive) revisions, deletion of inactive revisions, an admission rule rejecting one object, pre-existing uncontrolled objects; the garbage collector runs to quiescence after every action; non-trivial = a refusal hit a revision of >= 2 objects, or an active revision took over >= 1 object still owned by another revision of its package")
	rapid.Check(t, func(t *rapid.T) {
		rec.Eval()
		h := newHistory(t, func(f string, a ...any) { t.Helper(); t.Fatalf(f, a...) })
		if h.excluded {
			rec.Excluded()
		}
		first := "alpha-r1"
		if rapid.IntRange(0, 4).Draw(t, "manual") == 0 {
			h.createRevision(first, false)
			h.logf("create %s inactive", first)
		} else {
			h.switchTo(first)
		}
		n := rapid.IntRange(10, 40).Draw(t, "nactions")
		for i := 0; i < n; i++ {
			h.action(t, rec)
		}
		h.finish(rec)
		if h.refusals > 0 || h.tookOver > 0 {
			rec.NonTrivial(strings.Join(h.hist, ";"), func() any { return map[string]any{"history": append([]string(nil), h.hist...)} })
		}
		if h.postFailedAfterEstablish > 0 {
			rec.Label("history:post-hook-failed-after-establish")
		}
		if h.tookOver > 0 {
			rec.Label("history:took-over-shared")
		}
		if h.refusals > 0 {
			rec.Label("history:refusal")
		}
	})
}
