//go:build verif

package c14

// Interloper perturbation: a package is not reconciled alone. The controller
// manager runs the Provider, Configuration and Function controllers (and several
// workers of each) in one process, so while package A's reconcile waits for an API
// round trip, the reconcile of another package B runs through the same code
// (PackageRevisioner, xpkg.FriendlyID, ...). Anything A's reconcile holds on to
// (its revision name, the objects it listed) must not depend on that.
//
// The perturbation needs no goroutines: a client wrapper around the client of A's
// reconciler runs, immediately before A's API call k, a COMPLETE real reconcile of
// B (same type/other name, or other type) on the same goroutine and then lets A
// continue. Oracle: all clauses of c14_test.go on A (and on B), plus the
// differential "A's writes and result with the interloper == A's writes and
// result alone from the same start state" (A and B share no object).

import (
	"context"
	"encoding/json"
	"fmt"
	"sort"
	"strings"
	"testing"

	"k8s.io/apimachinery/pkg/types"
	"pgregory.net/rapid"
	"sigs.k8s.io/controller-runtime/pkg/client"
	"sigs.k8s.io/controller-runtime/pkg/reconcile"

	"github.com/crossplane/crossplane/internal/verifkit"
	"github.com/crossplane/crossplane/internal/verifsim"
)

const (
	interActor   = "pkg-manager/interloper"
	otherTypePkg = "gamma"
	interClass   = "class:interloper reconcile of another package before call k"
)

func isRevKind(kind string) bool {
	for _, f := range flavours {
		if f.RevKind == kind {
			return true
		}
	}
	return false
}

// interPlan says before which API call indexes of the next reconcile which other
// package is reconciled completely.
type interPlan struct {
	At    map[int]string
	fired []string
}

func (p *interPlan) String() string {
	if p == nil || len(p.At) == 0 {
		return ""
	}
	var ks []int
	for k := range p.At {
		ks = append(ks, k)
	}
	sort.Ints(ks)
	var sb []string
	for _, k := range ks {
		sb = append(sb, fmt.Sprintf("%d:%s", k, p.At[k]))
	}
	return " interloper-before-call{" + strings.Join(sb, ",") + "}"
}

// interClient wraps the client of the reconcile under judgement.
type interClient struct {
	client.Client
	w    *world
	run  *verifsim.Run
	plan *interPlan
}

func (c *interClient) hook() {
	idx := c.run.N // index of the API call about to be issued
	b, ok := c.plan.At[idx]
	if !ok || c.run.Crashed {
		return
	}
	delete(c.plan.At, idx)
	c.plan.fired = append(c.plan.fired, fmt.Sprintf("%d:%s", idx, b))
	c.w.interlope(b, idx)
}

func (c *interClient) Get(ctx context.Context, key client.ObjectKey, obj client.Object, opts ...client.GetOption) error {
	c.hook()
	return c.Client.Get(ctx, key, obj, opts...)
}

func (c *interClient) List(ctx context.Context, list client.ObjectList, opts ...client.ListOption) error {
	c.hook()
	return c.Client.List(ctx, list, opts...)
}

func (c *interClient) Create(ctx context.Context, obj client.Object, opts ...client.CreateOption) error {
	c.hook()
	return c.Client.Create(ctx, obj, opts...)
}

func (c *interClient) Delete(ctx context.Context, obj client.Object, opts ...client.DeleteOption) error {
	c.hook()
	return c.Client.Delete(ctx, obj, opts...)
}

func (c *interClient) Update(ctx context.Context, obj client.Object, opts ...client.UpdateOption) error {
	c.hook()
	return c.Client.Update(ctx, obj, opts...)
}

func (c *interClient) Patch(ctx context.Context, obj client.Object, p client.Patch, opts ...client.PatchOption) error {
	c.hook()
	return c.Client.Patch(ctx, obj, p, opts...)
}

func (c *interClient) DeleteAllOf(ctx context.Context, obj client.Object, opts ...client.DeleteAllOfOption) error {
	c.hook()
	return c.Client.DeleteAllOf(ctx, obj, opts...)
}

func (c *interClient) Status() client.SubResourceWriter { return c.SubResource("status") }

func (c *interClient) SubResource(sub string) client.SubResourceClient {
	return &interSub{SubResourceClient: c.Client.SubResource(sub), c: c}
}

type interSub struct {
	client.SubResourceClient
	c *interClient
}

func (s *interSub) Update(ctx context.Context, obj client.Object, opts ...client.SubResourceUpdateOption) error {
	s.c.hook()
	return s.SubResourceClient.Update(ctx, obj, opts...)
}

func (s *interSub) Patch(ctx context.Context, obj client.Object, p client.Patch, opts ...client.SubResourcePatchOption) error {
	s.c.hook()
	return s.SubResourceClient.Patch(ctx, obj, p, opts...)
}

func (s *interSub) Create(ctx context.Context, obj client.Object, sub client.Object, opts ...client.SubResourceCreateOption) error {
	s.c.hook()
	return s.SubResourceClient.Create(ctx, obj, sub, opts...)
}

// interlope runs one complete, fault-free, real reconcile of package b while
// another reconcile is in flight, and judges it like any other reconcile.
func (w *world) interlope(b string, beforeCall int) {
	saved := w.cur
	bc := w.expect(b)
	before := w.revisions(b)
	w.cur = bc
	run := w.sim.NewRun(interActor, nil)
	res, err := w.newReconciler(b, run.Client()).Reconcile(context.Background(), reconcile.Request{NamespacedName: types.NamespacedName{Name: b}})
	w.cur = saved
	w.st.interRuns++
	if b == otherTypePkg {
		w.st.interOtherType++
	} else {
		w.st.interSameType++
	}
	if strings.HasPrefix(bc.Identity, "digest:") || strings.HasPrefix(bc.Identity, "source:") {
		w.st.interComputedName++
	}
	if w.st.interK == nil {
		w.st.interK = map[int]int{}
	}
	w.st.interK[beforeCall]++
	w.st.gcDeletes += bc.Deletes
	saveOf := "<none>"
	if saved != nil {
		saveOf = saved.Pkg
	}
	ctx := fmt.Sprintf("interloper: complete reconcile of %s %q before API call %d of the reconcile of %q (expected current revision %q, revisions before %s) returned (%+v, %v)", w.flOf(b).Kind, b, beforeCall, saveOf, bc.Expected, revString(before), res, err)
	w.check(ctx)
	if err == nil && !res.Requeue && bc.Exists {
		w.postCheck(bc, ctx)
	}
}

// ---------------------------------------------------------------------------
// differential: A's writes with an interloper == A's writes alone

func scrub(o verifsim.Obj) any {
	if o == nil {
		return nil
	}
	c := verifsim.DeepCopy(o)
	if m := verifsim.Meta(c); m != nil {
		for _, f := range []string{"resourceVersion", "uid", "creationTimestamp", "managedFields"} {
			delete(m, f)
		}
		if _, ok := m["deletionTimestamp"]; ok {
			m["deletionTimestamp"] = "<set>" // the simulated clock advances with every write, the interloper's too
		}
	}
	var walk func(v any)
	walk = func(v any) {
		switch t := v.(type) {
		case map[string]any:
			delete(t, "lastTransitionTime") // wall clock
			for _, e := range t {
				walk(e)
			}
		case []any:
			for _, e := range t {
				walk(e)
			}
		}
	}
	walk(c)
	return c
}

// ownWrites renders the writes the judged reconcile itself issued since logStart.
// Whether a write changed the stored bytes is not compared: condition timestamps
// come from the wall clock.
func (w *world) ownWrites(logStart int) []string {
	var out []string
	for _, wr := range w.sim.Log()[logStart:] {
		if wr.Actor != mgrActor {
			continue
		}
		b, _ := json.Marshal(map[string]any{"verb": wr.Verb, "sub": wr.Sub, "key": wr.Key.String(), "refused": wr.Err != "", "removed": wr.Removed, "after": scrub(wr.After)})
		out = append(out, string(b))
	}
	return out
}

func resultString(o outcome) string { return fmt.Sprintf("(%+v, %v)", o.res, o.err) }

// interlopersFor returns the packages that can interlope in a reconcile of pkg.
func (w *world) interlopersFor(pkg string) []string {
	var out []string
	for _, p := range append(append([]string(nil), pkgNames...), otherTypePkg) {
		if p != pkg && w.sim.Get(w.pkgKey(p)) != nil {
			out = append(out, p)
		}
	}
	return out
}

// interSweep: from the snapshot base, for every API call index k of the reconcile
// of pkg and every other package B, reconcile pkg with B interloping before call k;
// judge all clauses and compare pkg's own writes and result with the undisturbed probe.
func (w *world) interSweep(rec *verifkit.Recorder, pkg, where string, base *verifsim.Snapshot, baseCreated map[string]map[string]bool, probe outcome, probeWrites []string) {
	K := probe.run.N
	for _, b := range w.interlopersFor(pkg) {
		for k := 0; k < K; k++ {
			w.sim.Restore(base)
			w.created = copyCreated(baseCreated)
			ctx := fmt.Sprintf("%s / interloper %s %q reconciled completely before API call %d of %d [%s]", where, w.flOf(b).Kind, b, k, K, callName(probe.run, k))
			w.inter = &interPlan{At: map[int]string{k: b}}
			o := w.reconcile(pkg, nil, ctx)
			got := w.ownWrites(o.logStart)
			if resultString(o) != resultString(probe) || strings.Join(got, "\n") != strings.Join(probeWrites, "\n") {
				w.fail("%s\nINTERLOPER-DIFF: the reconcile of %q is not independent of the reconcile of another package running in between.\n alone:       result %s\n   %s\n interleaved: result %s\n   %s\nhistory:\n  %s", ctx, pkg, resultString(probe), strings.Join(probeWrites, "\n   "), resultString(o), strings.Join(got, "\n   "), strings.Join(w.hist, "\n  "))
			}
			w.recover(pkg, ctx)
			rec.AddExtra("interloper_sweep_runs", 1)
			rec.Label(interClass)
			if b == otherTypePkg {
				rec.Label("interloper:other-type package")
			} else {
				rec.Label("interloper:same-type package")
			}
			if len(probeWrites) > 0 {
				rec.NonTrivial(fmt.Sprintf("%s|%s|inter|%s|%d", strings.Join(w.hist, ";"), where, b, k), func() any {
					return map[string]any{"history": append([]string(nil), w.hist...), "interloper": b, "before_call": k, "call": callName(probe.run, k), "calls_in_reconcile": K}
				})
			}
		}
	}
}

// genInterPlan draws the interloper plan of one reconcile in a random history.
func (w *world) genInterPlan(t *rapid.T, pkg string) *interPlan {
	cands := w.interlopersFor(pkg)
	if len(cands) == 0 || w.uniform(t, "interloper?", 10) >= 4 {
		return nil
	}
	p := &interPlan{At: map[int]string{}}
	n := 1 + w.uniform(t, "ninterlopers", 2)
	for i := 0; i < n; i++ {
		b := cands[w.uniform(t, "interloper", len(cands))]
		if w.uniform(t, "interloper-moves", 2) == 0 {
			// The other package has work to do: its user pointed it at another image.
			src := allSources()[w.uniform(t, "interloper-source", len(allSources()))]
			w.editPackage(b, func(spec map[string]any) { spec["package"] = src })
			w.logf("set %s source=%s", b, short(src))
		}
		p.At[w.uniform(t, "interloper-k", 12)] = b
	}
	return p
}

func (w *world) finishInterloper(rec *verifkit.Recorder) {
	rec.AddExtra("interloper_reconciles", w.st.interRuns)
	rec.AddExtra("interloper_reconciles_same_type", w.st.interSameType)
	rec.AddExtra("interloper_reconciles_other_type", w.st.interOtherType)
	rec.AddExtra("interloper_reconciles_computing_a_revision_name", w.st.interComputedName)
	ks := make([]int, 0, len(w.st.interK))
	for k := range w.st.interK {
		ks = append(ks, k)
	}
	sort.Ints(ks)
	for _, k := range ks {
		rec.AddExtra(fmt.Sprintf("interloper_before_call_%02d", k), w.st.interK[k])
	}
	if w.st.interRuns > 0 {
		rec.Label("history:has-interloper-reconcile")
	}
}

// TestVerifC14PinnedInterloper: an upgrade (and a rollback, and a steady-state
// reconcile) of one package with a complete reconcile of another package (same
// type and other type) before every API call: same writes, same result, all clauses.
func TestVerifC14PinnedInterloper(t *testing.T) {
	rec := verifkit.New(t, "C14", "pinned: install/upgrade/rollback/steady reconciles of alpha with a complete reconcile of beta (same type) or gamma (other type) before every API call index")
	for i, fl := range flavours {
		t.Run(fl.Kind, func(t *testing.T) {
			w := fatalWorld(t, fl)
			w.fl2 = flavours[(i+1)%len(flavours)]
			w.createPackage("alpha", pkgSpec{Source: tagSource("v1"), Limit: ptr64(1)})
			w.createPackage("beta", pkgSpec{Source: tagSource("v3"), PullPolicy: "Always"})
			w.createPackage(otherTypePkg, pkgSpec{Source: digestSource(4), PullPolicy: "Always"})
			stage := func(name string) {
				base := w.sim.Snapshot()
				baseCreated := copyCreated(w.created)
				probe := w.reconcile("alpha", nil, name+" / probe")
				if !probe.success {
					t.Fatalf("%s: probe reconcile failed: %s", name, resultString(probe))
				}
				pw := w.ownWrites(probe.logStart)
				if len(pw) == 0 {
					t.Fatalf("%s: harness: the probe reconcile wrote nothing", name)
				}
				w.interSweep(rec, "alpha", name, base, baseCreated, probe, pw)
				w.sim.Restore(base)
				w.created = copyCreated(baseCreated)
				w.mustSucceed("alpha", name)
			}
			stage("install")
			w.setSource("alpha", tagSource("v2"))
			stage("upgrade")
			w.setSource("alpha", digestSource(2))
			stage("upgrade 2")
			w.setSource("alpha", tagSource("v1"))
			stage("rollback")
			stage("steady state")
			if w.st.interRuns < 40 || w.st.interComputedName != w.st.interRuns {
				t.Fatalf("harness: %d interloper reconciles, %d computed a revision name", w.st.interRuns, w.st.interComputedName)
			}
			if got := revString(w.revisions("alpha")); got != "[cccccccccccc#3 aaaaaaaaaaaa#4*]" {
				t.Fatalf("alpha revisions %s", got)
			}
		})
	}
}
