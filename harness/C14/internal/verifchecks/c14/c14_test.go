//go:build verif

// Package c14 decides property C14: a package has at most one active revision,
// the revision for the current source is numbered last, and history garbage
// collection spares it.
//
// The code under test is the real package manager reconciler
// (manager.NewReconciler, wired like SetupProvider/SetupConfiguration/
// SetupFunction) with the real PackageRevisioner over a scripted in-memory
// xpkg.Fetcher, running against the simulated API server.
package c14

import (
	"context"
	"fmt"
	"sort"
	"strings"
	"testing"

	"github.com/go-logr/logr"
	"github.com/google/go-containerregistry/pkg/name"
	ggcrv1 "github.com/google/go-containerregistry/pkg/v1"
	"k8s.io/apimachinery/pkg/apis/meta/v1/unstructured"
	"k8s.io/apimachinery/pkg/runtime"
	"k8s.io/apimachinery/pkg/types"
	"k8s.io/client-go/tools/record"
	"pgregory.net/rapid"
	ctrl "sigs.k8s.io/controller-runtime"
	"sigs.k8s.io/controller-runtime/pkg/client"
	"sigs.k8s.io/controller-runtime/pkg/reconcile"

	xperrors "github.com/crossplane/crossplane-runtime/pkg/errors"
	"github.com/crossplane/crossplane-runtime/pkg/event"
	"github.com/crossplane/crossplane-runtime/pkg/logging"

	v1 "github.com/crossplane/crossplane/apis/pkg/v1"
	"github.com/crossplane/crossplane/internal/controller/pkg/manager"
	"github.com/crossplane/crossplane/internal/verifkit"
	"github.com/crossplane/crossplane/internal/verifsim"
	"github.com/crossplane/crossplane/internal/xpkg"
)

const (
	group       = "pkg.crossplane.io"
	apiVersion  = "pkg.crossplane.io/v1"
	parentLabel = "pkg.crossplane.io/package" // v1.LabelParentPackage, spelled out: the oracle reads raw JSON
	mgrActor    = "pkg-manager"
	repo        = "r.io/a/p"
	revFin      = "revision.pkg.crossplane.io"
)

// ---------------------------------------------------------------------------
// flavours: Provider, Configuration, Function (exactly the option triples of Setup*)

type flavour struct {
	Kind    string
	RevKind string
	newPkg  func() v1.Package
	newRev  func() v1.PackageRevision
	newList func() v1.PackageRevisionList
}

var flavours = []flavour{
	{"Provider", "ProviderRevision", func() v1.Package { return &v1.Provider{} }, func() v1.PackageRevision { return &v1.ProviderRevision{} }, func() v1.PackageRevisionList { return &v1.ProviderRevisionList{} }},
	{"Configuration", "ConfigurationRevision", func() v1.Package { return &v1.Configuration{} }, func() v1.PackageRevision { return &v1.ConfigurationRevision{} }, func() v1.PackageRevisionList { return &v1.ConfigurationRevisionList{} }},
	{"Function", "FunctionRevision", func() v1.Package { return &v1.Function{} }, func() v1.PackageRevision { return &v1.FunctionRevision{} }, func() v1.PackageRevisionList { return &v1.FunctionRevisionList{} }},
}

// ---------------------------------------------------------------------------
// the scripted registry (xpkg.Fetcher)

// digests differ within their first 12 hex characters (the part FriendlyID keeps).
var digests = func() []string {
	var out []string
	for _, c := range "abcdef1234" {
		out = append(out, strings.Repeat(string(c), 64))
	}
	return out
}()

var tags = []string{"v1", "v2", "v3", "v4"}

type registry struct {
	TagTo   map[string]int // tag -> index into digests
	Failing bool           // every Head fails (registry down / unauthorized)
	heads   int
}

var _ xpkg.Fetcher = &registry{}

func (r *registry) Fetch(context.Context, name.Reference, ...string) (ggcrv1.Image, error) {
	return nil, fmt.Errorf("c14 registry: Fetch is not expected to be called by the package manager")
}

func (r *registry) Tags(context.Context, name.Reference, ...string) ([]string, error) {
	return nil, fmt.Errorf("c14 registry: Tags is not expected to be called by the package manager")
}

func (r *registry) Head(_ context.Context, ref name.Reference, _ ...string) (*ggcrv1.Descriptor, error) {
	r.heads++
	hex, ok := r.resolve(ref.String())
	if !ok {
		return nil, fmt.Errorf("c14 registry: HEAD %s: MANIFEST_UNKNOWN or registry unavailable", ref)
	}
	return &ggcrv1.Descriptor{MediaType: "application/vnd.oci.image.manifest.v1+json", Size: 1234, Digest: ggcrv1.Hash{Algorithm: "sha256", Hex: hex}}, nil
}

// resolve is the registry's truth: which digest a source names right now. It is
// also what the oracle consults (on the source string, not through go-containerregistry).
func (r *registry) resolve(source string) (string, bool) {
	if r.Failing {
		return "", false
	}
	if i := strings.Index(source, "@sha256:"); i >= 0 {
		hex := source[i+len("@sha256:"):]
		for _, d := range digests {
			if d == hex {
				return hex, true
			}
		}
		return "", false
	}
	i := strings.LastIndex(source, ":")
	if i < 0 {
		return "", false
	}
	d, ok := r.TagTo[source[i+1:]]
	if !ok {
		return "", false
	}
	return digests[d], true
}

func (r *registry) clone() *registry {
	c := &registry{TagTo: map[string]int{}, Failing: r.Failing}
	for k, v := range r.TagTo {
		c.TagTo[k] = v
	}
	return c
}

func tagSource(tag string) string  { return repo + ":" + tag }
func digestSource(d int) string    { return repo + "@sha256:" + digests[d] }
func allSources() []string {
	var out []string
	for _, t := range tags {
		out = append(out, tagSource(t))
	}
	for d := 0; d < 5; d++ {
		out = append(out, digestSource(d))
	}
	return out
}

// ---------------------------------------------------------------------------
// fake controller-runtime manager: only what NewReconciler/Setup* read from it

type fakeManager struct {
	ctrl.Manager // nil: anything not overridden panics loudly
	c            client.Client
	scheme       *runtime.Scheme
}

func (m *fakeManager) GetClient() client.Client                        { return m.c }
func (m *fakeManager) GetScheme() *runtime.Scheme                      { return m.scheme }
func (m *fakeManager) GetLogger() logr.Logger                          { return logr.Discard() }
func (m *fakeManager) GetEventRecorderFor(string) record.EventRecorder { return nopEvents{} }

type nopEvents struct{}

func (nopEvents) Event(runtime.Object, string, string, string)                                {}
func (nopEvents) Eventf(runtime.Object, string, string, string, ...any)                       {}
func (nopEvents) AnnotatedEventf(runtime.Object, map[string]string, string, string, string, ...any) {}

// ---------------------------------------------------------------------------
// reference functions of the oracle

// refLabel is the documented meaning of a "friendly" DNS label for the inputs
// this check generates (shorter than 63 bytes, alphanumeric first and last byte).
func refLabel(s string) string {
	var b strings.Builder
	for _, c := range s {
		switch {
		case c >= 'a' && c <= 'z', c >= '0' && c <= '9':
			b.WriteRune(c)
		case c == '.', c == '/', c == ':', c == '-':
			b.WriteByte('-')
		}
	}
	return strings.Trim(b.String(), "-")
}

func first(s string, n int) string {
	if len(s) > n {
		return s[:n]
	}
	return s
}

// ---------------------------------------------------------------------------
// world

type revInfo struct {
	Name        string
	Number      int64
	Active      bool
	Terminating bool
	Parent      string
}

func asInt(v any) int64 {
	switch n := v.(type) {
	case int64:
		return n
	case float64:
		return int64(n)
	case int:
		return int64(n)
	}
	return 0
}

func infoOf(k verifsim.Key, o verifsim.Obj) revInfo {
	ds, _ := verifsim.Nested(o, "spec", "desiredState").(string)
	return revInfo{Name: k.Name, Number: asInt(verifsim.Nested(o, "spec", "revision")), Active: ds == "Active", Terminating: verifsim.Terminating(o), Parent: verifsim.Labels(o)[parentLabel]}
}

// reconCtx is what the oracle knows about the manager reconcile in flight. It
// is computed from the stored package and the registry before the reconcile starts.
type reconCtx struct {
	Pkg      string
	Exists   bool
	Expected string // name of the revision for the package's current source ("" if it cannot be resolved)
	Identity string
	Limit    int64 // effective revisionHistoryLimit (nil = documented default 1)
	LimitNil bool
	Manual   bool
	Deletes  int
}

type stats struct {
	success, failed, requeue  int
	gcDeletes                 int
	rollbackGCEligible        int
	maxRevs                   int
	faultAtOrAfterFirstWrite  bool
	successWithHistory        bool
	rollbacks                 int
	postChecks                int
	// interloper reconciles (c14_interloper_test.go)
	interRuns, interSameType, interOtherType, interComputedName int
	interK                                                      map[int]int
}

type world struct {
	sim     *verifsim.Sim
	fl      flavour
	fl2     flavour    // flavour of the other-type interloper package ("gamma")
	inter   *interPlan // interloper plan of the next reconcile (consumed by it)
	reg     *registry
	fail    func(format string, a ...any)
	cur     *reconCtx
	created map[string]map[string]bool // "pkg|identity" -> revision names the manager created for it
	st      stats
	hist    []string
	salt    uint64
	draws   uint64
}

func newWorld(fl flavour, fail func(string, ...any)) *world {
	w := &world{sim: verifsim.New(verifsim.NewScheme()), fl: fl, fail: fail, created: map[string]map[string]bool{}}
	w.reg = &registry{TagTo: map[string]int{}}
	for i, t := range tags {
		w.reg.TagTo[t] = i
	}
	w.sim.AddMonitor(w.monitor)
	return w
}

// flOf returns the flavour of a package: "gamma" is the package of another type
// (it only ever acts as the interloper of c14_interloper_test.go), all others
// have the world's primary flavour.
func (w *world) flOf(pkg string) flavour {
	if pkg == otherTypePkg && w.fl2.Kind != "" {
		return w.fl2
	}
	return w.fl
}

func (w *world) pkgKey(n string) verifsim.Key {
	return verifsim.Key{Group: group, Kind: w.flOf(n).Kind, Name: n}
}
func (w *world) revKey(pkg, n string) verifsim.Key {
	return verifsim.Key{Group: group, Kind: w.flOf(pkg).RevKind, Name: n}
}

func (w *world) logf(f string, a ...any) { w.hist = append(w.hist, fmt.Sprintf(f, a...)) }

type pkgSpec struct {
	Source     string
	Limit      *int64
	Activation string // "" = unset
	PullPolicy string // "" = unset
}

func (w *world) createPackage(n string, sp pkgSpec) {
	spec := map[string]any{"package": sp.Source}
	if sp.Limit != nil {
		spec["revisionHistoryLimit"] = *sp.Limit
	}
	if sp.Activation != "" {
		spec["revisionActivationPolicy"] = sp.Activation
	}
	if sp.PullPolicy != "" {
		spec["packagePullPolicy"] = sp.PullPolicy
	}
	u := &unstructured.Unstructured{Object: map[string]any{"apiVersion": apiVersion, "kind": w.flOf(n).Kind, "metadata": map[string]any{"name": n}, "spec": spec}}
	w.sim.MustCreate("user", u)
	w.logf("create %s %+v", n, describe(sp))
}

func describe(sp pkgSpec) string {
	l := "nil"
	if sp.Limit != nil {
		l = fmt.Sprint(*sp.Limit)
	}
	return fmt.Sprintf("{src=%s limit=%s act=%q pull=%q}", short(sp.Source), l, sp.Activation, sp.PullPolicy)
}

func short(src string) string {
	if i := strings.Index(src, "@sha256:"); i >= 0 {
		return src[:i+8+4]
	}
	return src
}

// editPackage is a user edit of the package spec.
func (w *world) editPackage(n string, f func(spec map[string]any)) {
	c := w.sim.Client("user")
	u := &unstructured.Unstructured{}
	u.SetAPIVersion(apiVersion)
	u.SetKind(w.flOf(n).Kind)
	if err := c.Get(context.Background(), types.NamespacedName{Name: n}, u); err != nil {
		return
	}
	spec, _ := u.Object["spec"].(map[string]any)
	if spec == nil {
		spec = map[string]any{}
	}
	f(spec)
	u.Object["spec"] = spec
	if err := c.Update(context.Background(), u); err != nil {
		w.fail("harness: user update of package %s failed: %v", n, err)
	}
}

// revisions returns the live revisions of a package, ordered by number then name.
func (w *world) revisions(pkg string) []revInfo {
	var out []revInfo
	for _, k := range w.sim.Keys(w.revKey(pkg, "").GK()) {
		o := w.sim.Get(k)
		if o == nil {
			continue
		}
		if ri := infoOf(k, o); ri.Parent == pkg {
			out = append(out, ri)
		}
	}
	sortRevs(out)
	return out
}

func sortRevs(l []revInfo) {
	sort.Slice(l, func(i, j int) bool {
		if l[i].Number != l[j].Number {
			return l[i].Number < l[j].Number
		}
		return l[i].Name < l[j].Name
	})
}

// editRevision is an edit of a revision by somebody else than the package manager.
func (w *world) editRevision(actor, pkg, n string, status bool, f func(u *unstructured.Unstructured)) {
	c := w.sim.Client(actor)
	u := &unstructured.Unstructured{}
	u.SetAPIVersion(apiVersion)
	u.SetKind(w.flOf(pkg).RevKind)
	if err := c.Get(context.Background(), types.NamespacedName{Name: n}, u); err != nil {
		return
	}
	f(u)
	if status {
		_ = c.Status().Update(context.Background(), u)
		return
	}
	_ = c.Update(context.Background(), u)
}

// expect computes, from the stored package and the registry only, the name of
// the revision for the package's current source. It follows the documented
// pull policies: Never = the source is the identity (nothing is pulled);
// IfNotPresent = a source that was already resolved is not resolved again;
// otherwise the registry's digest for the source is the identity.
func (w *world) expect(pkg string) *reconCtx {
	c := &reconCtx{Pkg: pkg, Limit: 1, LimitNil: true}
	p := w.sim.Get(w.pkgKey(pkg))
	if p == nil {
		return c
	}
	c.Exists = true
	if l := verifsim.Nested(p, "spec", "revisionHistoryLimit"); l != nil {
		c.Limit, c.LimitNil = asInt(l), false
	}
	act, _ := verifsim.Nested(p, "spec", "revisionActivationPolicy").(string)
	c.Manual = act == "Manual"
	src, _ := verifsim.Nested(p, "spec", "package").(string)
	pol, _ := verifsim.Nested(p, "spec", "packagePullPolicy").(string)
	curID, _ := verifsim.Nested(p, "status", "currentIdentifier").(string)
	curRev, _ := verifsim.Nested(p, "status", "currentRevision").(string)
	switch {
	case pol == "Never":
		c.Identity = "source:" + first(src, 12)
		c.Expected = refLabel(pkg + "-" + first(src, 12))
	case pol == "IfNotPresent" && curID == src && curRev != "":
		c.Identity = "resolved-before:" + curRev
		c.Expected = curRev
	default:
		if hex, ok := w.reg.resolve(src); ok {
			c.Identity = "digest:" + hex
			c.Expected = pkg + "-" + hex[:12]
		}
	}
	return c
}

// ---------------------------------------------------------------------------
// monitor: evaluated at the instant of every write

func (w *world) liveRevs(v *verifsim.View, pkg string) map[string]revInfo {
	out := map[string]revInfo{}
	for _, k := range v.List(w.revKey(pkg, "").GK()) {
		if ri := infoOf(k, v.Get(k)); ri.Parent == pkg {
			out[k.Name] = ri
		}
	}
	return out
}

func (w *world) monitor(v *verifsim.View, wr *verifsim.Write) {
	if wr.DryRun || (wr.Actor != mgrActor && wr.Actor != interActor) || wr.Key.Group != group || !isRevKind(wr.Key.Kind) {
		return
	}
	c := w.cur
	if c == nil {
		v.Violate("harness: package manager write #%d outside a reconcile", wr.Seq)
		return
	}
	if k := w.flOf(c.Pkg).RevKind; wr.Key.Kind != k {
		v.Violate("GC-OWN: reconcile of %s %q wrote %s %s (write #%d)", w.flOf(c.Pkg).Kind, c.Pkg, wr.Key.Kind, wr.Key.Name, wr.Seq)
		return
	}
	if wr.Verb == "delete" {
		w.monitorDelete(v, wr, c)
		return
	}
	if !wr.Changed || wr.After == nil {
		return
	}
	after := infoOf(wr.Key, wr.After)
	// "re-resolving the same image never creates a second revision": the manager only ever creates
	// the revision whose name is the function of (package name, identity of the current source).
	if wr.Before == nil {
		if after.Parent != c.Pkg {
			v.Violate("UNIQUE: reconcile of package %q created revision %s labelled for package %q (write #%d)", c.Pkg, wr.Key.Name, after.Parent, wr.Seq)
		}
		if c.Expected == "" {
			v.Violate("UNIQUE: reconcile of package %q created revision %s although its source cannot be resolved (write #%d)", c.Pkg, wr.Key.Name, wr.Seq)
		} else {
			k := c.Pkg + "|" + c.Identity
			if w.created[k] == nil {
				w.created[k] = map[string]bool{}
			}
			w.created[k][wr.Key.Name] = true
			if wr.Key.Name != c.Expected || len(w.created[k]) > 1 {
				v.Violate("UNIQUE: package %q, source identity %q: the revision must be named %q, but the manager created %v (write #%d)", c.Pkg, c.Identity, c.Expected, keys(w.created[k]), wr.Seq)
			}
		}
	}
	// "never makes two revisions Active at once": a manager write that makes a revision Active
	// (create or update) must find every other revision of the package not Active.
	wasActive := wr.Before != nil && infoOf(wr.Key, wr.Before).Active
	if after.Active && !wasActive {
		var others []string
		for n, ri := range w.liveRevs(v, after.Parent) {
			if n != wr.Key.Name && ri.Active {
				others = append(others, n)
			}
		}
		sort.Strings(others)
		if len(others) > 0 {
			v.Violate("ONE-ACTIVE: write #%d (%s %s) made revision %s Active while %v of package %q %s still Active", wr.Seq, wr.Verb, wr.Key.Name, wr.Key.Name, others, after.Parent, plural(len(others)))
		}
	}
}

func plural(n int) string {
	if n == 1 {
		return "is"
	}
	return "are"
}

func (w *world) monitorDelete(v *verifsim.View, wr *verifsim.Write, c *reconCtx) {
	c.Deletes++
	if wr.Key.Name == c.Expected && c.Expected != "" {
		v.Violate("GC-SPARES-CURRENT: history GC deleted %s, the revision for the current source of package %q (write #%d, err=%q)", wr.Key.Name, c.Pkg, wr.Seq, wr.Err)
	}
	if wr.Before == nil {
		return // delete of an absent object: nothing else can be judged
	}
	target := infoOf(wr.Key, wr.Before)
	if target.Parent != c.Pkg {
		v.Violate("GC-OWN: reconcile of package %q deleted revision %s of package %q (write #%d)", c.Pkg, wr.Key.Name, target.Parent, wr.Seq)
		return
	}
	revs := w.liveRevs(v, c.Pkg)
	revs[wr.Key.Name] = target // the state the delete request found
	if !c.LimitNil && c.Limit == 0 {
		v.Violate("GC-LIMIT-0: revision %s of package %q deleted although revisionHistoryLimit is 0 (write #%d)", wr.Key.Name, c.Pkg, wr.Seq)
	}
	if int64(len(revs)) <= c.Limit+1 {
		v.Violate("GC-COUNT: revision %s of package %q deleted while only %d revisions exist and revisionHistoryLimit is %d (nil=%v): GC needs more than limit+1 (write #%d)", wr.Key.Name, c.Pkg, len(revs), c.Limit, c.LimitNil, wr.Seq)
	}
	for n, ri := range revs {
		if n != wr.Key.Name && n != c.Expected && ri.Number < target.Number {
			v.Violate("GC-OLDEST: revision %s (number %d) of package %q deleted although non-current revision %s has the lower number %d (write #%d)", wr.Key.Name, target.Number, c.Pkg, n, ri.Number, wr.Seq)
		}
	}
	if c.Deletes > 1 {
		v.Violate("GC-ONE: reconcile of package %q issued %d deletes; GC deletes only the oldest revision", c.Pkg, c.Deletes)
	}
}

func keys(m map[string]bool) []string {
	out := make([]string, 0, len(m))
	for k := range m {
		out = append(out, k)
	}
	sort.Strings(out)
	return out
}

func (w *world) check(ctx string) {
	if v := w.sim.TakeViolations(); len(v) > 0 {
		w.fail("%s:\n  %s\nhistory:\n  %s", ctx, strings.Join(v, "\n  "), strings.Join(w.hist, "\n  "))
	}
}

// ---------------------------------------------------------------------------
// running the real reconciler

func (w *world) newReconciler(pkg string, c client.Client) reconcile.Reconciler {
	fl := w.flOf(pkg)
	mgr := &fakeManager{c: c, scheme: w.sim.Scheme}
	ctrlName := "packages/" + strings.ToLower(fl.Kind) + "." + group
	r := manager.NewReconciler(mgr,
		manager.WithNewPackageFn(fl.newPkg),
		manager.WithNewPackageRevisionFn(fl.newRev),
		manager.WithNewPackageRevisionListFn(fl.newList),
		manager.WithRevisioner(manager.NewPackageRevisioner(w.reg, manager.WithDefaultRegistry(xpkg.DefaultRegistry))),
		manager.WithConfigStore(xpkg.NewImageConfigStore(mgr.GetClient(), "crossplane-system")),
		manager.WithLogger(logging.NewNopLogger()),
		manager.WithRecorder(event.NewAPIRecorder(mgr.GetEventRecorderFor(ctrlName))),
	)
	return xperrors.WithSilentRequeueOnConflict(r)
}

type outcome struct {
	ctx     *reconCtx
	run     *verifsim.Run
	res     reconcile.Result
	err     error
	success bool
	// logStart is the length of the write log when the reconcile started.
	logStart int
}

// reconcile runs one manager reconcile of pkg under a fault plan and evaluates
// the per-write monitors and, if it succeeded, the after-reconcile clauses.
func (w *world) reconcile(pkg string, plan map[int]verifsim.Fault, where string) outcome {
	c := w.expect(pkg)
	before := w.revisions(pkg)
	w.cur = c
	run := w.sim.NewRun(mgrActor, plan)
	var cl client.Client = run.Client()
	ip := w.inter
	w.inter = nil
	if ip != nil {
		ip.fired = nil
		cl = &interClient{Client: cl, w: w, run: run, plan: ip}
	}
	logStart := w.sim.LogLen()
	res, err := w.newReconciler(pkg, cl).Reconcile(context.Background(), reconcile.Request{NamespacedName: types.NamespacedName{Name: pkg}})
	w.cur = nil
	o := outcome{ctx: c, run: run, res: res, err: err, success: err == nil && !res.Requeue && c.Exists, logStart: logStart}
	if err != nil && strings.Contains(err.Error(), "VERIF-INCONCLUSIVE") {
		w.fail("VERIF-INCONCLUSIVE: %v", err)
	}
	w.st.gcDeletes += c.Deletes
	ctx := fmt.Sprintf("%s: reconcile of %s %q (plan %v, expected current revision %q, limit %d nil=%v, revisions before %s) returned (%+v, %v)", where, w.flOf(pkg).Kind, pkg, planString(plan)+ip.String(), c.Expected, c.Limit, c.LimitNil, revString(before), res, err)
	w.check(ctx)
	switch {
	case o.success:
		w.st.success++
		w.postCheck(c, ctx)
		if len(before) >= 2 {
			w.st.successWithHistory = true
		}
	case err != nil:
		w.st.failed++
	default:
		w.st.requeue++
	}
	for k := range plan {
		if run.FirstWrite >= 0 && k >= run.FirstWrite && k < run.N {
			w.st.faultAtOrAfterFirstWrite = true
		}
	}
	if n := len(w.revisions(pkg)); n > w.st.maxRevs {
		w.st.maxRevs = n
	}
	return o
}

func planString(p map[int]verifsim.Fault) string {
	if len(p) == 0 {
		return "none"
	}
	var ks []int
	for k := range p {
		ks = append(ks, k)
	}
	sort.Ints(ks)
	var sb []string
	for _, k := range ks {
		sb = append(sb, fmt.Sprintf("%d:%s(%s)", k, p[k].Kind, p[k].Err))
	}
	return strings.Join(sb, ",")
}

func revString(l []revInfo) string {
	var sb []string
	for _, r := range l {
		s := fmt.Sprintf("%s#%d", strings.TrimPrefix(r.Name, r.Parent+"-"), r.Number)
		if r.Active {
			s += "*"
		}
		if r.Terminating {
			s += "(terminating)"
		}
		sb = append(sb, s)
	}
	return "[" + strings.Join(sb, " ") + "]"
}

// postCheck: "after a package reconcile that revision exists, carries the highest
// revision number and is Active unless activation is manual".
func (w *world) postCheck(c *reconCtx, ctx string) {
	w.st.postChecks++
	if c.Expected == "" {
		w.fail("%s\nAFTER: the reconcile reports success although the package source cannot be resolved", ctx)
	}
	revs := w.revisions(c.Pkg)
	var cur *revInfo
	for i := range revs {
		if revs[i].Name == c.Expected {
			cur = &revs[i]
		}
	}
	if cur == nil {
		w.fail("%s\nAFTER-EXISTS: after a successful reconcile revision %q for the current source does not exist; revisions: %s\nhistory:\n  %s", ctx, c.Expected, revString(revs), strings.Join(w.hist, "\n  "))
		return
	}
	for _, r := range revs {
		if r.Name != cur.Name && r.Number >= cur.Number {
			w.fail("%s\nAFTER-HIGHEST: current revision %s has number %d but revision %s has number %d; revisions: %s\nhistory:\n  %s", ctx, cur.Name, cur.Number, r.Name, r.Number, revString(revs), strings.Join(w.hist, "\n  "))
		}
	}
	if !c.Manual && !cur.Active {
		w.fail("%s\nAFTER-ACTIVE: activation is not manual but current revision %s is not Active; revisions: %s\nhistory:\n  %s", ctx, cur.Name, revString(revs), strings.Join(w.hist, "\n  "))
	}
	// "deactivates every other revision of a package": reconciler.go documents that this is done
	// "regardless of the package's revision activation policy", so it is judged under Manual too.
	for _, r := range revs {
		if r.Name != cur.Name && r.Active {
			w.fail("%s\nAFTER-OTHERS-INACTIVE: revision %s is not the current revision (%s) but is still Active after a successful reconcile; revisions: %s\nhistory:\n  %s", ctx, r.Name, cur.Name, revString(revs), strings.Join(w.hist, "\n  "))
		}
	}
}

// recover runs fault-free reconciles until one succeeds (each is fully checked).
func (w *world) recover(pkg, where string) {
	for i := 0; i < 4; i++ {
		o := w.reconcile(pkg, nil, fmt.Sprintf("%s / fault-free follow-up %d", where, i))
		if o.success {
			return
		}
		if o.ctx.Expected == "" || !o.ctx.Exists {
			return // registry down or unknown image: nothing to converge to
		}
	}
	w.fail("%s: CONVERGE: four fault-free reconciles of %q in a row did not succeed although its source resolves\nhistory:\n  %s", where, pkg, strings.Join(w.hist, "\n  "))
}

var faultKinds = []verifsim.Fault{
	{Kind: verifsim.ErrBefore, Err: "conflict"},
	{Kind: verifsim.ErrBefore, Err: "server"},
	{Kind: verifsim.ErrAfter, Err: "timeout"},
	{Kind: verifsim.CrashBefore},
	{Kind: verifsim.CrashAfter},
}

func copyCreated(m map[string]map[string]bool) map[string]map[string]bool {
	out := map[string]map[string]bool{}
	for k, v := range m {
		out[k] = map[string]bool{}
		for k2 := range v {
			out[k][k2] = true
		}
	}
	return out
}

// sweep injects every fault kind at every API call index of the next reconcile of
// pkg, each time from the same snapshot, followed by fault-free reconciles; then
// it performs the reconcile fault-free for real.
func (w *world) sweep(rec *verifkit.Recorder, pkg, where string) outcome {
	base := w.sim.Snapshot()
	baseCreated := copyCreated(w.created)
	probe := w.reconcile(pkg, nil, where+" / sweep probe")
	probeWrites := w.ownWrites(probe.logStart)
	K := probe.run.N
	rec.AddExtra("sweep_api_calls", K)
	nrev := len(w.revisions(pkg))
	for k := 0; k < K; k++ {
		for _, f := range faultKinds {
			w.sim.Restore(base)
			w.created = copyCreated(baseCreated)
			ctx := fmt.Sprintf("%s / fault %s(%s) at API call %d of %d [%s]", where, f.Kind, f.Err, k, K, callName(probe.run, k))
			w.reconcile(pkg, map[int]verifsim.Fault{k: f}, ctx)
			w.recover(pkg, ctx)
			rec.AddExtra("fault_runs", 1)
			if probe.run.FirstWrite >= 0 && k >= probe.run.FirstWrite && nrev >= 2 {
				rec.NonTrivial(fmt.Sprintf("%s|%s|%d|%v", strings.Join(w.hist, ";"), where, k, f), func() any {
					return map[string]any{"history": append([]string(nil), w.hist...), "fault": f.Kind.String(), "err": f.Err, "call_index": k, "call": callName(probe.run, k), "calls_in_reconcile": K}
				})
			}
		}
	}
	w.interSweep(rec, pkg, where, base, baseCreated, probe, probeWrites)
	w.sim.Restore(base)
	w.created = copyCreated(baseCreated)
	return w.reconcile(pkg, nil, where)
}

func callName(r *verifsim.Run, k int) string {
	if k < len(r.Calls) {
		return r.Calls[k]
	}
	return "?"
}

// ---------------------------------------------------------------------------
// generated histories

var pkgNames = []string{"alpha", "beta"}

func (w *world) genLimit(t *rapid.T) *int64 {
	switch w.uniform(t, "limit", 10) {
	case 0:
		return nil
	case 1, 2:
		return ptr64(0)
	case 3, 4, 5, 6, 7:
		return ptr64(1)
	default:
		return ptr64(2)
	}
}

func ptr64(i int64) *int64 { return &i }

func (w *world) genSpec(t *rapid.T) pkgSpec {
	return pkgSpec{
		Source:     rapid.SampledFrom(allSources()).Draw(t, "source"),
		Limit:      w.genLimit(t),
		Activation: rapid.SampledFrom([]string{"", "Automatic", "Automatic", "Manual"}).Draw(t, "activation"),
		PullPolicy: rapid.SampledFrom([]string{"", "Always", "IfNotPresent", "IfNotPresent", "Never"}).Draw(t, "pull"),
	}
}

func genPlan(t *rapid.T) map[int]verifsim.Fault {
	plan := map[int]verifsim.Fault{}
	n := rapid.SampledFrom([]int{0, 0, 1, 1, 2}).Draw(t, "nfaults")
	for j := 0; j < n; j++ {
		plan[rapid.IntRange(0, 13).Draw(t, "k")] = rapid.SampledFrom(faultKinds).Draw(t, "fault")
	}
	return plan
}

// uniform draws an (approximately) uniformly distributed value in [0,n). rapid's
// integer generators are deliberately biased towards small values, which would
// distort the action weights below; the drawn value is therefore mixed with a
// per-case salt and a counter. Everything still derives from rapid draws only.
func (w *world) uniform(t *rapid.T, label string, n int) int {
	w.draws++
	x := rapid.Uint64().Draw(t, label) ^ (w.salt * 0x9e3779b97f4a7c15) ^ (w.draws * 0xbf58476d1ce4e5b9)
	x ^= x >> 30
	x *= 0xbf58476d1ce4e5b9
	x ^= x >> 27
	x *= 0x94d049bb133111eb
	x ^= x >> 31
	return int(x % uint64(n))
}

func (w *world) pickPkg(t *rapid.T) string {
	if w.uniform(t, "pkg", 5) == 0 {
		return pkgNames[1]
	}
	return pkgNames[0]
}

func (w *world) pickRev(t *rapid.T, pkg string) (revInfo, bool) {
	revs := w.revisions(pkg)
	if len(revs) == 0 {
		return revInfo{}, false
	}
	return revs[rapid.IntRange(0, len(revs)-1).Draw(t, "rev")], true
}

// digestOfRevision recovers the digest a revision was created for from its name.
func digestOfRevision(r revInfo) (int, bool) {
	suffix := strings.TrimPrefix(r.Name, r.Parent+"-")
	for i, d := range digests {
		if suffix == d[:12] {
			return i, true
		}
	}
	return 0, false
}

// rollbackToOldest points the package back at the image of its lowest-numbered
// revision (by digest reference, or by moving a tag back), the way a user rolls back.
func (w *world) rollbackToOldest(t *rapid.T, pkg string) bool {
	revs := w.revisions(pkg)
	if len(revs) < 2 {
		return false
	}
	old := revs[0]
	if d, ok := digestOfRevision(old); ok {
		src := digestSource(d)
		if d >= 5 || rapid.Bool().Draw(t, "bytag") {
			tag := rapid.SampledFrom(tags).Draw(t, "tag")
			w.reg.TagTo[tag] = d
			src = tagSource(tag)
		}
		w.editPackage(pkg, func(spec map[string]any) {
			spec["package"] = src
			if spec["packagePullPolicy"] == "Never" {
				delete(spec, "packagePullPolicy")
			}
		})
		w.logf("rollback %s to oldest revision %s via %s", pkg, old.Name, short(src))
	} else {
		// The revision was created under pull policy Never: its identity is its source.
		o := w.sim.Get(w.revKey(pkg, old.Name))
		src, _ := verifsim.Nested(o, "spec", "image").(string)
		if src == "" {
			return false
		}
		w.editPackage(pkg, func(spec map[string]any) {
			spec["package"] = src
			spec["packagePullPolicy"] = "Never"
		})
		w.logf("rollback %s to oldest revision %s via %s (Never)", pkg, old.Name, short(src))
	}
	w.st.rollbacks++
	c := w.expect(pkg)
	if c.Expected == old.Name && !(c.Limit == 0 && !c.LimitNil) && int64(len(revs)) > c.Limit+1 {
		w.st.rollbackGCEligible++
	}
	return true
}

// upgrade points the package at an image it has no revision for yet.
func (w *world) upgrade(t *rapid.T, pkg string) {
	have := map[int]bool{}
	for _, r := range w.revisions(pkg) {
		if d, ok := digestOfRevision(r); ok {
			have[d] = true
		}
	}
	var fresh []int
	for d := range digests {
		if !have[d] {
			fresh = append(fresh, d)
		}
	}
	if len(fresh) == 0 {
		return
	}
	d := fresh[rapid.IntRange(0, len(fresh)-1).Draw(t, "fresh")]
	src := digestSource(d % 5)
	if d >= 5 || rapid.Bool().Draw(t, "bytag") {
		tag := rapid.SampledFrom(tags).Draw(t, "tag")
		w.reg.TagTo[tag] = d
		src = tagSource(tag)
	}
	w.editPackage(pkg, func(spec map[string]any) { spec["package"] = src })
	w.logf("upgrade %s to %s (digest %s)", pkg, short(src), digests[d][:4])
}

// step performs one generated action. reconcileFn runs a manager reconcile.
func (w *world) step(t *rapid.T, rec *verifkit.Recorder, i int, sweeping bool) {
	pkg := w.pickPkg(t)
	where := fmt.Sprintf("step %d", i)
	doReconcile := func(plan map[int]verifsim.Fault) {
		if sweeping {
			w.logf("reconcile %s plan=%s", pkg, planString(plan))
			w.sweep(rec, pkg, where)
			return
		}
		ip := w.genInterPlan(t, pkg)
		w.logf("reconcile %s plan=%s%s", pkg, planString(plan), ip.String())
		w.inter = ip
		w.reconcile(pkg, plan, where)
		if ip != nil && len(ip.fired) > 0 {
			rec.Label(interClass)
		}
	}
	a := w.uniform(t, "action", 100)
	switch {
	case a < 26:
		rec.Label("act:reconcile")
		if sweeping {
			doReconcile(nil)
		} else {
			doReconcile(genPlan(t))
		}
	case a < 40:
		rec.Label("act:upgrade")
		w.upgrade(t, pkg)
		if rapid.IntRange(0, 3).Draw(t, "then") != 0 {
			doReconcile(nil)
		}
	case a < 54:
		if w.rollbackToOldest(t, pkg) {
			rec.Label("act:rollback-to-oldest-digest")
			if rapid.IntRange(0, 3).Draw(t, "then") != 0 {
				doReconcile(nil)
			}
		} else {
			rec.Label("act:upgrade (instead of a rollback: fewer than 2 revisions)")
			w.upgrade(t, pkg)
			doReconcile(nil)
		}
	case a < 60:
		rec.Label("act:set-source")
		src := rapid.SampledFrom(allSources()).Draw(t, "source")
		w.editPackage(pkg, func(spec map[string]any) { spec["package"] = src })
		w.logf("set %s source=%s", pkg, short(src))
	case a < 68:
		rec.Label("act:set-history-limit")
		l := w.genLimit(t)
		w.editPackage(pkg, func(spec map[string]any) {
			if l == nil {
				delete(spec, "revisionHistoryLimit")
			} else {
				spec["revisionHistoryLimit"] = *l
			}
		})
		if l == nil {
			w.logf("set %s limit=nil", pkg)
		} else {
			w.logf("set %s limit=%d", pkg, *l)
		}
	case a < 72:
		rec.Label("act:set-activation")
		p := rapid.SampledFrom([]string{"", "Automatic", "Manual"}).Draw(t, "activation")
		w.editPackage(pkg, func(spec map[string]any) {
			if p == "" {
				delete(spec, "revisionActivationPolicy")
			} else {
				spec["revisionActivationPolicy"] = p
			}
		})
		w.logf("set %s activation=%q", pkg, p)
	case a < 77:
		rec.Label("act:set-pull-policy")
		p := rapid.SampledFrom([]string{"", "Always", "IfNotPresent", "Never"}).Draw(t, "pull")
		w.editPackage(pkg, func(spec map[string]any) {
			if p == "" {
				delete(spec, "packagePullPolicy")
			} else {
				spec["packagePullPolicy"] = p
			}
		})
		w.logf("set %s pull=%q", pkg, p)
	case a < 82:
		rec.Label("act:registry-retag")
		tag := rapid.SampledFrom(tags).Draw(t, "tag")
		d := rapid.IntRange(0, len(digests)-1).Draw(t, "digest")
		w.reg.TagTo[tag] = d
		w.logf("registry: %s -> %s", tag, digests[d][:4])
	case a < 85:
		rec.Label("act:registry-up/down")
		w.reg.Failing = !w.reg.Failing
		w.logf("registry: failing=%v", w.reg.Failing)
	case a < 89:
		rec.Label("act:revision-health")
		if r, ok := w.pickRev(t, pkg); ok {
			st := rapid.SampledFrom([]string{"True", "False", "Unknown"}).Draw(t, "healthy")
			w.editRevision("revision-controller", pkg, r.Name, true, func(u *unstructured.Unstructured) {
				_ = unstructured.SetNestedSlice(u.Object, []any{map[string]any{"type": "Healthy", "status": st, "reason": "HealthyPackageRevision", "lastTransitionTime": "2024-01-01T00:00:00Z"}}, "status", "conditions")
			})
			w.logf("revision %s Healthy=%s", r.Name, st)
		}
	case a < 93:
		rec.Label("act:revision-finalizer")
		if r, ok := w.pickRev(t, pkg); ok {
			add := rapid.Bool().Draw(t, "add")
			w.editRevision("revision-controller", pkg, r.Name, false, func(u *unstructured.Unstructured) {
				if add {
					if !r.Terminating {
						u.SetFinalizers([]string{revFin})
					}
				} else {
					u.SetFinalizers(nil)
				}
			})
			w.logf("revision %s finalizer add=%v", r.Name, add)
		}
	case a < 96:
		rec.Label("act:user-sets-desired-state")
		if r, ok := w.pickRev(t, pkg); ok {
			ds := rapid.SampledFrom([]string{"Active", "Inactive"}).Draw(t, "ds")
			w.editRevision("user", pkg, r.Name, false, func(u *unstructured.Unstructured) {
				_ = unstructured.SetNestedField(u.Object, ds, "spec", "desiredState")
			})
			w.logf("user sets revision %s desiredState=%s", r.Name, ds)
		}
	case a < 98:
		rec.Label("act:user-deletes-revision")
		if r, ok := w.pickRev(t, pkg); ok {
			u := &unstructured.Unstructured{}
			u.SetAPIVersion(apiVersion)
			u.SetKind(w.flOf(pkg).RevKind)
			u.SetName(r.Name)
			_ = w.sim.Client("user").Delete(context.Background(), u)
			w.logf("user deletes revision %s", r.Name)
		}
	default:
		rec.Label("act:set-common-labels")
		v := rapid.SampledFrom([]string{"", "x", "y"}).Draw(t, "label")
		w.editPackage(pkg, func(spec map[string]any) {
			if v == "" {
				delete(spec, "commonLabels")
			} else {
				spec["commonLabels"] = map[string]any{"team": v}
			}
		})
		w.logf("set %s commonLabels team=%q", pkg, v)
	}
}

func (w *world) finish(rec *verifkit.Recorder) {
	// Bring both packages to a fault-free, resolvable end state and judge it.
	w.reg.Failing = false
	w.logf("registry: failing=false (end)")
	for _, p := range append(append([]string(nil), pkgNames...), otherTypePkg) {
		if w.sim.Get(w.pkgKey(p)) == nil {
			continue
		}
		w.logf("final reconciles %s", p)
		w.recover(p, "end of history")
	}
	w.finishInterloper(rec)
	rec.Labelf("max-revisions=%d", w.st.maxRevs)
	if w.st.gcDeletes > 0 {
		rec.Label("history:gc-deleted-a-revision")
	}
	if w.st.rollbacks > 0 {
		rec.Label("history:has-rollback-to-oldest-digest")
	}
	if w.st.rollbackGCEligible > 0 {
		rec.Label("history:rollback-to-oldest-digest-while-gc-eligible")
	}
	rec.AddExtra("reconciles_success", w.st.success)
	rec.AddExtra("reconciles_error", w.st.failed)
	rec.AddExtra("reconciles_requeue", w.st.requeue)
	rec.AddExtra("gc_deletes", w.st.gcDeletes)
	rec.AddExtra("after_reconcile_checks", w.st.postChecks)
	rec.AddExtra("rollback_to_oldest_actions", w.st.rollbacks)
	rec.AddExtra("rollback_to_oldest_while_gc_eligible", w.st.rollbackGCEligible)
}

func setup(t *rapid.T, rec *verifkit.Recorder) *world {
	fl := rapid.SampledFrom(flavours).Draw(t, "flavour")
	w := newWorld(fl, func(f string, a ...any) { t.Fatalf(f, a...) })
	w.salt = rapid.Uint64().Draw(t, "salt")
	rec.Label("flavour:" + fl.Kind)
	for _, p := range pkgNames {
		w.createPackage(p, w.genSpec(t))
	}
	// A package of another type: it only acts as an interloper (c14_interloper_test.go).
	var others []flavour
	for _, f := range flavours {
		if f.Kind != fl.Kind {
			others = append(others, f)
		}
	}
	w.fl2 = others[w.uniform(t, "other-flavour", len(others))]
	sp := w.genSpec(t)
	if sp.PullPolicy == "IfNotPresent" {
		sp.PullPolicy = "Always" // it shall resolve its image (and compute a revision name) every time
	}
	w.createPackage(otherTypePkg, sp)
	return w
}

// TestVerifC14Histories: random histories of package edits, registry changes,
// revision-controller/user actions and manager reconciles with 0-2 random faults.
func TestVerifC14Histories(t *testing.T) {
	rec := verifkit.New(t, "C14", "history = 12-45 actions over two packages of one flavour (upgrade, rollback to the oldest digest, source/limit/activation/pull-policy edits, registry retag/outage, revision health/finalizer/desiredState/deletion, manager reconciles with 0-2 random faults); non-trivial = a reconcile succeeded with >=2 revisions present and (a fault hit at/after the first write, or history GC deleted a revision, or a rollback to the oldest digest happened)")
	rapid.Check(t, func(t *rapid.T) {
		rec.Eval()
		w := setup(t, rec)
		n := 12 + w.uniform(t, "nsteps", 34)
		for i := 0; i < n; i++ {
			w.step(t, rec, i, false)
		}
		w.finish(rec)
		if w.st.successWithHistory && (w.st.faultAtOrAfterFirstWrite || w.st.gcDeletes > 0 || w.st.rollbacks > 0) {
			rec.NonTrivial(strings.Join(w.hist, ";"), func() any { return map[string]any{"flavour": w.fl.Kind, "history": append([]string(nil), w.hist...)} })
		}
	})
}

// TestVerifC14Sweep: generated histories in which every manager reconcile is first
// swept: every API call index x {conflict, 500, lost reply, crash-before, crash-after}.
func TestVerifC14Sweep(t *testing.T) {
	rec := verifkit.New(t, "C14", "sweep: history of 6-16 actions; each manager reconcile in it is preceded by the injection of every fault kind at every API call index (from a snapshot), each followed by fault-free reconciles until success; non-trivial = fault at/after the first write of a reconcile that saw >=2 revisions")
	rapid.Check(t, func(t *rapid.T) {
		rec.Eval()
		w := setup(t, rec)
		n := 6 + w.uniform(t, "nsteps", 11)
		for i := 0; i < n; i++ {
			w.step(t, rec, i, true)
		}
		w.finish(rec)
	})
}

// ---------------------------------------------------------------------------
// pinned rows and self tests (no rapid)

func fatalWorld(t *testing.T, fl flavour) *world {
	t.Helper()
	return newWorld(fl, func(f string, a ...any) { t.Helper(); t.Fatalf(f, a...) })
}

func (w *world) setSource(pkg, src string) {
	w.editPackage(pkg, func(spec map[string]any) { spec["package"] = src })
	w.logf("set %s source=%s", pkg, short(src))
}

func (w *world) mustSucceed(pkg, where string) outcome {
	w.logf("reconcile %s", pkg)
	o := w.reconcile(pkg, nil, where)
	if !o.success {
		w.fail("%s: fault-free reconcile of %q did not succeed: (%+v, %v)\nhistory:\n  %s", where, pkg, o.res, o.err, strings.Join(w.hist, "\n  "))
	}
	return o
}

// TestVerifC14PinnedRollbackToOldest is the shrunk history of the defect found by
// TestVerifC14Histories on the pinned tree: with revisionHistoryLimit 1 and three
// revisions, rolling the package back to the image of its oldest revision made the
// history GC delete the revision for the current source (reconciler.go computed the
// "oldest revision" over all revisions including the current one).
func TestVerifC14PinnedRollbackToOldest(t *testing.T) {
	for _, fl := range flavours {
		for _, limit := range []int64{1, 2} {
			for _, pull := range []string{"", "Always", "IfNotPresent"} {
				for _, byTag := range []bool{false, true} {
					t.Run(fmt.Sprintf("%s/limit=%d/pull=%s/bytag=%v", fl.Kind, limit, pull, byTag), func(t *testing.T) {
						w := fatalWorld(t, fl)
						w.createPackage("alpha", pkgSpec{Source: tagSource("v1"), Limit: ptr64(limit), PullPolicy: pull})
						w.mustSucceed("alpha", "install")
						for i := int64(0); i < limit+1; i++ {
							w.setSource("alpha", digestSource(int(i)+1))
							w.mustSucceed("alpha", fmt.Sprintf("upgrade %d", i+1))
						}
						if n := len(w.revisions("alpha")); int64(n) != limit+2 {
							t.Fatalf("harness: expected %d revisions before the rollback, have %s", limit+2, revString(w.revisions("alpha")))
						}
						if byTag {
							w.reg.TagTo["v4"] = 0
							w.setSource("alpha", tagSource("v4"))
						} else {
							w.setSource("alpha", digestSource(0))
						}
						w.mustSucceed("alpha", "rollback to the oldest digest")
						w.mustSucceed("alpha", "second reconcile after the rollback")
						revs := w.revisions("alpha")
						if int64(len(revs)) != limit+1 || revs[len(revs)-1].Name != "alpha-"+digests[0][:12] || !revs[len(revs)-1].Active {
							t.Fatalf("after the rollback and GC expected %d revisions with alpha-%s last and active, have %s", limit+1, digests[0][:12], revString(revs))
						}
					})
				}
			}
		}
	}
}

// TestVerifC14PinnedUpgradeChain: plain upgrades number revisions 1,2,3,..., keep one
// active and, with limit 1, collect exactly the oldest one step late. It also guards
// against a vacuously quiet harness.
func TestVerifC14PinnedUpgradeChain(t *testing.T) {
	for _, fl := range flavours {
		t.Run(fl.Kind, func(t *testing.T) {
			w := fatalWorld(t, fl)
			w.createPackage("alpha", pkgSpec{Source: tagSource("v1"), Limit: ptr64(1)})
			w.createPackage("beta", pkgSpec{Source: tagSource("v1")})
			w.mustSucceed("beta", "bystander")
			want := []string{"[aaaaaaaaaaaa#1*]", "[aaaaaaaaaaaa#1 bbbbbbbbbbbb#2*]", "[aaaaaaaaaaaa#1 bbbbbbbbbbbb#2 cccccccccccc#3*]", "[bbbbbbbbbbbb#2 cccccccccccc#3 dddddddddddd#4*]"}
			for i, tag := range tags {
				w.setSource("alpha", tagSource(tag))
				w.mustSucceed("alpha", "upgrade")
				if got := revString(w.revisions("alpha")); got != want[i] {
					t.Fatalf("after upgrade to %s: revisions %s, want %s", tag, got, want[i])
				}
			}
			w.mustSucceed("alpha", "steady")
			if got := revString(w.revisions("alpha")); got != "[cccccccccccc#3 dddddddddddd#4*]" {
				t.Fatalf("steady state: revisions %s", got)
			}
			if w.st.gcDeletes != 2 {
				t.Fatalf("expected 2 GC deletes, saw %d", w.st.gcDeletes)
			}
			if got := revString(w.revisions("beta")); got != "[aaaaaaaaaaaa#1*]" {
				t.Fatalf("bystander package changed: %s", got)
			}
			// Manual activation: the new revision exists, is numbered last, is not activated; the old one is deactivated.
			w.editPackage("alpha", func(spec map[string]any) { spec["revisionActivationPolicy"] = "Manual"; spec["revisionHistoryLimit"] = int64(0) })
			w.setSource("alpha", digestSource(4))
			w.mustSucceed("alpha", "manual")
			if got := revString(w.revisions("alpha")); got != "[cccccccccccc#3 dddddddddddd#4 eeeeeeeeeeee#5]" {
				t.Fatalf("manual activation: revisions %s", got)
			}
			// Pull policy Never: the identity is the source.
			w.editPackage("alpha", func(spec map[string]any) { spec["packagePullPolicy"] = "Never"; delete(spec, "revisionActivationPolicy") })
			w.reg.Failing = true
			w.mustSucceed("alpha", "never")
			revs := w.revisions("alpha")
			if last := revs[len(revs)-1]; last.Name != "alpha-r-io-a-psha" || last.Number != 6 || !last.Active || len(revs) != 4 {
				t.Fatalf("pull policy Never: revisions %s", revString(revs))
			}
			if w.reg.heads == 0 {
				t.Fatalf("harness: the registry was never asked")
			}
		})
	}
}

// TestVerifC14OracleSelfTest feeds the monitors hand-made bad manager behaviour:
// each must be reported (an oracle that cannot fail decides nothing).
func TestVerifC14OracleSelfTest(t *testing.T) {
	mk := func(n string, num int64, ds, parent string) *unstructured.Unstructured {
		return &unstructured.Unstructured{Object: map[string]any{"apiVersion": apiVersion, "kind": "ProviderRevision",
			"metadata": map[string]any{"name": n, "labels": map[string]any{parentLabel: parent}},
			"spec":     map[string]any{"desiredState": ds, "image": "x", "revision": num}}}
	}
	type tc struct {
		name string
		ctx  reconCtx
		act  func(c client.Client)
		want string
	}
	bg := context.Background()
	cases := []tc{
		{"second active", reconCtx{Pkg: "alpha", Exists: true, Expected: "alpha-cccccccccccc", Identity: "digest:c", Limit: 1}, func(c client.Client) { _ = c.Create(bg, mk("alpha-cccccccccccc", 3, "Active", "alpha")) }, "ONE-ACTIVE"},
		{"wrong name", reconCtx{Pkg: "alpha", Exists: true, Expected: "alpha-cccccccccccc", Identity: "digest:c", Limit: 1}, func(c client.Client) { _ = c.Create(bg, mk("alpha-zzz", 3, "Inactive", "alpha")) }, "UNIQUE"},
		{"delete current", reconCtx{Pkg: "alpha", Exists: true, Expected: "alpha-aaaaaaaaaaaa", Identity: "digest:a", Limit: 0}, func(c client.Client) { _ = c.Delete(bg, mk("alpha-aaaaaaaaaaaa", 1, "", "alpha")) }, "GC-SPARES-CURRENT"},
		{"delete with limit 0", reconCtx{Pkg: "alpha", Exists: true, Expected: "alpha-cccccccccccc", Limit: 0}, func(c client.Client) { _ = c.Delete(bg, mk("alpha-aaaaaaaaaaaa", 1, "", "alpha")) }, "GC-LIMIT-0"},
		{"delete too early", reconCtx{Pkg: "alpha", Exists: true, Expected: "alpha-cccccccccccc", Limit: 1}, func(c client.Client) { _ = c.Delete(bg, mk("alpha-aaaaaaaaaaaa", 1, "", "alpha")) }, "GC-COUNT"},
		{"delete not oldest", reconCtx{Pkg: "alpha", Exists: true, Expected: "alpha-cccccccccccc", Limit: 0, LimitNil: true}, func(c client.Client) {
			_ = c.Create(bg, mk("alpha-cccccccccccc", 3, "Inactive", "alpha"))
			_ = c.Delete(bg, mk("alpha-bbbbbbbbbbbb", 2, "", "alpha"))
		}, "GC-OLDEST"},
		{"delete other package", reconCtx{Pkg: "alpha", Exists: true, Expected: "alpha-cccccccccccc", Limit: 1}, func(c client.Client) { _ = c.Delete(bg, mk("beta-aaaaaaaaaaaa", 1, "", "beta")) }, "GC-OWN"},
	}
	for _, c := range cases {
		t.Run(c.name, func(t *testing.T) {
			w := fatalWorld(t, flavours[0])
			w.sim.MustCreate("setup", mk("alpha-aaaaaaaaaaaa", 1, "Inactive", "alpha"), mk("alpha-bbbbbbbbbbbb", 2, "Active", "alpha"), mk("beta-aaaaaaaaaaaa", 1, "Active", "beta"))
			ctx := c.ctx
			w.cur = &ctx
			c.act(w.sim.Client(mgrActor))
			v := strings.Join(w.sim.TakeViolations(), "\n")
			if !strings.Contains(v, c.want) {
				t.Fatalf("monitor did not report %s; violations: %q", c.want, v)
			}
		})
	}
}
