//go:build verif

// Package c10 decides the composer-level clause of C10: a composed resource for
// which any from-XR patch, metadata rendering or name generation failed is not
// created or updated in that reconcile, while the other resources still are.
package c10

import (
	"context"
	"encoding/json"
	"fmt"
	"strings"
	"testing"

	"k8s.io/apimachinery/pkg/apis/meta/v1/unstructured"
	"k8s.io/apimachinery/pkg/runtime"
	"k8s.io/apimachinery/pkg/types"
	utilrand "k8s.io/apimachinery/pkg/util/rand"
	"k8s.io/utils/ptr"
	"pgregory.net/rapid"

	v1 "github.com/crossplane/crossplane/apis/apiextensions/v1"
	"github.com/crossplane/crossplane/internal/verifenv"
	"github.com/crossplane/crossplane/internal/verifkit"
	"github.com/crossplane/crossplane/internal/verifsim"
)

const (
	annName = "crossplane.io/composition-resource-name"
	xrName  = "xr1"
)

// patchKind is how a template's from-XR patch behaves.
type patchKind int

const (
	noPatch        patchKind = iota
	optionalPatch            // Optional policy: a missing source is a no-op
	requiredPatch            // Required policy: a missing source fails rendering
	transformPatch           // string -> int64 convert: fails when the source is not numeric
	combinePatch             // CombineFromComposite of two params, Required
)

type tmpl struct {
	Name  string    `json:"name"`
	Kind  string    `json:"kind"`
	Patch patchKind `json:"patch"`
	Param string    `json:"param"`
	Fixed bool      `json:"fixed"` // base carries a fixed metadata.name (no name generation)
}

// params is the XR's spec.params at one phase: absent key = missing source.
type params map[string]string

type scenario struct {
	Templates []tmpl   `json:"templates"`
	Phases    []params `json:"phases"`
	// NameFault: in phase NameFaultPhase, the NameFaultNth name-availability Get of the reconcile fails.
	// Anonymous: templates carry no name (associated with resourceRefs by position).
	Anonymous      bool  `json:"anonymous"`
	NameFaultPhase int   `json:"nameFaultPhase"`
	NameFaultNth   int   `json:"nameFaultNth"`
	Seed           int64 `json:"seed"`
}

var paramNames = []string{"p0", "p1", "p2"}

func genScenario() *rapid.Generator[scenario] {
	return rapid.Custom(func(t *rapid.T) scenario {
		sc := scenario{Seed: rapid.Int64Range(1, 1<<40).Draw(t, "seed"), NameFaultPhase: -1, Anonymous: rapid.IntRange(0, 2).Draw(t, "anonymous") == 0}
		n := rapid.IntRange(2, 4).Draw(t, "ntemplates")
		for i := 0; i < n; i++ {
			sc.Templates = append(sc.Templates, tmpl{
				Name:  fmt.Sprintf("t%d", i),
				Kind:  rapid.SampledFrom([]string{"KindA", "KindB"}).Draw(t, "kind"),
				Patch: patchKind(rapid.IntRange(0, 4).Draw(t, "patch")),
				Param: rapid.SampledFrom(paramNames).Draw(t, "param"),
				// A metadata.name in a P&T base is ignored by the composer (RenderFromJSON restores the
				// existing - possibly empty - name), so every new resource gets a generated name.
				Fixed: false,
			})
		}
		for ph := 0; ph < rapid.IntRange(1, 3).Draw(t, "nphases"); ph++ {
			p := params{}
			for _, pn := range paramNames {
				switch rapid.IntRange(0, 3).Draw(t, "pval") {
				case 0: // missing
				case 1:
					p[pn] = fmt.Sprintf("%d", rapid.IntRange(0, 99).Draw(t, "num"))
				default:
					p[pn] = rapid.SampledFrom([]string{"abc", "x-1", ""}).Draw(t, "str") + fmt.Sprintf("%d%s", ph, "z")
				}
			}
			sc.Phases = append(sc.Phases, p)
		}
		if rapid.IntRange(0, 2).Draw(t, "namefault") == 0 {
			sc.NameFaultPhase = rapid.IntRange(0, len(sc.Phases)-1).Draw(t, "nfphase")
			sc.NameFaultNth = rapid.IntRange(0, 3).Draw(t, "nfnth")
		}
		return sc
	})
}

func (sc scenario) composition() *v1.Composition {
	c := &v1.Composition{}
	c.SetName("comp")
	c.Spec.CompositeTypeRef = v1.TypeReference{APIVersion: "example.org/v1", Kind: "XThing"}
	c.Spec.Mode = ptr.To(v1.CompositionModeResources)
	for _, tp := range sc.Templates {
		o := map[string]any{"apiVersion": "example.org/v1", "kind": tp.Kind, "spec": map[string]any{"forProvider": map[string]any{"base": tp.Name}}}
		if tp.Fixed {
			o["metadata"] = map[string]any{"name": "fixed-" + tp.Name}
		}
		base, _ := json.Marshal(o)
		ct := v1.ComposedTemplate{Name: ptr.To(tp.Name), Base: runtime.RawExtension{Raw: base}}
		if sc.Anonymous {
			ct.Name = nil
		}
		req := v1.FromFieldPathPolicyRequired
		opt := v1.FromFieldPathPolicyOptional
		from := "spec.params." + tp.Param
		// Every template first copies the phase marker: a half-rendered resource therefore differs from what is stored.
		gen := v1.Patch{Type: v1.PatchTypeFromCompositeFieldPath, FromFieldPath: ptr.To("spec.params.gen"), ToFieldPath: ptr.To("spec.forProvider.gen")}
		switch tp.Patch {
		case optionalPatch:
			ct.Patches = []v1.Patch{{Type: v1.PatchTypeFromCompositeFieldPath, FromFieldPath: &from, ToFieldPath: ptr.To("spec.forProvider.p"), Policy: &v1.PatchPolicy{FromFieldPath: &opt}}}
		case requiredPatch:
			ct.Patches = []v1.Patch{{Type: v1.PatchTypeFromCompositeFieldPath, FromFieldPath: &from, ToFieldPath: ptr.To("spec.forProvider.p"), Policy: &v1.PatchPolicy{FromFieldPath: &req}}}
		case transformPatch:
			ct.Patches = []v1.Patch{{Type: v1.PatchTypeFromCompositeFieldPath, FromFieldPath: &from, ToFieldPath: ptr.To("spec.forProvider.n"),
				Transforms: []v1.Transform{{Type: v1.TransformTypeConvert, Convert: &v1.ConvertTransform{ToType: v1.TransformIOTypeInt64}}}}}
		case combinePatch:
			ct.Patches = []v1.Patch{{Type: v1.PatchTypeCombineFromComposite, ToFieldPath: ptr.To("spec.forProvider.c"), Policy: &v1.PatchPolicy{FromFieldPath: &req},
				Combine: &v1.Combine{Strategy: v1.CombineStrategyString, String: &v1.StringCombine{Format: "%s-%s"}, Variables: []v1.CombineVariable{{FromFieldPath: from}, {FromFieldPath: "spec.params.p0"}}}}}
		}
		ct.Patches = append([]v1.Patch{gen}, ct.Patches...)
		c.Spec.Resources = append(c.Spec.Resources, ct)
	}
	return c
}

// rendersOK is the independent oracle for "do this template's from-XR patches succeed".
func rendersOK(tp tmpl, p params) bool {
	v, present := p[tp.Param]
	switch tp.Patch {
	case requiredPatch:
		return present
	case transformPatch:
		if !present {
			return true // optional by default: missing source is a no-op
		}
		var n int64
		_, err := fmt.Sscanf(v, "%d", &n)
		return err == nil && fmt.Sprintf("%d", n) == v
	case combinePatch:
		_, p0 := p["p0"]
		return present && p0
	}
	return true
}

func expectedField(tp tmpl, p params) (path []string, val any, has bool) {
	v, present := p[tp.Param]
	switch tp.Patch {
	case optionalPatch, requiredPatch:
		return []string{"spec", "forProvider", "p"}, v, present
	case transformPatch:
		var n int64
		fmt.Sscanf(v, "%d", &n)
		return []string{"spec", "forProvider", "n"}, n, present
	case combinePatch:
		return []string{"spec", "forProvider", "c"}, v + "-" + p["p0"], true
	}
	return nil, nil, false
}

func setParams(env *verifenv.XREnv, p params) {
	c := env.Sim.Client("user")
	xr := verifenv.NewUnstructuredXR(env.XRGVK, xrName)
	if err := c.Get(context.Background(), types.NamespacedName{Name: xrName}, xr); err != nil {
		panic(err)
	}
	m := map[string]any{"gen": p["gen"]}
	for k, v := range p {
		m[k] = v
	}
	_ = unstructured.SetNestedMap(xr.Object, m, "spec", "params")
	if err := c.Update(context.Background(), xr); err != nil {
		panic(err)
	}
}

// composedFor maps template name -> its composed resource: by the composition-resource-name annotation for
// named templates, by position in the XR's stored spec.resourceRefs for anonymous ones.
func (sc scenario) composedFor(env *verifenv.XREnv, xrUID string) map[string]verifsim.Obj {
	if !sc.Anonymous {
		return composedByName(env.Sim, xrUID)
	}
	out := map[string]verifsim.Obj{}
	xr := env.Sim.Get(env.XRKey(xrName))
	l, _ := verifsim.Nested(xr, "spec", "resourceRefs").([]any)
	for i, tp := range sc.Templates {
		if i >= len(l) {
			break
		}
		m, _ := l[i].(map[string]any)
		name, _ := m["name"].(string)
		if name == "" {
			continue
		}
		if o := env.Sim.Get(verifsim.Key{Group: "example.org", Kind: tp.Kind, Name: name}); o != nil {
			out[tp.Name] = o
		}
	}
	return out
}

// refNameAt returns the name recorded at position i of the XR's stored resourceRefs.
func refNameAt(env *verifenv.XREnv, i int) string {
	xr := env.Sim.Get(env.XRKey(xrName))
	l, _ := verifsim.Nested(xr, "spec", "resourceRefs").([]any)
	if i >= len(l) {
		return ""
	}
	m, _ := l[i].(map[string]any)
	n, _ := m["name"].(string)
	return n
}

func composedByName(s *verifsim.Sim, xrUID string) map[string]verifsim.Obj {
	out := map[string]verifsim.Obj{}
	for _, k := range s.AllKeys() {
		o := s.Get(k)
		if n := verifsim.Annotations(o)[annName]; n != "" && verifsim.ControllerUID(o) == xrUID {
			out[n] = o
		}
	}
	return out
}

func refNames(xr verifsim.Obj) map[string]bool {
	out := map[string]bool{}
	l, _ := verifsim.Nested(xr, "spec", "resourceRefs").([]any)
	for _, e := range l {
		if m, ok := e.(map[string]any); ok {
			out[fmt.Sprint(m["kind"])+"/"+fmt.Sprint(m["name"])] = true
		}
	}
	return out
}

func TestVerifC10Composer(t *testing.T) {
	rec := verifkit.New(t, "C10", "P&T composer on verifsim: 2-4 named templates with optional/required/transform/combine from-XR patches, 1-3 phases of XR params (present, missing, non-numeric), optional failing name-availability lookup; non-trivial = some template fails to render while another renders in the same reconcile; distinct=(scenario)")
	rapid.Check(t, func(t *rapid.T) {
		sc := genScenario().Draw(t, "scenario")
		rec.Eval()
		rec.Labelf("anonymous=%v", sc.Anonymous)
		utilrand.Seed(sc.Seed)
		env := verifenv.NewXREnv()
		env.InstallComposition(sc.composition(), 1)
		xr := env.NewXR(xrName, "comp")
		env.Sim.MustCreate("user", xr)
		xrUID := string(xr.GetUID())
		nontrivial := false
		for ph, p0 := range sc.Phases {
			p := params{"gen": fmt.Sprintf("g%d", ph)}
			for k, v := range p0 {
				p[k] = v
			}
			setParams(env, p)
			// Settle XR bookkeeping writes (finalizer, labels, revision ref) so that the reconcile we
			// judge is one that reaches composition. Two fault-free reconciles of an *empty* probe are
			// not possible here, so we simply judge the first reconcile that composes.
			before := sc.composedFor(env, xrUID)
			// names already recorded in spec.resourceRefs (by position): with anonymous templates a recorded
			// name is reused even if its resource was never created, so no name is generated for it; reads of
			// such names (template association, the applicator's Get) are not name-availability lookups.
			refsBefore := make([]string, len(sc.Templates))
			recorded := map[string]bool{}
			for i := range sc.Templates {
				refsBefore[i] = refNameAt(env, i)
			}
			for kn := range refNames(env.Sim.Get(env.XRKey(xrName))) {
				recorded[kn[strings.Index(kn, "/")+1:]] = true
			}
			logStart := env.Sim.LogLen()
			plan := map[int]verifsim.Fault{}
			nameFailed := map[string]bool{}
			if ph == sc.NameFaultPhase {
				// Find the API call index of the Nth name-availability lookup with a fault-free probe.
				snap := env.Sim.Snapshot()
				utilrand.Seed(sc.Seed + int64(ph))
				probe := env.Sim.NewRun("probe", nil)
				_, _ = env.Reconcile(probe, xrName)
				env.Sim.Restore(snap)
				nth := 0
				for i, call := range probe.Calls {
					if strings.HasPrefix(call, "get example.org/Kind") && isNameLookup(call, before) && !recorded[call[strings.LastIndex(call, "/")+1:]] {
						if nth == sc.NameFaultNth {
							plan[i] = verifsim.Fault{Kind: verifsim.ErrBefore, Err: "server"}
						}
						nth++
					}
				}
			}
			utilrand.Seed(sc.Seed + int64(ph))
			run := env.Sim.NewRun("xr-controller", plan)
			_, rerr := env.Reconcile(run, xrName)
			// Reconcile reports composition failures through conditions, not through its error. In these
			// scenarios the only thing that can abort composition as a whole is the injected lookup fault.
			aborted := rerr != nil
			for k := range plan {
				if k < run.N {
					aborted = true
				}
			}
			log := env.Sim.Log()[logStart:]
			after := sc.composedFor(env, xrUID)
			xrObj := env.Sim.Get(env.XRKey(xrName))
			refs := refNames(xrObj)

			// Which name lookups failed? The call order follows the template order; a failed lookup belongs to
			// the first template (in order) that needs a generated name and has no existing resource.
			if len(plan) > 0 {
				nth := 0
				for ti, tp := range sc.Templates {
					if _, exists := before[tp.Name]; exists || tp.Fixed {
						continue
					}
					if sc.Anonymous && refsBefore[ti] != "" {
						continue
					}
					if nth == sc.NameFaultNth {
						nameFailed[tp.Name] = true
					}
					nth++
				}
			}

			anyFail, anyOK := false, false
			for ti, tp := range sc.Templates {
				ok := rendersOK(tp, p) && !nameFailed[tp.Name]
				if ok {
					anyOK = true
				} else {
					anyFail = true
				}
				prev, existed := before[tp.Name]
				cur, exists := after[tp.Name]
				// writes that touched this template's resource during the reconcile
				var writes []string
				for _, w := range log {
					if w.DryRun || !strings.HasPrefix(w.Key.Kind, "Kind") {
						continue
					}
					n := verifsim.Annotations(w.After)[annName]
					if n == "" {
						n = verifsim.Annotations(w.Before)[annName]
					}
					if sc.Anonymous {
						n = ""
						if rn := refNameAt(env, ti); (rn != "" && w.Key.Name == rn && w.Key.Kind == tp.Kind) || (existed && w.Key.Name == verifsim.MetaString(prev, "name") && w.Key.Kind == tp.Kind) {
							n = tp.Name
						}
					}
					if n == tp.Name && w.Err == "" && (w.Changed || w.Before == nil) {
						writes = append(writes, fmt.Sprintf("#%d %s %s changed=%v", w.Seq, w.Verb, w.Key, w.Changed))
					}
				}
				if !ok && !existed && sc.Anonymous {
					// an anonymous, not yet existing resource is only findable through the reference recorded for it
					if rn := refNameAt(env, ti); rn != "" {
						if o := env.Sim.Get(verifsim.Key{Group: "example.org", Kind: tp.Kind, Name: rn}); o != nil {
							cur, exists = o, true
						}
					}
				}
				if !ok {
					rec.Label("template:render-fails")
					if len(writes) > 0 {
						t.Fatalf("phase %d: template %q failed to render (params %v, nameFault=%v) but its composed resource was written: %v", ph, tp.Name, p, nameFailed[tp.Name], writes)
					}
					if !existed && exists {
						t.Fatalf("phase %d: template %q failed to render but a composed resource was created: %v", ph, tp.Name, cur)
					}
					if existed {
						if !exists || verifsim.ObjDigest(prev) != verifsim.ObjDigest(cur) {
							t.Fatalf("phase %d: template %q failed to render but its existing composed resource changed:\nbefore %s\nafter  %s", ph, tp.Name, verifsim.ObjDigest(prev), verifsim.ObjDigest(cur))
						}
						if !aborted && !refs[fmt.Sprint(prev["kind"])+"/"+verifsim.MetaString(prev, "name")] {
							t.Fatalf("phase %d: template %q failed to render and the XR dropped the reference to its existing resource %s; refs=%v", ph, tp.Name, verifsim.MetaString(prev, "name"), refs)
						}
					}
					continue
				}
				rec.Label("template:renders")
				// "while the other resources still are": only judged when the reconcile itself did not abort.
				if aborted {
					continue
				}
				if !exists {
					t.Fatalf("phase %d: template %q rendered fine (params %v) but no composed resource exists after a successful reconcile; other failures must not block it", ph, tp.Name, p)
				}
				if got := verifsim.Nested(cur, "spec", "forProvider", "gen"); got != p["gen"] {
					t.Fatalf("phase %d: template %q rendered fine but was not updated: spec.forProvider.gen = %v, want %v", ph, tp.Name, got, p["gen"])
				}
				if path, want, has := expectedField(tp, p); has {
					got := verifsim.Nested(cur, path...)
					if fmt.Sprint(got) != fmt.Sprint(want) {
						t.Fatalf("phase %d: template %q: composed %s = %v, want %v (params %v)", ph, tp.Name, strings.Join(path, "."), got, want, p)
					}
				}
				if existed && verifsim.MetaString(prev, "name") != verifsim.MetaString(cur, "name") {
					t.Fatalf("phase %d: template %q changed metadata.name %s -> %s", ph, tp.Name, verifsim.MetaString(prev, "name"), verifsim.MetaString(cur, "name"))
				}
			}
			if anyFail && anyOK {
				nontrivial = true
			}
			if aborted {
				rec.Label("reconcile:aborted-by-injected-fault")
			}
		}
		if nontrivial {
			rec.NonTrivial(verifkit.JSON(sc), func() any { return sc })
		}
	})
}

// isNameLookup reports whether a "get Kind//name" call is a name-availability lookup rather than a read of an existing resource.
func isNameLookup(call string, existing map[string]verifsim.Obj) bool {
	name := call[strings.LastIndex(call, "/")+1:]
	if strings.HasPrefix(name, "fixed-") {
		return false
	}
	for _, o := range existing {
		if verifsim.MetaString(o, "name") == name {
			return false
		}
	}
	return true
}
