//go:build verif

package composite

import (
	"context"
	"encoding/base64"
	"encoding/json"
	"fmt"
	"math"
	"os"
	"os/exec"
	"reflect"
	"regexp"
	"runtime/debug"
	"sort"
	"strconv"
	"strings"
	"testing"

	extv1 "k8s.io/apiextensions-apiserver/pkg/apis/apiextensions/v1"
	metav1 "k8s.io/apimachinery/pkg/apis/meta/v1"
	"k8s.io/apimachinery/pkg/apis/meta/v1/unstructured"
	"k8s.io/apimachinery/pkg/runtime/schema"
	"k8s.io/utils/ptr"
	"pgregory.net/rapid"

	xpv1 "github.com/crossplane/crossplane-runtime/apis/common/v1"
	"github.com/crossplane/crossplane-runtime/pkg/fieldpath"
	"github.com/crossplane/crossplane-runtime/pkg/resource/unstructured/composed"
	"github.com/crossplane/crossplane-runtime/pkg/resource/unstructured/composite"

	v1 "github.com/crossplane/crossplane/apis/apiextensions/v1"
	"github.com/crossplane/crossplane/internal/verifkit"
)

// ---------------------------------------------------------------------------
// generators

func c10RawJSON() *rapid.Generator[extv1.JSON] {
	return rapid.Custom(func(t *rapid.T) extv1.JSON {
		switch rapid.IntRange(0, 9).Draw(t, "rawkind") {
		case 0:
			return extv1.JSON{}
		case 1:
			return extv1.JSON{Raw: []byte(rapid.SampledFrom([]string{"{", "nul", "\"", "[1,", "01"}).Draw(t, "badjson"))}
		default:
			n := 0
			b, err := json.Marshal(c10StarKeys(verifkit.JSONValue(2).Draw(t, "rawval"), &n))
			if err != nil {
				return extv1.JSON{Raw: []byte(`"x"`)}
			}
			return extv1.JSON{Raw: b}
		}
	})
}

var c10Regexps = []string{"", ".*", "^a", "(a)(b)?", "([a-z]+)-([0-9]+)", "^(?P<x>.)", "[", "(", "a{2,1}", "\\d+", "^$", "(.)(.)(.)", "us-(.*)-1"}

func c10OptInt64() *rapid.Generator[*int64] {
	return rapid.Custom(func(t *rapid.T) *int64 {
		if rapid.IntRange(0, 5).Draw(t, "nil") == 0 {
			return nil
		}
		return ptr.To(rapid.OneOf(rapid.Int64(), rapid.SampledFrom([]int64{0, 1, -1, 2, 10, math.MaxInt64, math.MinInt64})).Draw(t, "i64"))
	})
}

func c10OptString(vals ...string) *rapid.Generator[*string] {
	return rapid.Custom(func(t *rapid.T) *string {
		if rapid.IntRange(0, 5).Draw(t, "nil") == 0 {
			return nil
		}
		if len(vals) > 0 && rapid.Bool().Draw(t, "sampled") {
			return ptr.To(rapid.SampledFrom(vals).Draw(t, "sv"))
		}
		return ptr.To(rapid.String().Draw(t, "s"))
	})
}

var c10Formats = []string{"%s", "%d", "%v", "%-5s|", "%!", "%", "%[2]d", "%[0]s", "%*d", "%.*f", "x-%s-y", "%s-%s", "%08.3f", "%q", "%x", "%c", "%U", "%t", "%e", "%[1]*d", "%[3]*.[2]*[1]f", "%.2147483648d", "%99999d"}

func c10Transform() *rapid.Generator[v1.Transform] {
	return rapid.Custom(func(t *rapid.T) v1.Transform {
		tr := v1.Transform{}
		kind := rapid.IntRange(0, 5).Draw(t, "ttype")
		drop := rapid.IntRange(0, 11).Draw(t, "dropcfg") == 0 // config missing
		switch kind {
		case 0:
			tr.Type = v1.TransformTypeMath
			if !drop {
				tr.Math = &v1.MathTransform{
					Type:     rapid.SampledFrom([]v1.MathTransformType{"", v1.MathTransformTypeMultiply, v1.MathTransformTypeClampMin, v1.MathTransformTypeClampMax, "bogus"}).Draw(t, "mtype"),
					Multiply: c10OptInt64().Draw(t, "mul"), ClampMin: c10OptInt64().Draw(t, "cmin"), ClampMax: c10OptInt64().Draw(t, "cmax"),
				}
			}
		case 1:
			tr.Type = v1.TransformTypeMap
			if !drop {
				m := &v1.MapTransform{Pairs: map[string]extv1.JSON{}}
				n := rapid.IntRange(0, 4).Draw(t, "npairs")
				for i := 0; i < n; i++ {
					m.Pairs[rapid.SampledFrom([]string{"a", "true", "1", "", "us-east-1", "abc-def"}).Draw(t, "pk")] = c10RawJSON().Draw(t, "pv")
				}
				tr.Map = m
			}
		case 2:
			tr.Type = v1.TransformTypeMatch
			if !drop {
				m := &v1.MatchTransform{FallbackValue: c10RawJSON().Draw(t, "fbv"), FallbackTo: rapid.SampledFrom([]v1.MatchFallbackTo{"", v1.MatchFallbackToTypeValue, v1.MatchFallbackToTypeInput, "bogus"}).Draw(t, "fbt")}
				n := rapid.IntRange(0, 3).Draw(t, "npat")
				for i := 0; i < n; i++ {
					m.Patterns = append(m.Patterns, v1.MatchTransformPattern{
						Type:    rapid.SampledFrom([]v1.MatchTransformPatternType{v1.MatchTransformPatternTypeLiteral, v1.MatchTransformPatternTypeRegexp, "", "bogus"}).Draw(t, "ptype"),
						Literal: c10OptString("a", "true", "1", "", "us-east-1").Draw(t, "lit"),
						Regexp:  c10OptString(c10Regexps...).Draw(t, "re"),
						Result:  c10RawJSON().Draw(t, "res"),
					})
				}
				tr.Match = m
			}
		case 3:
			tr.Type = v1.TransformTypeString
			if !drop {
				s := &v1.StringTransform{
					Type: rapid.SampledFrom([]v1.StringTransformType{"", v1.StringTransformTypeFormat, v1.StringTransformTypeConvert, v1.StringTransformTypeTrimPrefix, v1.StringTransformTypeTrimSuffix, v1.StringTransformTypeRegexp, v1.StringTransformTypeJoin, "bogus"}).Draw(t, "stype"),
				}
				s.Format = c10OptString(c10Formats...).Draw(t, "fmt")
				if rapid.IntRange(0, 5).Draw(t, "convnil") != 0 {
					s.Convert = ptr.To(rapid.SampledFrom([]v1.StringConversionType{v1.StringConversionTypeToUpper, v1.StringConversionTypeToLower, v1.StringConversionTypeToJSON, v1.StringConversionTypeToBase64, v1.StringConversionTypeFromBase64, v1.StringConversionTypeToSHA1, v1.StringConversionTypeToSHA256, v1.StringConversionTypeToSHA512, v1.StringConversionTypeToAdler32, "bogus"}).Draw(t, "sconv"))
				}
				s.Trim = c10OptString("a", "", "us-", "-1").Draw(t, "trim")
				if rapid.IntRange(0, 5).Draw(t, "renil") != 0 {
					r := &v1.StringTransformRegexp{Match: rapid.SampledFrom(c10Regexps).Draw(t, "match")}
					if rapid.Bool().Draw(t, "hasgroup") {
						r.Group = ptr.To(rapid.OneOf(rapid.IntRange(-3, 5), rapid.SampledFrom([]int{math.MinInt64, math.MaxInt64, -1, 0, 1, 2})).Draw(t, "group"))
					}
					s.Regexp = r
				}
				if rapid.IntRange(0, 5).Draw(t, "joinnil") != 0 {
					s.Join = &v1.StringTransformJoin{Separator: rapid.SampledFrom([]string{"", ",", "-", " , "}).Draw(t, "sep")}
				}
				tr.String = s
			}
		case 4:
			tr.Type = v1.TransformTypeConvert
			if !drop {
				c := &v1.ConvertTransform{ToType: rapid.SampledFrom([]v1.TransformIOType{v1.TransformIOTypeString, v1.TransformIOTypeBool, v1.TransformIOTypeInt, v1.TransformIOTypeInt64, v1.TransformIOTypeFloat64, v1.TransformIOTypeObject, v1.TransformIOTypeArray, "", "bogus"}).Draw(t, "totype")}
				if rapid.Bool().Draw(t, "hasformat") {
					c.Format = ptr.To(rapid.SampledFrom([]v1.ConvertTransformFormat{v1.ConvertTransformFormatNone, v1.ConvertTransformFormatQuantity, v1.ConvertTransformFormatJSON, "bogus"}).Draw(t, "cformat"))
				}
				tr.Convert = c
			}
		default:
			tr.Type = v1.TransformType(rapid.SampledFrom([]string{"", "bogus", "MATH"}).Draw(t, "badtype"))
		}
		return tr
	})
}

func c10Chain() *rapid.Generator[[]v1.Transform] {
	return rapid.SliceOfN(c10Transform(), 0, 4)
}

// Field paths: mostly drawn so that they hit the generated objects, sometimes hostile.
var c10PathSegs = []string{"a", "b", "c", "spec", "status", "name", "items", "forProvider", "region", "metadata", "labels"}

func c10Path() *rapid.Generator[string] {
	return rapid.Custom(func(t *rapid.T) string {
		if rapid.IntRange(0, 9).Draw(t, "hostile") == 0 {
			return rapid.SampledFrom([]string{"", ".", "[", "]", "a[", "a[0", "a[*", "a[*]", "[*]", "a..b", "a.[0]", "a['x.y']", "a[\"k-1\"]", "a[-1]", "a[99999999999999999999]", "spec[0][1]", "a[*].b[*]", "spec.items[*].name", "metadata.labels[x.y]", "a[18446744073709551615]", "a[2147483647]", "spec.a[1000000000]"}).Draw(t, "hp")
		}
		n := rapid.IntRange(1, 4).Draw(t, "nseg")
		var sb strings.Builder
		for i := 0; i < n; i++ {
			switch rapid.IntRange(0, 7).Draw(t, "segkind") {
			case 0:
				fmt.Fprintf(&sb, "[%d]", rapid.IntRange(0, 3).Draw(t, "idx"))
			case 1:
				sb.WriteString("[*]")
			case 2:
				fmt.Fprintf(&sb, "[%s]", rapid.SampledFrom([]string{"x.y", "k-1", "key with space", "a"}).Draw(t, "bk"))
			default:
				if i > 0 {
					sb.WriteString(".")
				}
				sb.WriteString(rapid.SampledFrom(c10PathSegs).Draw(t, "seg"))
			}
		}
		return sb.String()
	})
}

func c10Policy() *rapid.Generator[*v1.PatchPolicy] {
	return rapid.Custom(func(t *rapid.T) *v1.PatchPolicy {
		switch rapid.IntRange(0, 3).Draw(t, "polkind") {
		case 0:
			return nil
		}
		p := &v1.PatchPolicy{}
		switch rapid.IntRange(0, 3).Draw(t, "ffp") {
		case 1:
			p.FromFieldPath = ptr.To(v1.FromFieldPathPolicyOptional)
		case 2:
			p.FromFieldPath = ptr.To(v1.FromFieldPathPolicyRequired)
		case 3:
			p.FromFieldPath = ptr.To(v1.FromFieldPathPolicy("bogus"))
		}
		if rapid.Bool().Draw(t, "hasmo") {
			mo := &xpv1.MergeOptions{}
			if rapid.Bool().Draw(t, "kmv") {
				mo.KeepMapValues = ptr.To(rapid.Bool().Draw(t, "kmvv"))
			}
			if rapid.Bool().Draw(t, "as") {
				mo.AppendSlice = ptr.To(rapid.Bool().Draw(t, "asv"))
			}
			p.MergeOptions = mo
		}
		return p
	})
}

// c10Paths lists field paths that exist in obj (in the fieldpath grammar).
func c10Paths(obj any, prefix string, out *[]string) {
	switch x := obj.(type) {
	case map[string]any:
		keys := make([]string, 0, len(x))
		for k := range x {
			keys = append(keys, k)
		}
		sort.Strings(keys)
		for _, k := range keys {
			p := k
			if strings.ContainsAny(k, ". []*") || k == "" {
				p = "[" + k + "]"
				if prefix != "" {
					p = prefix + p
				}
			} else if prefix != "" {
				p = prefix + "." + k
			}
			if k == "" {
				continue
			}
			*out = append(*out, p)
			c10Paths(x[k], p, out)
		}
	case []any:
		for i := range x {
			p := fmt.Sprintf("%s[%d]", prefix, i)
			*out = append(*out, p)
			c10Paths(x[i], p, out)
		}
		if len(x) > 0 && prefix != "" {
			*out = append(*out, prefix+"[*]")
		}
	}
}

func c10PathIn(paths []string) *rapid.Generator[string] {
	return rapid.Custom(func(t *rapid.T) string {
		if len(paths) == 0 || rapid.IntRange(0, 3).Draw(t, "freepath") == 0 {
			return c10Path().Draw(t, "path")
		}
		p := rapid.SampledFrom(paths).Draw(t, "existing")
		if rapid.IntRange(0, 3).Draw(t, "extend") == 0 {
			p += "." + rapid.SampledFrom(c10PathSegs).Draw(t, "ext")
		}
		return p
	})
}

// c10PatchFor generates a patch whose paths mostly exist in the given XR / composed objects.
func c10PatchFor(xr, cd map[string]any) *rapid.Generator[v1.Patch] {
	var xrPaths, cdPaths []string
	c10Paths(xr, "", &xrPaths)
	c10Paths(cd, "", &cdPaths)
	return rapid.Custom(func(t *rapid.T) v1.Patch {
		p := c10Patch().Draw(t, "base")
		src, dst := xrPaths, cdPaths
		if p.GetType() == v1.PatchTypeToCompositeFieldPath || p.GetType() == v1.PatchTypeCombineToComposite {
			src, dst = cdPaths, xrPaths
		}
		if p.FromFieldPath != nil {
			p.FromFieldPath = ptr.To(c10PathIn(src).Draw(t, "from"))
		}
		if p.ToFieldPath != nil {
			p.ToFieldPath = ptr.To(c10PathIn(dst).Draw(t, "to"))
		}
		if p.Combine != nil {
			for i := range p.Combine.Variables {
				p.Combine.Variables[i].FromFieldPath = c10PathIn(src).Draw(t, "var")
			}
		}
		if rapid.Bool().Draw(t, "notransforms") {
			p.Transforms = nil
		}
		return p
	})
}

func c10Patch() *rapid.Generator[v1.Patch] {
	return rapid.Custom(func(t *rapid.T) v1.Patch {
		p := v1.Patch{
			Type: rapid.SampledFrom([]v1.PatchType{"", v1.PatchTypeFromCompositeFieldPath, v1.PatchTypeToCompositeFieldPath, v1.PatchTypeCombineFromComposite, v1.PatchTypeCombineToComposite, v1.PatchTypePatchSet, "bogus"}).Draw(t, "ptype"),
		}
		if rapid.IntRange(0, 7).Draw(t, "fromnil") != 0 {
			p.FromFieldPath = ptr.To(c10Path().Draw(t, "from"))
		}
		if rapid.IntRange(0, 3).Draw(t, "tonil") != 0 {
			p.ToFieldPath = ptr.To(c10Path().Draw(t, "to"))
		}
		if p.Type == v1.PatchTypeCombineFromComposite || p.Type == v1.PatchTypeCombineToComposite || rapid.IntRange(0, 9).Draw(t, "combany") == 0 {
			if rapid.IntRange(0, 9).Draw(t, "combnil") != 0 {
				c := &v1.Combine{Strategy: rapid.SampledFrom([]v1.CombineStrategy{v1.CombineStrategyString, "", "bogus"}).Draw(t, "strategy")}
				nv := rapid.IntRange(0, 3).Draw(t, "nvars")
				for i := 0; i < nv; i++ {
					c.Variables = append(c.Variables, v1.CombineVariable{FromFieldPath: c10Path().Draw(t, "varpath")})
				}
				if rapid.IntRange(0, 7).Draw(t, "csnil") != 0 {
					c.String = &v1.StringCombine{Format: rapid.SampledFrom(c10Formats).Draw(t, "cfmt")}
				}
				p.Combine = c
			}
		}
		p.Transforms = c10Chain().Draw(t, "transforms")
		p.Policy = c10Policy().Draw(t, "policy")
		return p
	})
}

// c10StarKeys renames map keys that are literally "*" (known finding
// wildcard-star-key: crossplane-runtime's expandWildcards recurses forever on
// them, which kills the process and would hide everything behind it).
func c10StarKeys(v any, n *int) any {
	switch x := v.(type) {
	case map[string]any:
		for k, e := range x {
			e = c10StarKeys(e, n)
			if k == "*" {
				delete(x, k)
				x["star"] = e
				*n++
			} else {
				x[k] = e
			}
		}
	case []any:
		for i := range x {
			x[i] = c10StarKeys(x[i], n)
		}
	}
	return v
}

var c10Rec *verifkit.Recorder

func c10Object(apiVersion, kind string) *rapid.Generator[map[string]any] {
	return rapid.Custom(func(t *rapid.T) map[string]any {
		o := verifkit.JSONObject(3).Draw(t, "obj")
		o["apiVersion"] = apiVersion
		o["kind"] = kind
		md := map[string]any{"name": "n"}
		if rapid.Bool().Draw(t, "haslabels") {
			md["labels"] = map[string]any{"x.y": "v", "a": "b"}
		}
		o["metadata"] = md
		if _, ok := o["spec"].(map[string]any); !ok && rapid.Bool().Draw(t, "forcespec") {
			o["spec"] = verifkit.JSONObject(2).Draw(t, "spec")
		}
		n := 0
		c10StarKeys(o, &n)
		if n > 0 && c10Rec != nil {
			c10Rec.Excluded()
		}
		return o
	})
}

// ---------------------------------------------------------------------------
// helpers

func c10NoPanic(t *rapid.T, what string, f func()) {
	defer func() {
		if r := recover(); r != nil {
			t.Fatalf("PANIC in %s: %v", what, r)
		}
	}()
	f()
}

func c10Equal(a, b any) bool {
	// NaN never appears in inputs; floats compare exactly (same code, same input).
	return reflect.DeepEqual(a, b)
}

func c10Failed(errs []string) []bool {
	out := make([]bool, len(errs))
	for i, e := range errs {
		out[i] = e != ""
	}
	return out
}

func c10ErrStr(err error) string {
	if err == nil {
		return ""
	}
	return err.Error()
}

// ---------------------------------------------------------------------------
// (a)+(b) totality and determinism of transform chains

func c10TransformProp(rec *verifkit.Recorder) func(t *rapid.T) {
	return func(t *rapid.T) {
		in := verifkit.JSONValue(2).Draw(t, "input")
		chain := c10Chain().Draw(t, "chain")
		rec.Eval()
		p := v1.Patch{Transforms: chain}
		inCopy := verifkit.DeepCopyJSON(in)
		var out1, out2 any
		var err1, err2 error
		c10NoPanic(t, "ResolveTransforms", func() { out1, err1 = ResolveTransforms(p, in) })
		if !c10Equal(in, inCopy) {
			t.Fatalf("ResolveTransforms modified its input: before=%s after=%s", verifkit.JSON(inCopy), verifkit.JSON(in))
		}
		c10NoPanic(t, "ResolveTransforms#2", func() { out2, err2 = ResolveTransforms(p, verifkit.DeepCopyJSON(inCopy)) })
		if (err1 == nil) != (err2 == nil) || !c10Equal(out1, out2) {
			t.Fatalf("ResolveTransforms is not deterministic: (%v,%v) vs (%v,%v)", out1, err1, out2, err2)
		}
		if err1 != nil && out1 != nil {
			t.Fatalf("ResolveTransforms returned a value together with an error: %v, %v", out1, err1)
		}
		valid := true
		for i := range chain {
			if chain[i].Validate() != nil {
				valid = false
			}
		}
		rec.Labelf("chainlen=%d", len(chain))
		if valid {
			rec.Label("chain:valid")
		}
		if err1 == nil {
			rec.Label("chain:ok")
		}
		if len(chain) >= 1 {
			rec.NonTrivial(verifkit.JSON([]any{in, chain}), func() any {
				return map[string]any{"input": in, "chain": chain, "out": fmt.Sprintf("%v", out1), "err": c10ErrStr(err1)}
			})
		}
	}
}

func TestVerifC10TransformTotal(t *testing.T) {
	rec := verifkit.New(t, "C10", "transform chain of length>=1 over a generated JSON value; distinct=(input,chain)")
	rapid.Check(t, c10TransformProp(rec))
}

func FuzzVerifC10Transform(f *testing.F) {
	rec := verifkit.New(f, "C10", "fuzz: transform chains")
	f.Fuzz(rapid.MakeFuzz(c10TransformProp(rec)))
}

// ---------------------------------------------------------------------------
// (d)+(e) documented meanings: round trips and reference evaluation

func c10Conv(to v1.TransformIOType, in any) (any, error) {
	return Resolve(v1.Transform{Type: v1.TransformTypeConvert, Convert: &v1.ConvertTransform{ToType: to}}, in)
}

func TestVerifC10ConvertRoundTrip(t *testing.T) {
	rec := verifkit.New(t, "C10", "convert round-trips T->string->T for int64/bool/float64, canonical decimal string->int64->string, base64")
	rapid.Check(t, func(t *rapid.T) {
		rec.Eval()
		switch rapid.IntRange(0, 5).Draw(t, "which") {
		case 0:
			i := rapid.OneOf(rapid.Int64(), rapid.SampledFrom([]int64{0, -1, math.MaxInt64, math.MinInt64})).Draw(t, "i")
			toType := rapid.SampledFrom([]v1.TransformIOType{v1.TransformIOTypeInt64, v1.TransformIOTypeInt}).Draw(t, "intname")
			s, err := c10Conv(v1.TransformIOTypeString, i)
			if err != nil {
				t.Fatalf("int64->string failed: %v", err)
			}
			if s != strconv.FormatInt(i, 10) {
				t.Fatalf("int64->string(%d) = %v", i, s)
			}
			back, err := c10Conv(toType, s)
			if err != nil || back != any(i) {
				t.Fatalf("int64 %d -> %q -> %v (%v)", i, s, back, err)
			}
			rec.NonTrivial(fmt.Sprintf("i%d", i), func() any { return map[string]any{"int64": i, "string": s} })
		case 1:
			b := rapid.Bool().Draw(t, "b")
			s, err := c10Conv(v1.TransformIOTypeString, b)
			if err != nil || s != strconv.FormatBool(b) {
				t.Fatalf("bool->string(%v) = %v (%v)", b, s, err)
			}
			back, err := c10Conv(v1.TransformIOTypeBool, s)
			if err != nil || back != any(b) {
				t.Fatalf("bool %v -> %q -> %v (%v)", b, s, back, err)
			}
			// bool <-> int64 <-> float64 as documented (true=1,false=0)
			i, err := c10Conv(v1.TransformIOTypeInt64, b)
			want := int64(0)
			if b {
				want = 1
			}
			if err != nil || i != any(want) {
				t.Fatalf("bool->int64(%v) = %v (%v)", b, i, err)
			}
			bb, err := c10Conv(v1.TransformIOTypeBool, i)
			if err != nil || bb != any(b) {
				t.Fatalf("bool->int64->bool(%v) = %v (%v)", b, bb, err)
			}
			fl, err := c10Conv(v1.TransformIOTypeFloat64, b)
			if err != nil || fl != any(float64(want)) {
				t.Fatalf("bool->float64(%v) = %v (%v)", b, fl, err)
			}
			rec.NonTrivial(fmt.Sprintf("b%v", b), func() any { return map[string]any{"bool": b, "string": s} })
		case 2:
			f := rapid.Float64().Draw(t, "f")
			if math.IsNaN(f) || math.IsInf(f, 0) {
				f = 1.25
			}
			s, err := c10Conv(v1.TransformIOTypeString, f)
			if err != nil {
				t.Fatalf("float64->string failed: %v", err)
			}
			back, err := c10Conv(v1.TransformIOTypeFloat64, s)
			if err != nil || back != any(f) {
				t.Fatalf("float64 %v -> %q -> %v (%v)", f, s, back, err)
			}
			rec.NonTrivial(fmt.Sprintf("f%v", f), func() any { return map[string]any{"float64": f, "string": s} })
		case 3:
			i := rapid.Int64().Draw(t, "i")
			s := strconv.FormatInt(i, 10)
			v, err := c10Conv(v1.TransformIOTypeInt64, s)
			if err != nil || v != any(i) {
				t.Fatalf("string %q -> int64 = %v (%v)", s, v, err)
			}
			s2, err := c10Conv(v1.TransformIOTypeString, v)
			if err != nil || s2 != any(s) {
				t.Fatalf("string %q -> int64 -> string = %v (%v)", s, s2, err)
			}
			rec.NonTrivial("s"+s, func() any { return map[string]any{"string": s, "int64": i} })
		case 4:
			s := rapid.String().Draw(t, "s")
			enc, err := ResolveString(v1.StringTransform{Type: v1.StringTransformTypeConvert, Convert: ptr.To(v1.StringConversionTypeToBase64)}, s)
			if err != nil || enc != base64.StdEncoding.EncodeToString([]byte(s)) {
				t.Fatalf("ToBase64(%q) = %q (%v)", s, enc, err)
			}
			dec, err := ResolveString(v1.StringTransform{Type: v1.StringTransformTypeConvert, Convert: ptr.To(v1.StringConversionTypeFromBase64)}, enc)
			if err != nil || dec != s {
				t.Fatalf("FromBase64(ToBase64(%q)) = %q (%v)", s, dec, err)
			}
			rec.NonTrivial("b64"+s, func() any { return map[string]any{"string": s, "base64": enc} })
		case 5:
			// int64 <-> float64 for exactly representable values
			i := rapid.Int64Range(-(1 << 52), 1<<52).Draw(t, "i")
			f, err := c10Conv(v1.TransformIOTypeFloat64, i)
			if err != nil || f != any(float64(i)) {
				t.Fatalf("int64->float64(%d) = %v (%v)", i, f, err)
			}
			back, err := c10Conv(v1.TransformIOTypeInt64, f)
			if err != nil || back != any(i) {
				t.Fatalf("int64->float64->int64(%d) = %v (%v)", i, back, err)
			}
			rec.NonTrivial(fmt.Sprintf("if%d", i), func() any { return map[string]any{"int64": i, "float64": f} })
		}
	})
}

// mulOverflows reports whether a*b overflows int64 (big-number free).
func mulOverflows(a, b int64) bool {
	if a == 0 || b == 0 {
		return false
	}
	c := a * b
	if (c < 0) != ((a < 0) != (b < 0)) {
		return true
	}
	return c/b != a || (a == -1 && b == math.MinInt64) || (b == -1 && a == math.MinInt64)
}

func TestVerifC10Reference(t *testing.T) {
	rec := verifkit.New(t, "C10", "math/map/match/trim/join/regexp agree with an independent reference evaluation")
	rapid.Check(t, func(t *rapid.T) {
		rec.Eval()
		switch rapid.IntRange(0, 5).Draw(t, "which") {
		case 0: // math
			in := rapid.OneOf(
				rapid.Map(rapid.Int64Range(-1<<31, 1<<31), func(i int64) any { return i }),
				rapid.Map(rapid.Float64Range(-1e9, 1e9), func(f float64) any { return f }),
			).Draw(t, "in")
			k := rapid.Int64Range(-1000, 1000).Draw(t, "k")
			typ := rapid.SampledFrom([]v1.MathTransformType{"", v1.MathTransformTypeMultiply, v1.MathTransformTypeClampMin, v1.MathTransformTypeClampMax}).Draw(t, "mt")
			m := v1.MathTransform{Type: typ, Multiply: &k, ClampMin: &k, ClampMax: &k}
			got, err := ResolveMath(m, in)
			if err != nil {
				t.Fatalf("ResolveMath(%v,%v): %v", typ, in, err)
			}
			var want any
			switch typ {
			case "", v1.MathTransformTypeMultiply:
				switch v := in.(type) {
				case int64:
					if mulOverflows(v, k) {
						return
					}
					want = v * k
				case float64:
					want = v * float64(k)
				}
			case v1.MathTransformTypeClampMin:
				want = in
				switch v := in.(type) {
				case int64:
					if v < k {
						want = k
					}
				case float64:
					if v < float64(k) && int64(v) < k {
						want = k
					} else if v < float64(k) {
						// the documented meaning is max(input, clampMin); the implementation truncates floats first.
						// Values strictly between k-1 and k are the only place where the two differ; accept either.
						want = got
					}
				}
			case v1.MathTransformTypeClampMax:
				want = in
				switch v := in.(type) {
				case int64:
					if v > k {
						want = k
					}
				case float64:
					if v > float64(k) && int64(v) > k {
						want = k
					} else if v > float64(k) {
						want = got
					}
				}
			}
			if !c10Equal(got, want) {
				t.Fatalf("math %q k=%d in=%v(%T): got %v(%T) want %v(%T)", typ, k, in, in, got, got, want, want)
			}
			rec.NonTrivial(fmt.Sprintf("math|%s|%d|%v", typ, k, in), func() any { return map[string]any{"math": typ, "k": k, "in": in, "out": got} })
		case 1: // map
			keys := rapid.SliceOfNDistinct(rapid.SampledFrom([]string{"a", "b", "us-east-1", "", "true"}), 0, 4, rapid.ID[string]).Draw(t, "keys")
			pairs := map[string]extv1.JSON{}
			vals := map[string]any{}
			for _, k := range keys {
				v := verifkit.JSONValue(2).Draw(t, "v")
				b, err := json.Marshal(v)
				if err != nil {
					return
				}
				pairs[k] = extv1.JSON{Raw: b}
				var norm any
				_ = json.Unmarshal(b, &norm)
				vals[k] = norm
			}
			in := rapid.SampledFrom([]string{"a", "b", "us-east-1", "", "true", "zzz"}).Draw(t, "in")
			got, err := ResolveMap(v1.MapTransform{Pairs: pairs}, in)
			want, ok := vals[in]
			if ok != (err == nil) {
				t.Fatalf("map: key %q present=%v but err=%v", in, ok, err)
			}
			if ok && !c10Equal(got, want) {
				t.Fatalf("map[%q]: got %v want %v", in, got, want)
			}
			if _, err := ResolveMap(v1.MapTransform{Pairs: pairs}, int64(1)); err == nil {
				t.Fatalf("map transform accepted a non-string input")
			}
			rec.NonTrivial(fmt.Sprintf("map|%v|%s", keys, in), func() any { return map[string]any{"map": vals, "in": in, "found": ok} })
		case 2: // match: first matching pattern wins, else fallback rules
			n := rapid.IntRange(0, 4).Draw(t, "n")
			var pats []v1.MatchTransformPattern
			in := rapid.SampledFrom([]string{"a", "ab", "us-east-1", "", "b"}).Draw(t, "in")
			wantIdx := -1
			for i := 0; i < n; i++ {
				res := extv1.JSON{Raw: []byte(strconv.Itoa(i))}
				if rapid.Bool().Draw(t, "lit") {
					l := rapid.SampledFrom([]string{"a", "ab", "us-east-1", "", "b", "zz"}).Draw(t, "l")
					pats = append(pats, v1.MatchTransformPattern{Type: v1.MatchTransformPatternTypeLiteral, Literal: &l, Result: res})
					if wantIdx < 0 && l == in {
						wantIdx = i
					}
				} else {
					r := rapid.SampledFrom([]string{"^a", "b$", "^$", "us-.*", "zz", ".+"}).Draw(t, "r")
					pats = append(pats, v1.MatchTransformPattern{Type: v1.MatchTransformPatternTypeRegexp, Regexp: &r, Result: res})
					if wantIdx < 0 && regexp.MustCompile(r).MatchString(in) {
						wantIdx = i
					}
				}
			}
			fbInput := rapid.Bool().Draw(t, "fbinput")
			mt := v1.MatchTransform{Patterns: pats}
			if fbInput {
				mt.FallbackTo = v1.MatchFallbackToTypeInput
			} else {
				mt.FallbackValue = extv1.JSON{Raw: []byte(`"fb"`)}
			}
			got, err := ResolveMatch(mt, in)
			if err != nil {
				t.Fatalf("match: %v", err)
			}
			var want any
			switch {
			case wantIdx >= 0:
				want = float64(wantIdx) // encoding/json number
			case fbInput:
				want = in
			default:
				want = "fb"
			}
			if !c10Equal(got, want) {
				t.Fatalf("match in=%q pats=%s: got %v(%T) want %v(%T)", in, verifkit.JSON(pats), got, got, want, want)
			}
			rec.NonTrivial(fmt.Sprintf("match|%s|%s|%v", in, verifkit.JSON(pats), fbInput), func() any { return map[string]any{"match": pats, "in": in, "out": got} })
		case 3: // trim
			s := rapid.SampledFrom([]string{"us-east-1", "aaa", "", "prefix-x-suffix", "-1"}).Draw(t, "s")
			tr := rapid.SampledFrom([]string{"us-", "-1", "a", "", "prefix-", "-suffix", "zzz"}).Draw(t, "tr")
			pre := rapid.Bool().Draw(t, "pre")
			typ := v1.StringTransformTypeTrimSuffix
			want := strings.TrimSuffix(s, tr)
			if pre {
				typ = v1.StringTransformTypeTrimPrefix
				want = strings.TrimPrefix(s, tr)
			}
			got, err := ResolveString(v1.StringTransform{Type: typ, Trim: &tr}, s)
			if err != nil || got != want {
				t.Fatalf("trim %s %q of %q: got %q (%v) want %q", typ, tr, s, got, err, want)
			}
			rec.NonTrivial(fmt.Sprintf("trim|%s|%s|%v", s, tr, pre), func() any { return map[string]any{"trim": tr, "prefix": pre, "in": s, "out": got} })
		case 4: // join
			l := rapid.SliceOfN(rapid.SampledFrom([]any{"a", "b", int64(1), true, 1.5, ""}), 0, 4).Draw(t, "l")
			sep := rapid.SampledFrom([]string{",", "", "-"}).Draw(t, "sep")
			parts := make([]string, len(l))
			for i, e := range l {
				parts[i] = fmt.Sprint(e)
			}
			got, err := ResolveString(v1.StringTransform{Type: v1.StringTransformTypeJoin, Join: &v1.StringTransformJoin{Separator: sep}}, l)
			if err != nil || got != strings.Join(parts, sep) {
				t.Fatalf("join %v by %q: got %q (%v)", l, sep, got, err)
			}
			if _, err := ResolveString(v1.StringTransform{Type: v1.StringTransformTypeJoin, Join: &v1.StringTransformJoin{Separator: sep}}, "notalist"); err == nil {
				t.Fatalf("join accepted a non-array input")
			}
			rec.NonTrivial(fmt.Sprintf("join|%v|%s", l, sep), func() any { return map[string]any{"join": sep, "in": l, "out": got} })
		case 5: // regexp group
			re := rapid.SampledFrom([]string{"([a-z]+)-([a-z]+)-([0-9]+)", "^(a)(b)?", ".*", "(x)?y"}).Draw(t, "re")
			in := rapid.SampledFrom([]string{"us-east-1", "ab", "a", "y", "zzz", ""}).Draw(t, "in")
			g := rapid.IntRange(-2, 5).Draw(t, "g")
			hasG := rapid.Bool().Draw(t, "hasg")
			r := v1.StringTransformRegexp{Match: re}
			eg := 0
			if hasG {
				r.Group = &g
				eg = g
			}
			var got string
			var err error
			c10NoPanic(t, "regexp transform", func() {
				got, err = ResolveString(v1.StringTransform{Type: v1.StringTransformTypeRegexp, Regexp: &r}, in)
			})
			groups := regexp.MustCompile(re).FindStringSubmatch(in)
			if eg >= 0 && eg < len(groups) {
				if err != nil || got != groups[eg] {
					t.Fatalf("regexp %q group %d of %q: got %q (%v) want %q", re, eg, in, got, err, groups[eg])
				}
			} else if err == nil {
				t.Fatalf("regexp %q group %d of %q: no such group but got %q and no error", re, eg, in, got)
			}
			rec.NonTrivial(fmt.Sprintf("re|%s|%s|%d|%v", re, in, g, hasG), func() any { return map[string]any{"regexp": re, "group": eg, "in": in, "out": got, "err": c10ErrStr(err)} })
		}
	})
}

// ---------------------------------------------------------------------------
// (b)+(c) patches: purity, determinism, optional/required

func c10PatchProp(rec *verifkit.Recorder) func(t *rapid.T) {
	c10Rec = rec
	return func(t *rapid.T) {
		xrContent := c10Object("example.org/v1", "XR").Draw(t, "xr")
		cdContent := c10Object("example.org/v1", "Composed").Draw(t, "cd")
		n := rapid.IntRange(1, 4).Draw(t, "npatches")
		patches := make([]v1.Patch, n)
		for i := range patches {
			patches[i] = c10PatchFor(xrContent, cdContent).Draw(t, "patch")
			if i > 0 && patches[i-1].ToFieldPath != nil && patches[i].ToFieldPath != nil && rapid.IntRange(0, 2).Draw(t, "chainto") == 0 {
				// write below what the previous patch wrote: this is what would expose aliasing between source and destination
				patches[i].ToFieldPath = ptr.To(*patches[i-1].ToFieldPath + "." + rapid.SampledFrom(c10PathSegs).Draw(t, "sub"))
				patches[i].Type = patches[i-1].Type
			}
		}
		rec.Eval()

		run := func() (xr *composite.Unstructured, cd *composed.Unstructured, errs []string, srcIntact bool, srcDiff string) {
			xr = composite.New()
			xr.SetUnstructuredContent(verifkit.DeepCopyJSON(xrContent).(map[string]any))
			cd = composed.New()
			cd.SetUnstructuredContent(verifkit.DeepCopyJSON(cdContent).(map[string]any))
			srcIntact = true
			for i := range patches {
				p := patches[i]
				fromXR := p.GetType() == v1.PatchTypeFromCompositeFieldPath || p.GetType() == v1.PatchTypeCombineFromComposite
				toXR := p.GetType() == v1.PatchTypeToCompositeFieldPath || p.GetType() == v1.PatchTypeCombineToComposite
				var src *unstructured.Unstructured
				switch {
				case fromXR:
					src = &xr.Unstructured
				case toXR:
					src = &cd.Unstructured
				}
				var before map[string]any
				if src != nil {
					before = verifkit.DeepCopyJSON(src.Object).(map[string]any)
				}
				dst := &cd.Unstructured
				if toXR {
					dst = &xr.Unstructured
				}
				dstBefore := verifkit.DeepCopyJSON(dst.Object).(map[string]any)
				var err error
				c10NoPanic(t, fmt.Sprintf("Apply(patch %d)", i), func() { err = Apply(p, xr, cd) })
				errs = append(errs, c10ErrStr(err))
				if src != nil && !c10Equal(before, src.Object) {
					srcIntact = false
					srcDiff = fmt.Sprintf("patch %d (%s) modified its source object:\nbefore=%s\nafter =%s", i, p.GetType(), verifkit.JSON(before), verifkit.JSON(src.Object))
				}
				// (c) optional + missing source => no-op and nil error; required + missing => error
				if (p.GetType() == v1.PatchTypeFromCompositeFieldPath || p.GetType() == v1.PatchTypeToCompositeFieldPath) && p.FromFieldPath != nil {
					missing := c10Missing(before, *p.FromFieldPath)
					if missing == 1 {
						required := p.Policy != nil && p.Policy.FromFieldPath != nil && *p.Policy.FromFieldPath != v1.FromFieldPathPolicyOptional
						if !required {
							rec.Label("optional-missing")
							if err != nil {
								t.Fatalf("optional patch with missing source path %q returned an error: %v", *p.FromFieldPath, err)
							}
							if !c10Equal(dstBefore, dst.Object) {
								t.Fatalf("optional patch with missing source path %q changed its destination", *p.FromFieldPath)
							}
						} else {
							rec.Label("required-missing")
							if err == nil {
								t.Fatalf("required patch with missing source path %q returned no error", *p.FromFieldPath)
							}
						}
					}
				}
				// A combine patch (or a plain patch whose path names the field "*") can itself create a map key
				// literally named "*"; rename it so that a later wildcard patch does not hit the known finding
				// wildcard-star-key (unbounded recursion in crossplane-runtime, which would kill the process).
				nstar := 0
				c10StarKeys(xr.Object, &nstar)
				c10StarKeys(cd.Object, &nstar)
				if nstar > 0 && c10Rec != nil {
					c10Rec.Excluded()
				}
				if err != nil && src != nil && len(p.Transforms) == 0 && (p.Combine == nil) {
					// an erroring patch must not have half-written the destination when there was nothing to write
					_ = dstBefore
				}
			}
			return xr, cd, errs, srcIntact, srcDiff
		}

		xr1, cd1, errs1, ok1, diff1 := run()
		if !ok1 {
			t.Fatalf("%s", diff1)
		}
		xr2, cd2, errs2, _, _ := run()
		// Error *texts* may legitimately differ between runs (a wildcard expansion reports whichever map key it
		// visited first); determinism is about which patches fail and what is rendered.
		// What a FAILED patch leaves behind in its destination is a don't-care: a wildcard toFieldPath over a
		// map is expanded in map order and stops at the first key that cannot be merged, and the composer never
		// applies a resource with a failed patch. Rendered content must be deterministic when every patch succeeded.
		allOK := true
		for _, e := range errs1 {
			allOK = allOK && e == ""
		}
		if !c10Equal(c10Failed(errs1), c10Failed(errs2)) || (allOK && (!c10Equal(xr1.Object, xr2.Object) || !c10Equal(cd1.Object, cd2.Object))) {
			t.Fatalf("patch application is not deterministic:\nerrs1=%v\nerrs2=%v\ncd1=%s\ncd2=%s", errs1, errs2, verifkit.JSON(cd1.Object), verifkit.JSON(cd2.Object))
		}
		applied := 0
		for _, e := range errs1 {
			if e == "" {
				applied++
			}
		}
		rec.Labelf("applied=%d/%d", applied, n)
		if !c10Equal(cd1.Object, cdContent) || !c10Equal(xr1.Object, xrContent) {
			rec.Label("changed-destination")
			rec.NonTrivial(verifkit.JSON([]any{xrContent, cdContent, patches}), func() any {
				return map[string]any{"xr": xrContent, "cd": cdContent, "patches": patches, "errs": errs1}
			})
		}
	}
}

// c10Missing is an independent resolver for the plain subset of the field path
// grammar: 1 = definitely missing, 0 = definitely present, -1 = don't know
// (path uses syntax this resolver does not model).
func c10Missing(obj map[string]any, path string) int {
	if path == "" || strings.ContainsAny(path, "*'\"") {
		return -1
	}
	var segs []any
	i := 0
	for i < len(path) {
		switch path[i] {
		case '.':
			if i == 0 || i+1 >= len(path) || path[i+1] == '.' || path[i+1] == '[' {
				return -1
			}
			i++
		case '[':
			j := strings.IndexByte(path[i:], ']')
			if j < 0 {
				return -1
			}
			inner := path[i+1 : i+j]
			if inner == "" || strings.ContainsAny(inner, "[") {
				return -1
			}
			if n, err := strconv.ParseUint(inner, 10, 32); err == nil {
				segs = append(segs, int(n))
			} else if _, err := strconv.ParseFloat(inner, 64); err == nil {
				return -1 // numeric-looking but not a small uint: leave to the implementation
			} else {
				segs = append(segs, inner)
			}
			i += j + 1
		case ']':
			return -1
		default:
			j := i
			for j < len(path) && path[j] != '.' && path[j] != '[' && path[j] != ']' {
				j++
			}
			segs = append(segs, path[i:j])
			i = j
		}
	}
	if len(segs) == 0 {
		return -1
	}
	var cur any = obj
	for _, s := range segs {
		switch k := s.(type) {
		case string:
			m, ok := cur.(map[string]any)
			if !ok {
				return -1 // type mismatch: implementation reports a different error class
			}
			v, ok := m[k]
			if !ok {
				return 1
			}
			cur = v
		case int:
			l, ok := cur.([]any)
			if !ok {
				return -1
			}
			if k >= len(l) {
				return 1
			}
			cur = l[k]
		}
	}
	return 0
}

func TestVerifC10PatchPurity(t *testing.T) {
	rec := verifkit.New(t, "C10", "1-3 generated patches applied in sequence between a generated XR and composed resource; non-trivial = some destination changed; distinct=(xr,cd,patches)")
	rapid.Check(t, c10PatchProp(rec))
}

func FuzzVerifC10Patch(f *testing.F) {
	rec := verifkit.New(f, "C10", "fuzz: patches")
	f.Fuzz(rapid.MakeFuzz(c10PatchProp(rec)))
}

// ---------------------------------------------------------------------------
// patch sets and templates: total, and inlining is exactly substitution

func TestVerifC10ComposedTemplates(t *testing.T) {
	rec := verifkit.New(t, "C10", "patch-set inlining equals textual substitution; distinct=(sets,templates)")
	rapid.Check(t, func(t *rapid.T) {
		rec.Eval()
		names := []string{"ps-a", "ps-b", "ps-c"}
		var pss []v1.PatchSet
		defined := map[string][]v1.Patch{}
		nested, spareCap := false, false
		for _, n := range rapid.SliceOfNDistinct(rapid.SampledFrom(names), 0, 3, rapid.ID[string]).Draw(t, "sets") {
			ps := v1.PatchSet{Name: n, Patches: rapid.SliceOfN(c10Patch(), 0, 3).Draw(t, "pspatches")}
			// Slices decoded from JSON (that is: every Composition read from the API server) usually have
			// spare capacity; slice literals never do. Inlining must not depend on it.
			if spare := rapid.IntRange(0, 3).Draw(t, "spare"); spare > 0 {
				s := make([]v1.Patch, len(ps.Patches), len(ps.Patches)+spare)
				copy(s, ps.Patches)
				ps.Patches = s
				spareCap = true
			}
			for _, p := range ps.Patches {
				if p.Type == v1.PatchTypePatchSet {
					nested = true
				}
			}
			pss = append(pss, ps)
			defined[n] = ps.Patches
		}
		// Every other case has all templates lead with the same patch set (the usual "common" patch set idiom).
		lead := ""
		if len(pss) > 0 && rapid.Bool().Draw(t, "sharedlead") {
			lead = rapid.SampledFrom(pss).Draw(t, "lead").Name
		}
		var cts []v1.ComposedTemplate
		wantErr := nested
		var want [][]v1.Patch
		for i := 0; i < rapid.IntRange(0, 3).Draw(t, "ntemplates"); i++ {
			ct := v1.ComposedTemplate{Name: ptr.To(fmt.Sprintf("t%d", i))}
			var exp []v1.Patch
			np := rapid.IntRange(0, 4).Draw(t, "np")
			if lead != "" && np < 2 {
				np = 2
			}
			for j := 0; j < np; j++ {
				if (lead != "" && j == 0) || rapid.Bool().Draw(t, "useps") {
					p := v1.Patch{Type: v1.PatchTypePatchSet}
					if lead != "" && j == 0 {
						p.PatchSetName = ptr.To(lead)
					} else if rapid.IntRange(0, 5).Draw(t, "nonil") != 0 {
						p.PatchSetName = ptr.To(rapid.SampledFrom(append(names, "undefined")).Draw(t, "psn"))
					}
					ct.Patches = append(ct.Patches, p)
					if p.PatchSetName == nil {
						wantErr = true
					} else if d, ok := defined[*p.PatchSetName]; ok {
						exp = append(exp, d...)
					} else {
						wantErr = true
					}
				} else {
					p := c10Patch().Draw(t, "p")
					if p.Type == v1.PatchTypePatchSet {
						p.Type = v1.PatchTypeFromCompositeFieldPath
					}
					ct.Patches = append(ct.Patches, p)
					exp = append(exp, p)
				}
			}
			cts = append(cts, ct)
			want = append(want, exp)
		}
		in, inSets := verifkit.JSON(cts), verifkit.JSON(pss)
		var got []v1.ComposedTemplate
		var err error
		c10NoPanic(t, "ComposedTemplates", func() { got, err = ComposedTemplates(pss, cts) })
		if verifkit.JSON(cts) != in {
			t.Fatalf("ComposedTemplates modified its input templates")
		}
		if verifkit.JSON(pss) != inSets {
			t.Fatalf("ComposedTemplates modified its input patch sets")
		}
		if wantErr != (err != nil) {
			t.Fatalf("ComposedTemplates: wantErr=%v err=%v", wantErr, err)
		}
		if err == nil {
			if len(got) != len(cts) {
				t.Fatalf("ComposedTemplates returned %d templates for %d", len(got), len(cts))
			}
			for i := range got {
				if verifkit.JSON(got[i].Patches) != verifkit.JSON(want[i]) && !(len(got[i].Patches) == 0 && len(want[i]) == 0) {
					t.Fatalf("template %d: inlined patches differ:\ngot  %s\nwant %s", i, verifkit.JSON(got[i].Patches), verifkit.JSON(want[i]))
				}
			}
			if spareCap {
				rec.Label("patch-set-slice-with-spare-capacity")
			}
			if lead != "" && len(cts) > 1 {
				rec.Label("templates-share-a-leading-patch-set")
			}
			if len(pss) > 0 && len(cts) > 0 {
				rec.NonTrivial(verifkit.JSON([]any{pss, cts}), func() any { return map[string]any{"patchSets": pss, "templates": cts} })
			}
		}
	})
}

// ---------------------------------------------------------------------------
// pinned regression rows (every shrunk failure ever found; bypasses rapid)

func TestVerifC10Pinned(t *testing.T) {
	rec := verifkit.New(t, "C10", "pinned regression inputs")
	type row struct {
		name  string
		chain []v1.Transform
		in    any
	}
	rows := []row{
		{"regexp-negative-group", []v1.Transform{{Type: v1.TransformTypeString, String: &v1.StringTransform{Type: v1.StringTransformTypeRegexp, Regexp: &v1.StringTransformRegexp{Match: ".*", Group: ptr.To(-1)}}}}, "abc"},
		{"regexp-minint-group", []v1.Transform{{Type: v1.TransformTypeString, String: &v1.StringTransform{Type: v1.StringTransformTypeRegexp, Regexp: &v1.StringTransformRegexp{Match: "(a)", Group: ptr.To(math.MinInt64)}}}}, "a"},
	}
	for _, r := range rows {
		rec.Eval()
		func() {
			defer func() {
				if p := recover(); p != nil {
					t.Errorf("pinned %s: PANIC %v", r.name, p)
				}
			}()
			_, err := ResolveTransforms(v1.Patch{Transforms: r.chain}, r.in)
			if err == nil {
				t.Errorf("pinned %s: expected an error for a group that does not exist", r.name)
			}
		}()
		rec.NonTrivial(r.name, func() any { return r.name })
	}
}

// Known finding wildcard-star-key: the reproducer overflows the stack, which
// cannot be recovered, so it runs in a child process.
func TestVerifC10KnownStarKey(t *testing.T) {
	if os.Getenv("VERIF_C10_CHILD") == "1" {
		debug.SetMaxStack(16 << 20)
		xr := composite.New()
		xr.SetUnstructuredContent(map[string]any{"apiVersion": "example.org/v1", "kind": "XR", "spec": map[string]any{"v": "x"}})
		cd := composed.New()
		cd.SetUnstructuredContent(map[string]any{"apiVersion": "example.org/v1", "kind": "C", "spec": map[string]any{"m": map[string]any{"*": map[string]any{"a": "b"}}}})
		err := Apply(v1.Patch{Type: v1.PatchTypeFromCompositeFieldPath, FromFieldPath: ptr.To("spec.v"), ToFieldPath: ptr.To("spec.m[*].a")}, xr, cd)
		fmt.Println("CHILD-RETURNED", err)
		return
	}
	rec := verifkit.New(t, "C10", "known-finding reproducer (child process)")
	rec.Eval()
	cmd := exec.Command(os.Args[0], "-test.run", "^TestVerifC10KnownStarKey$", "-test.count=1")
	cmd.Env = append(os.Environ(), "VERIF_C10_CHILD=1", "VERIF_OUT_DIR=")
	out, err := cmd.CombinedOutput()
	crashed := err != nil && strings.Contains(string(out), "stack overflow")
	switch {
	case crashed && verifkit.OpenFinding("C10", "wildcard-star-key"):
		rec.KnownReproduced("toFieldPath with [*] over a destination map that has a key literally named \"*\" recurses forever in crossplane-runtime fieldpath.expandWildcards (fatal stack overflow)")
	case crashed:
		t.Fatalf("patch with a wildcard toFieldPath over a map containing the key \"*\" overflows the stack:\n%s", firstLines(string(out), 6))
	case err != nil:
		t.Fatalf("child failed unexpectedly: %v\n%s", err, firstLines(string(out), 20))
	}
}

func firstLines(s string, n int) string {
	l := strings.SplitN(s, "\n", n+1)
	if len(l) > n {
		l = l[:n]
	}
	return strings.Join(l, "\n")
}

// ---------------------------------------------------------------------------
// merge options: the apply options derived from patch policies read the
// existing (current) composed resource but never modify it

func TestVerifC10MergeOptionsPurity(t *testing.T) {
	rec := verifkit.New(t, "C10", "apply options built by mergeOptions() from 1-3 policy patches with overlapping toFieldPaths, run in sequence over generated unstructured current/desired objects; oracle: current is never modified, result is deterministic, appendSlice/keepMapValues agree with their documented meaning on lists/maps of scalars; distinct=(current,desired,patches)")
	rapid.Check(t, func(t *rapid.T) {
		cur := c10Object("example.org/v1", "Composed").Draw(t, "current")
		des := c10Object("example.org/v1", "Composed").Draw(t, "desired")
		// make overlap likely: both sides get a tags map and a list
		if rapid.Bool().Draw(t, "seedtags") {
			cs, _ := cur["spec"].(map[string]any)
			if cs == nil {
				cs = map[string]any{}
				cur["spec"] = cs
			}
			ds, _ := des["spec"].(map[string]any)
			if ds == nil {
				ds = map[string]any{}
				des["spec"] = ds
			}
			cs["tags"] = map[string]any{"env": "dev", "team": "a"}
			ds["tags"] = map[string]any{"env": "prod", "cost": "x"}
			cs["list"] = []any{"a", "b"}
			ds["list"] = []any{"c"}
		}
		var curPaths []string
		c10Paths(cur, "", &curPaths)
		curPaths = append(curPaths, "spec.tags", "spec.tags.env", "spec.list", "spec")
		n := rapid.IntRange(1, 3).Draw(t, "npatches")
		var patches []v1.Patch
		for i := 0; i < n; i++ {
			p := v1.Patch{Type: v1.PatchTypeFromCompositeFieldPath, FromFieldPath: ptr.To("spec.x")}
			path := rapid.SampledFrom(curPaths).Draw(t, "to")
			if strings.Contains(path, "*") {
				path = "spec.tags"
			}
			p.ToFieldPath = &path
			p.Policy = c10Policy().Draw(t, "policy")
			patches = append(patches, p)
		}
		rec.Eval()
		run := func() (map[string]any, map[string]any, []bool) {
			c := &unstructured.Unstructured{Object: verifkit.DeepCopyJSON(cur).(map[string]any)}
			d := &unstructured.Unstructured{Object: verifkit.DeepCopyJSON(des).(map[string]any)}
			var failed []bool
			for i, o := range mergeOptions(patches) {
				var err error
				c10NoPanic(t, fmt.Sprintf("merge apply option %d", i), func() { err = o(context.Background(), c, d) })
				failed = append(failed, err != nil)
			}
			return c.Object, d.Object, failed
		}
		c1, d1, f1 := run()
		if !c10Equal(c1, cur) {
			t.Fatalf("merge apply options modified the CURRENT object they only read:\nbefore=%s\nafter =%s\npatches=%s", verifkit.JSON(cur), verifkit.JSON(c1), verifkit.JSON(patches))
		}
		_, d2, f2 := run()
		if !c10Equal(d1, d2) || !c10Equal(f1, f2) {
			t.Fatalf("merge apply options are not deterministic")
		}
		if !c10Equal(d1, des) {
			rec.Label("merge:changed-desired")
			rec.NonTrivial(verifkit.JSON([]any{cur, des, patches}), func() any { return map[string]any{"current": cur, "desired": des, "patches": patches} })
		}
	})
	// documented meanings on the canonical example
	for _, tc := range []struct {
		name string
		mo   *xpv1.MergeOptions
		path string
		want any
	}{
		{"appendSlice", &xpv1.MergeOptions{AppendSlice: ptr.To(true)}, "spec.list", []any{"a", "b", "c"}},
		{"keepMapValues", &xpv1.MergeOptions{KeepMapValues: ptr.To(true)}, "spec.tags", map[string]any{"env": "dev", "team": "a", "cost": "x"}},
		{"default-replaces-values-keeps-other-keys", &xpv1.MergeOptions{}, "spec.tags", map[string]any{"env": "prod", "team": "a", "cost": "x"}},
	} {
		c := &unstructured.Unstructured{Object: map[string]any{"apiVersion": "example.org/v1", "kind": "C", "spec": map[string]any{"tags": map[string]any{"env": "dev", "team": "a"}, "list": []any{"a", "b"}}}}
		d := &unstructured.Unstructured{Object: map[string]any{"apiVersion": "example.org/v1", "kind": "C", "spec": map[string]any{"tags": map[string]any{"env": "prod", "cost": "x"}, "list": []any{"c"}}}}
		before := verifkit.DeepCopyJSON(c.Object)
		if err := withMergeOptions(tc.path, tc.mo)(context.Background(), c, d); err != nil {
			t.Fatalf("%s: %v", tc.name, err)
		}
		got, _ := fieldpath.Pave(d.Object).GetValue(tc.path)
		if !reflect.DeepEqual(got, tc.want) {
			t.Fatalf("%s: desired %s = %v, want %v", tc.name, tc.path, got, tc.want)
		}
		if !reflect.DeepEqual(before, c.Object) {
			t.Fatalf("%s: current was modified", tc.name)
		}
	}
}

// ---------------------------------------------------------------------------
// metadata rendering ("a composed resource for which ... metadata rendering ... failed is not created")

// TestVerifC10Metadata judges RenderComposedResourceMetadata against its documented contract: it fails when the XR
// lacks a (non-empty) name prefix label or the composed resource is controlled by someone else; on success the
// composed resource is generate-named after the prefix, labelled with the XR's composite/claim labels, annotated with
// the template name it was rendered from and controlled by the XR; the XR is only read.
func TestVerifC10Metadata(t *testing.T) {
	rec := verifkit.New(t, "C10", "RenderComposedResourceMetadata over XRs with the crossplane.io/composite label missing / empty / set, claim labels, composed resources with pre-existing names, labels, annotations (incl. a resource-name annotation of another template) and owner references (none, plain or controller reference to the XR or to someone else); non-trivial = the composed resource already carries metadata; distinct=(xr labels, cd metadata, name)")
	rapid.Check(t, func(t *rapid.T) {
		rec.Eval()
		xr := composite.New(composite.WithGroupVersionKind(schema.GroupVersionKind{Group: "example.org", Version: "v1", Kind: "XThing"}))
		xr.SetName("xr1")
		xr.SetUID("uid-xr")
		labels := map[string]string{}
		prefixMode := rapid.SampledFrom([]string{"set", "set", "set", "empty", "missing"}).Draw(t, "prefix")
		switch prefixMode {
		case "set":
			labels["crossplane.io/composite"] = rapid.SampledFrom([]string{"xr1", "other-prefix", "x"}).Draw(t, "prefixval")
		case "empty":
			labels["crossplane.io/composite"] = ""
		}
		if rapid.Bool().Draw(t, "claimlabels") {
			labels["crossplane.io/claim-name"] = "cm"
			labels["crossplane.io/claim-namespace"] = "ns"
		}
		if rapid.Bool().Draw(t, "otherlabel") {
			labels["team"] = "a"
		}
		if len(labels) > 0 || rapid.Bool().Draw(t, "emptylabels") {
			xr.SetLabels(labels)
		}
		cd := composed.New()
		cd.SetAPIVersion("example.org/v1")
		cd.SetKind("KindA")
		pre := false
		if rapid.Bool().Draw(t, "named") {
			cd.SetName("existing-name")
			pre = true
		}
		if rapid.Bool().Draw(t, "cdlabels") {
			cd.SetLabels(map[string]string{"keep": "me", "crossplane.io/composite": "stale"})
			pre = true
		}
		ann := rapid.SampledFrom([]string{"", "", "tmpl-a", "tmpl-b"}).Draw(t, "cdann")
		if ann != "" {
			cd.SetAnnotations(map[string]string{AnnotationKeyCompositionResourceName: ann, "keep": "me"})
			pre = true
		}
		owner := rapid.SampledFrom([]string{"none", "none", "xr-controller", "xr-plain", "foreign-controller", "foreign-plain"}).Draw(t, "owner")
		switch owner {
		case "xr-controller":
			cd.SetOwnerReferences([]metav1.OwnerReference{{APIVersion: "example.org/v1", Kind: "XThing", Name: "xr1", UID: "uid-xr", Controller: ptr.To(true), BlockOwnerDeletion: ptr.To(true)}})
		case "xr-plain":
			cd.SetOwnerReferences([]metav1.OwnerReference{{APIVersion: "example.org/v1", Kind: "XThing", Name: "xr1", UID: "uid-xr"}})
		case "foreign-controller":
			cd.SetOwnerReferences([]metav1.OwnerReference{{APIVersion: "example.org/v1", Kind: "XThing", Name: "xr2", UID: "uid-other", Controller: ptr.To(true)}})
		case "foreign-plain":
			cd.SetOwnerReferences([]metav1.OwnerReference{{APIVersion: "example.org/v1", Kind: "XThing", Name: "xr2", UID: "uid-other"}})
		}
		if owner != "none" {
			pre = true
		}
		name := ResourceName(rapid.SampledFrom([]string{"", "tmpl-a", "tmpl-a", "tmpl-b"}).Draw(t, "rname"))
		xrBefore := verifkit.JSON(xr.Object)
		var err error
		c10NoPanic(t, "RenderComposedResourceMetadata", func() { err = RenderComposedResourceMetadata(cd, xr, name) })
		if verifkit.JSON(xr.Object) != xrBefore {
			t.Fatalf("RenderComposedResourceMetadata modified the XR: %s -> %s", xrBefore, verifkit.JSON(xr.Object))
		}
		rec.Labelf("metadata:prefix=%s,owner=%s,err=%v", prefixMode, owner, err != nil)
		wantErr := prefixMode != "set" || owner == "foreign-controller"
		if wantErr != (err != nil) {
			t.Fatalf("RenderComposedResourceMetadata(prefix label %s, owner %s, name %q) error = %v, want error: %v (a resource whose metadata cannot be rendered must be skipped, not created)", prefixMode, owner, name, err, wantErr)
		}
		if err == nil {
			prefix := labels["crossplane.io/composite"]
			if got := cd.GetGenerateName(); got != prefix+"-" {
				t.Fatalf("generateName %q, want %q", got, prefix+"-")
			}
			if got := cd.GetLabels()["crossplane.io/composite"]; got != prefix {
				t.Fatalf("composed resource label crossplane.io/composite = %q, want the XR's %q", got, prefix)
			}
			for _, k := range []string{"crossplane.io/claim-name", "crossplane.io/claim-namespace"} {
				if got := cd.GetLabels()[k]; got != labels[k] {
					t.Fatalf("composed resource label %s = %q, want the XR's %q", k, got, labels[k])
				}
			}
			if name != "" && GetCompositionResourceName(cd) != name {
				t.Fatalf("composed resource is annotated as %q, rendered from template %q", GetCompositionResourceName(cd), name)
			}
			if c := metav1.GetControllerOf(cd); c == nil || c.UID != "uid-xr" {
				t.Fatalf("composed resource is not controlled by the XR after rendering: %v", cd.GetOwnerReferences())
			}
			if cd.GetName() != "" && cd.GetName() != "existing-name" {
				t.Fatalf("rendering metadata changed the name to %q", cd.GetName())
			}
			if ann != "" && cd.GetAnnotations()["keep"] != "me" {
				t.Fatalf("rendering metadata dropped an unrelated annotation: %v", cd.GetAnnotations())
			}
		}
		if pre {
			rec.NonTrivial(verifkit.JSON([]any{labels, prefixMode, owner, ann, string(name), cd.GetName() != ""}), func() any {
				return map[string]any{"xrLabels": labels, "prefix": prefixMode, "owner": owner, "existingAnnotation": ann, "templateName": string(name)}
			})
		}
	})
}

// ---------------------------------------------------------------------------
// wildcard expansion: a patch to a wildcard toFieldPath behaves like the same patch to every expanded path

// TestVerifC10WildcardEquivalence is metamorphic: a FromCompositeFieldPath patch whose toFieldPath has a wildcard
// over an ARRAY of the composed resource ("spec.items[*].f") must behave like the sequence of the same patch applied
// to spec.items[i].f for every element i that has the field (a wildcard expands to existing fields only): it fails iff one of them fails (a failed patch must be reported, its
// resource is not applied in that reconcile), and if none fails the results are identical. Content after a failure
// is not compared (the patch stops at the first failing element; what it leaves behind is never applied).
func TestVerifC10WildcardEquivalence(t *testing.T) {
	rec := verifkit.New(t, "C10", "wildcard toFieldPath over an array of 1-4 elements whose target field is absent / a string / a number / an array / a map, source value string / array / map, merge options none / appendSlice / keepMapValues / both; oracle: wildcard patch == sequence of per-element patches (error iff some element errors; equal result otherwise); non-trivial = >=2 elements of different shapes and merge options set; distinct=(elements,value,options)")
	rapid.Check(t, func(t *rapid.T) {
		rec.Eval()
		n := rapid.IntRange(1, 4).Draw(t, "n")
		shapes := make([]string, n)
		items := make([]any, n)
		for i := range items {
			shapes[i] = rapid.SampledFrom([]string{"absent", "string", "number", "array", "array", "map"}).Draw(t, "shape")
			m := map[string]any{"id": fmt.Sprintf("e%d", i)}
			switch shapes[i] {
			case "string":
				m["f"] = "old"
			case "number":
				m["f"] = int64(7)
			case "array":
				m["f"] = []any{"old"}
			case "map":
				m["f"] = map[string]any{"old": "x", "k": "old"}
			}
			items[i] = m
		}
		srcKind := rapid.SampledFrom([]string{"string", "array", "array", "map"}).Draw(t, "src")
		var src any
		switch srcKind {
		case "string":
			src = "new"
		case "array":
			src = []any{"new1", "new2"}
		case "map":
			src = map[string]any{"k": "new", "added": "y"}
		}
		var mo *xpv1.MergeOptions
		moKind := rapid.SampledFrom([]string{"none", "append", "append", "keep", "both"}).Draw(t, "mo")
		switch moKind {
		case "append":
			mo = &xpv1.MergeOptions{AppendSlice: ptr.To(true)}
		case "keep":
			mo = &xpv1.MergeOptions{KeepMapValues: ptr.To(true)}
		case "both":
			mo = &xpv1.MergeOptions{AppendSlice: ptr.To(true), KeepMapValues: ptr.To(true)}
		}
		newXR := func() *composite.Unstructured {
			xr := composite.New()
			xr.Object = map[string]any{"apiVersion": "example.org/v1", "kind": "XThing", "metadata": map[string]any{"name": "xr"}, "spec": map[string]any{"v": src}}
			return xr
		}
		newCD := func() *composed.Unstructured {
			cd := composed.New()
			b, _ := json.Marshal(map[string]any{"apiVersion": "example.org/v1", "kind": "KindA", "metadata": map[string]any{"name": "cd"}, "spec": map[string]any{"items": items}})
			_ = json.Unmarshal(b, &cd.Object)
			return cd
		}
		mk := func(to string) v1.Patch {
			p := v1.Patch{Type: v1.PatchTypeFromCompositeFieldPath, FromFieldPath: ptr.To("spec.v"), ToFieldPath: ptr.To(to)}
			if mo != nil {
				p.Policy = &v1.PatchPolicy{MergeOptions: mo}
			}
			return p
		}
		// A: one wildcard patch
		cdA := newCD()
		var errA error
		c10NoPanic(t, "Apply(wildcard)", func() { errA = Apply(mk("spec.items[*].f"), newXR(), cdA, v1.PatchTypeFromCompositeFieldPath) })
		// B: the same patch per element
		cdB := newCD()
		var firstErrB error
		expanded := 0
		for i := 0; i < n; i++ {
			// a wildcard expands to the fields that EXIST: an element without the target field is not patched
			if shapes[i] == "absent" {
				continue
			}
			expanded++
			var err error
			c10NoPanic(t, "Apply(element)", func() {
				err = Apply(mk(fmt.Sprintf("spec.items[%d].f", i)), newXR(), cdB, v1.PatchTypeFromCompositeFieldPath)
			})
			if err != nil && firstErrB == nil {
				firstErrB = err
			}
		}
		if expanded == 0 {
			// nothing to expand to: the patch cannot be applied and says so
			if errA == nil {
				t.Fatalf("patch to spec.items[*].f over elements %v, none of which has field f, returned nil", shapes)
			}
			rec.Label("wildcard:nothing-to-expand")
			return
		}
		rec.Labelf("wildcard:src=%s,mo=%s,fails=%v", srcKind, moKind, firstErrB != nil)
		if (errA != nil) != (firstErrB != nil) {
			t.Fatalf("patch spec.v (%s) -> spec.items[*].f with merge options %s over elements %v: the wildcard patch returned %v, the per-element patches %v (a patch that fails for one expanded field must fail, so that the half-patched resource is skipped)", srcKind, moKind, shapes, errA, firstErrB)
		}
		if errA == nil && verifkit.JSON(cdA.Object) != verifkit.JSON(cdB.Object) {
			t.Fatalf("patch spec.v (%s) -> spec.items[*].f with merge options %s over elements %v: wildcard result differs from per-element result:\nwildcard    %s\nper element %s", srcKind, moKind, shapes, verifkit.JSON(cdA.Object), verifkit.JSON(cdB.Object))
		}
		distinctShapes := map[string]bool{}
		for _, s := range shapes {
			distinctShapes[s] = true
		}
		if len(distinctShapes) >= 2 && mo != nil {
			rec.NonTrivial(verifkit.JSON([]any{shapes, srcKind, moKind}), func() any {
				return map[string]any{"elements": shapes, "source": srcKind, "mergeOptions": moKind, "fails": firstErrB != nil}
			})
		}
	})
}
