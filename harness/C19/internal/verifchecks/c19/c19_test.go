//go:build verif

package c19

import (
	"context"
	"fmt"
	"reflect"
	"strings"
	"testing"

	metav1 "k8s.io/apimachinery/pkg/apis/meta/v1"
	"k8s.io/apimachinery/pkg/runtime/schema"
	"k8s.io/apimachinery/pkg/types"
	utilrand "k8s.io/apimachinery/pkg/util/rand"
	"k8s.io/utils/ptr"
	"pgregory.net/rapid"

	"github.com/crossplane/crossplane-runtime/pkg/resource/unstructured/composed"

	usagectl "github.com/crossplane/crossplane/internal/controller/apiextensions/usage"
	"github.com/crossplane/crossplane/internal/verifkit"
	"github.com/crossplane/crossplane/internal/verifsim"
)

// ---------------------------------------------------------------------------
// state machine

type machine struct {
	w      *world
	usages map[string]usageSpec // spec each live Usage was authored with
}

var faultKinds = []verifsim.Fault{
	{Kind: verifsim.ErrBefore, Err: "conflict"},
	{Kind: verifsim.ErrBefore, Err: "server"},
	{Kind: verifsim.ErrAfter, Err: "timeout"},
	{Kind: verifsim.ErrAfter, Err: "conflict"},
	{Kind: verifsim.CrashBefore},
	{Kind: verifsim.CrashAfter},
}

var policies = []*metav1.DeletionPropagation{
	nil,
	ptr.To(metav1.DeletePropagationBackground),
	ptr.To(metav1.DeletePropagationForeground),
	ptr.To(metav1.DeletePropagationOrphan),
}

func genRef(t *rapid.T, label string) resRef {
	r := resRef{ID: rapid.SampledFrom([]int{0, 0, 0, 1, 2, 3, 4, 5, 5}).Draw(t, label+".id")}
	r.Ver = rapid.SampledFrom(idents[r.ID].versions()).Draw(t, label+".ver")
	switch rapid.IntRange(0, 4).Draw(t, label+".mode") {
	case 0, 1:
		r.ByName = true
	case 2, 3:
		r.Sel = true
	default:
		r.ByName, r.Sel = true, true
	}
	if r.Sel {
		r.Tier = rapid.SampledFrom([]string{"x", "y"}).Draw(t, label+".tier")
		r.MatchCtrl = rapid.SampledFrom([]*bool{nil, ptr.To(true), ptr.To(true), ptr.To(false)}).Draw(t, label+".matchCtrl")
	}
	return r
}

func genUsage(t *rapid.T, name string) usageSpec {
	us := usageSpec{Name: name, APIVer: rapid.SampledFrom([]string{"v1beta1", "v1beta1", "v1alpha1"}).Draw(t, "usage.apiVersion")}
	us.Of = genRef(t, "of")
	if rapid.IntRange(0, 2).Draw(t, "hasBy") > 0 {
		by := genRef(t, "by")
		// A using resource that is also the used one is pointless; steer to another identity.
		if by.ID == us.Of.ID {
			by.ID = (by.ID + 1) % len(idents)
			by.Ver = idents[by.ID].versions()[0]
		}
		us.By = &by
		us.Reason = rapid.Bool().Draw(t, "reasonToo")
	} else {
		us.Reason = true
	}
	us.Replay = rapid.SampledFrom([]*bool{nil, nil, ptr.To(true), ptr.To(false)}).Draw(t, "replay")
	us.Owner = rapid.SampledFrom([]string{"", "o1", "o1", "o2"}).Draw(t, "usage.owner")
	if us.Owner != "" {
		us.Composed = rapid.Bool().Draw(t, "composed")
	}
	return us
}

func (m *machine) existingResources() []int {
	var out []int
	for i, id := range idents {
		if m.w.sim.Get(id.key()) != nil {
			out = append(out, i)
		}
	}
	return out
}

func (m *machine) existingUsages() []string {
	var out []string
	for _, n := range usageNames {
		if m.w.sim.Get(usageKey(n)) != nil {
			out = append(out, n)
		}
	}
	return out
}

func (m *machine) opCreateResource(t *rapid.T) bool {
	var absent []int
	for i, id := range idents {
		if m.w.sim.Get(id.key()) == nil {
			absent = append(absent, i)
		}
	}
	if len(absent) == 0 {
		return false
	}
	i := rapid.SampledFrom(absent).Draw(t, "resource")
	id := idents[i]
	ver := rapid.SampledFrom(id.versions()).Draw(t, "version")
	lbls := map[string]any{"tier": rapid.SampledFrom([]string{"x", "y"}).Draw(t, "tier")}
	if rapid.IntRange(0, 5).Draw(t, "prelabelled") == 0 {
		// Anyone can put the marker label on a resource.
		lbls["crossplane.io/in-use"] = "true"
		m.w.rec.Label("resource:created-with-marker")
	}
	meta := map[string]any{"name": id.Name, "labels": lbls}
	if o := rapid.SampledFrom([]string{"", "", "o1", "o1", "o2"}).Draw(t, "owner"); o != "" {
		// A composed resource: controlled by the XR stand-in, labelled and annotated
		// the way the composers render it.
		meta["ownerReferences"] = []any{m.w.ownerRef(o)}
		meta["annotations"] = map[string]any{resourceNameAnnotation: templateName(i)}
		lbls[compositeLabel] = o
	}
	obj := verifsim.Obj{"apiVersion": id.apiVersion(ver), "kind": id.Kind, "metadata": meta, "spec": map[string]any{"v": "1"}}
	err := m.w.sim.Client("user").Create(context.Background(), verifsim.U(obj))
	m.w.logf("CREATE %s %s/%s labels=%v owner=%v -> %v", id.key(), id.Group, ver, lbls, meta["ownerReferences"] != nil, err)
	if err != nil {
		m.w.fail("VERIF-INCONCLUSIVE harness: create resource: %v", err)
	}
	return true
}

func (m *machine) opDeleteResource(t *rapid.T) bool {
	ex := m.existingResources()
	var i int
	if len(ex) > 0 && rapid.IntRange(0, 7).Draw(t, "anyResource") > 0 {
		i = rapid.SampledFrom(ex).Draw(t, "resource")
	} else {
		i = rapid.IntRange(0, len(idents)-1).Draw(t, "resource")
	}
	ver := rapid.SampledFrom(idents[i].versions()).Draw(t, "version")
	pol := rapid.SampledFrom(policies).Draw(t, "policy")
	m.w.rec.Labelf("delete:policy=%s", policyString(pol))
	m.w.checkedDelete("user", idents[i].key(), ver, pol)
	return true
}

func (m *machine) opCreateUsage(t *rapid.T) bool {
	var absent []string
	for _, n := range usageNames {
		if m.w.sim.Get(usageKey(n)) == nil {
			absent = append(absent, n)
		}
	}
	if len(absent) == 0 {
		return false
	}
	us := genUsage(t, rapid.SampledFrom(absent).Draw(t, "usage"))
	err := m.w.sim.Client("user").Create(context.Background(), verifsim.U(m.w.renderUsage(us)))
	m.w.logf("CREATE-USAGE %s -> %v", verifkit.JSON(us), err)
	if err != nil {
		m.w.fail("VERIF-INCONCLUSIVE harness: create usage: %v", err)
	}
	m.usages[us.Name] = us
	m.w.rec.Labelf("usage:of-byname=%v,sel=%v", us.Of.ByName, us.Of.Sel)
	m.w.rec.Labelf("usage:by=%v", us.By != nil)
	if idents[us.Of.ID].Group == "" {
		m.w.rec.Label("usage:of-a-core-group-resource")
	}
	if us.By != nil && idents[us.By.ID].Group == "" {
		m.w.rec.Label("usage:by-a-core-group-resource")
	}
	return true
}

func (m *machine) opDeleteUsage(t *rapid.T) bool {
	ex := m.existingUsages()
	if len(ex) == 0 {
		return false
	}
	n := rapid.SampledFrom(ex).Draw(t, "usage")
	ver := rapid.SampledFrom([]string{"v1beta1", "v1alpha1"}).Draw(t, "version")
	pol := rapid.SampledFrom(policies).Draw(t, "policy")
	m.w.checkedDelete("user", usageKey(n), ver, pol)
	return true
}

func (m *machine) unresolved(name string) bool {
	_, ok, _ := named(m.w.sim.Get(usageKey(name)), "of")
	return !ok
}

func (m *machine) pickUsageToReconcile(t *rapid.T) (string, bool) {
	var cand []string
	for _, n := range m.existingUsages() {
		// controller-runtime never reconciles one key concurrently.
		if !m.w.nested || n != m.w.pausedUsage {
			cand = append(cand, n)
		}
	}
	if len(cand) == 0 {
		return "", false
	}
	return rapid.SampledFrom(cand).Draw(t, "usage"), true
}

func (m *machine) opReconcile(t *rapid.T) bool {
	n, ok := m.pickUsageToReconcile(t)
	if !ok {
		return false
	}
	if m.w.nested && m.w.raceOpen && m.w.pausedTerminating && m.unresolved(n) {
		// Known finding label-removal-race: a Usage that starts naming a resource
		// while the deletion reconcile of another Usage is between its List and its Update.
		m.w.rec.Excluded()
		return false
	}
	plan := map[int]verifsim.Fault{}
	for j := rapid.IntRange(0, 3).Draw(t, "nfaults"); j > 1; j-- {
		plan[rapid.IntRange(0, 11).Draw(t, "faultAt")] = rapid.SampledFrom(faultKinds).Draw(t, "fault")
	}
	if len(plan) > 0 {
		m.w.rec.Label("reconcile:with-faults")
	}
	m.w.reconcile(n, plan)
	return true
}

func (m *machine) opGC(_ *rapid.T) bool {
	did := m.w.sim.GCStep()
	m.w.logf("GC -> %v", did)
	m.w.checkMonitors("during GC")
	if did {
		m.w.rec.Label("gc:acted")
	}
	return true
}

func (m *machine) opComposerApply(t *rapid.T) bool {
	var cand []string
	for _, n := range m.existingUsages() {
		if m.usages[n].Composed && !verifsim.Terminating(m.w.sim.Get(usageKey(n))) {
			cand = append(cand, n)
		}
	}
	if len(cand) == 0 {
		return false
	}
	m.w.composerApply(m.usages[rapid.SampledFrom(cand).Draw(t, "usage")])
	return true
}

// opComposerGC: the Composition of an XR stops producing some of its composed
// resources and the XR reconciles (the composers' garbage collection).
func (m *machine) opComposerGC(t *rapid.T) bool {
	var owners []string
	for _, o := range ownerNames {
		if len(m.w.composedBy(o)) > 0 {
			owners = append(owners, o)
		}
	}
	if len(owners) == 0 {
		return false
	}
	owner := rapid.SampledFrom(owners).Draw(t, "xr")
	cds := m.w.composedBy(owner)
	pipeline := rapid.IntRange(0, 3).Draw(t, "pipelineComposer") == 0
	drop := map[int]bool{}
	if pipeline {
		// The function composer walks a Go map: one dropped resource keeps the run deterministic.
		drop[rapid.SampledFrom(cds).Draw(t, "dropped")] = true
	} else {
		for _, i := range cds {
			if rapid.IntRange(0, 2).Draw(t, "dropTemplate") > 0 {
				drop[i] = true
			}
		}
	}
	m.w.composerGC(owner, drop, rapid.SampledFrom(versions).Draw(t, "version"), pipeline)
	return true
}

func (m *machine) nestedStep(t *rapid.T) {
	op := rapid.SampledFrom([]string{"createUsage", "createUsage", "reconcile", "reconcile", "reconcile", "deleteResource", "deleteUsage", "createResource", "gc"}).Draw(t, "nestedOp")
	if op == "createUsage" && m.w.raceOpen && m.w.pausedTerminating {
		m.w.rec.Excluded()
		op = "deleteResource"
	}
	switch op {
	case "createUsage":
		m.opCreateUsage(t)
	case "reconcile":
		m.opReconcile(t)
	case "deleteResource":
		m.opDeleteResource(t)
	case "deleteUsage":
		m.opDeleteUsage(t)
	case "createResource":
		m.opCreateResource(t)
	case "gc":
		m.opGC(t)
	}
}

func (m *machine) opReconcileInterleaved(t *rapid.T) bool {
	if m.w.nested {
		return false
	}
	n, ok := m.pickUsageToReconcile(t)
	if !ok {
		return false
	}
	k := rapid.IntRange(0, 8).Draw(t, "parkBefore")
	steps := rapid.IntRange(1, 3).Draw(t, "nestedSteps")
	m.w.pausedUsage = n
	m.w.pausedTerminating = verifsim.Terminating(m.w.sim.Get(usageKey(n)))
	_, parked := m.w.reconcilePaused(n, k, func() {
		m.w.nested = true
		defer func() { m.w.nested = false }()
		for i := 0; i < steps; i++ {
			m.nestedStep(t)
		}
	})
	if parked {
		m.w.nontrivial = true
		m.w.rec.Labelf("interleaved:parked(deleting=%v)", m.w.pausedTerminating)
	} else {
		m.w.rec.Label("interleaved:not-reached")
	}
	m.w.pausedUsage = ""
	return true
}

func wrap(f func(*rapid.T) bool) func(*rapid.T) {
	return func(t *rapid.T) {
		if !f(t) {
			t.Skip("not applicable")
		}
	}
}

const machineRule = "rapid state machine over 6 shared cluster-scoped resource identities (2 named groups with 2 served versions plus the core group (apiVersion v1, a Namespace); 3 kinds, 3 names of one kind; each created uncontrolled or controlled by one of two owners) and up to 4 Usages (v1alpha1/v1beta1; of/by by resourceRef, by resourceSelector with matchLabels and matchControllerRef true/false/unset, or both; reason-only; replayDeletion; composed or not): create/delete of resources and Usages in any order, DELETE requests in either version with every propagation policy through usage.yaml's objectSelector/rules and the real handler, real Usage reconciles with 0-2 injected faults, reconciles parked before a drawn API call while 1-3 other actions run, GC steps, the P&T composer's apply of composed Usages, and both composers' garbage collection (real GarbageCollectingAssociator.AssociateTemplates with named templates / real DeletingComposedResourceGarbageCollector) of composed resources whose template was dropped, their Update watched by the marker monitors and their Delete sent through the same admission path; non-trivial = a DELETE while >=2 Usages name the resource, or in another version than a naming Usage, or while a Ready Usage protects it, or a parked (interleaved) reconcile, or a composer GC of a protected resource"

// TestVerifC19Machine is the main check: all four clauses over generated histories.
func TestVerifC19Machine(t *testing.T) {
	rec := verifkit.New(t, "C19", machineRule)
	rapid.Check(t, func(t *rapid.T) {
		utilrand.Seed(rapid.Int64Range(1, 1<<30).Draw(t, "nameseed"))
		rec.Eval()
		w := newWorld(rec, func(f string, a ...any) { t.Fatalf(f, a...) })
		m := &machine{w: w, usages: map[string]usageSpec{}}
		t.Repeat(map[string]func(*rapid.T){
			"createResource":       wrap(m.opCreateResource),
			"deleteResource":       wrap(m.opDeleteResource),
			"deleteResource2":      wrap(m.opDeleteResource),
			"createUsage":          wrap(m.opCreateUsage),
			"deleteUsage":          wrap(m.opDeleteUsage),
			"reconcile":            wrap(m.opReconcile),
			"reconcile2":           wrap(m.opReconcile),
			"reconcile3":           wrap(m.opReconcile),
			"reconcileInterleaved": wrap(m.opReconcileInterleaved),
			"gc":                   wrap(m.opGC),
			"composerApply":        wrap(m.opComposerApply),
			"composerGC":           wrap(m.opComposerGC),
			"":                     func(*rapid.T) { w.checkMonitors("invariant") },
		})
		if w.nontrivial {
			rec.NonTrivial(strings.Join(w.hist, ";"), func() any {
				h := w.hist
				if len(h) > 25 {
					h = h[:25]
				}
				return map[string]any{"history_prefix": h}
			})
		}
	})
}

// ---------------------------------------------------------------------------
// scripted scenarios

func collectingWorld(rec *verifkit.Recorder) (*world, *[]string) {
	var vios []string
	w := newWorld(rec, func(f string, a ...any) { vios = append(vios, fmt.Sprintf(f, a...)) })
	return w, &vios
}

func (w *world) mustCreate(o verifsim.Obj) {
	if err := w.sim.Client("user").Create(context.Background(), verifsim.U(o)); err != nil {
		w.fail("create: %v", err)
	}
}

func thing(id ident, ver string) verifsim.Obj {
	return verifsim.Obj{"apiVersion": id.apiVersion(ver), "kind": id.Kind, "metadata": map[string]any{"name": id.Name, "labels": map[string]any{"tier": "x"}}, "spec": map[string]any{"v": "1"}}
}

// TestVerifC19Sanity guards against a vacuously quiet harness: the scripted
// life cycle really passes through refusal, recording and release.
func TestVerifC19Sanity(t *testing.T) {
	rec := verifkit.New(t, "C19", "scripted life cycle (harness self-check)")
	rec.Eval()
	w, vios := collectingWorld(rec)
	if len(w.entries) != 1 || w.hook == nil {
		t.Fatalf("harness: expected exactly one webhook entry of usage.yaml routed to %q, got %d", w.hookPath, len(w.entries))
	}
	w.mustCreate(thing(idents[0], "v1"))
	w.mustCreate(thing(idents[2], "v1"))
	us := usageSpec{Name: "u0", APIVer: "v1beta1", Of: resRef{ID: 0, Ver: "v1beta1", ByName: true}, By: &resRef{ID: 2, Ver: "v1", Sel: true, Tier: "x"}}
	w.mustCreate(w.renderUsage(us))
	if out := w.checkedDelete("user", idents[3].key(), "v1", nil); !out.notFound {
		t.Fatalf("harness: delete of an absent resource: %+v", out)
	}
	if out, _ := w.reconcile("u0", nil); out.err != nil {
		t.Fatalf("harness: reconcile: %v", out.err)
	}
	u := w.sim.Get(usageKey("u0"))
	if !isReady(u) || !w.markerPresent(w.sim.Get(idents[0].key())) || len(verifsim.OwnerRefs(u)) != 1 {
		t.Fatalf("harness: after reconcile usage=%v used=%v", u, w.sim.Get(idents[0].key()))
	}
	out := w.checkedDelete("user", idents[0].key(), "v1", ptr.To(metav1.DeletePropagationOrphan))
	if !out.invoked || !out.refused || w.sim.Get(idents[0].key()) == nil {
		t.Fatalf("harness: protected delete outcome %+v", out)
	}
	if got := verifsim.Annotations(w.sim.Get(idents[0].key()))[attemptAnnotation]; got != "Orphan" {
		t.Fatalf("harness: attempt annotation %q", got)
	}
	// deleting the user releases the used
	if out := w.checkedDelete("user", idents[2].key(), "v1", nil); out.refused || out.err != nil {
		t.Fatalf("harness: delete of the using resource: %+v", out)
	}
	for w.sim.GCStep() {
	}
	if u := w.sim.Get(usageKey("u0")); u == nil || !verifsim.Terminating(u) {
		t.Fatalf("harness: the Usage should have been garbage collected into Terminating, is %v", u)
	}
	if out, _ := w.reconcile("u0", nil); out.err != nil {
		t.Fatalf("harness: deletion reconcile: %v", out.err)
	}
	if w.sim.Get(usageKey("u0")) != nil || w.markerPresent(w.sim.Get(idents[0].key())) {
		t.Fatalf("harness: usage or marker still there")
	}
	if out := w.checkedDelete("user", idents[0].key(), "v1beta1", nil); out.invoked || out.refused || out.err != nil || w.sim.Get(idents[0].key()) != nil {
		t.Fatalf("harness: released delete outcome %+v", out)
	}
	if len(*vios) > 0 {
		t.Fatalf("the scripted life cycle violates the property:\n%s", strings.Join(*vios, "\n"))
	}
	rec.NonTrivial("sanity", func() any { return w.hist })
}

// TestVerifC19Pinned holds the reproducers of every failure the generated
// search has found.
func TestVerifC19Pinned(t *testing.T) {
	rec := verifkit.New(t, "C19", "pinned regression rows")
	t.Run("unresolved-by-selector-panics-handler", func(t *testing.T) {
		// Found by TestVerifC19Machine. Usage u1 (reason only) of Thing a is Ready;
		// Usage u0 of the same resource has a spec.by with a resourceSelector that is
		// not resolved yet (its using resource does not exist yet). The handler's
		// inUseMessage dereferences u0's nil spec.by.resourceRef: the webhook panics
		// before it records the deletion attempt.
		rec.Eval()
		w, vios := collectingWorld(rec)
		w.mustCreate(thing(idents[0], "v1"))
		w.mustCreate(w.renderUsage(usageSpec{Name: "u1", APIVer: "v1beta1", Of: resRef{ID: 0, Ver: "v1", ByName: true}, Reason: true}))
		w.reconcile("u1", nil)
		w.mustCreate(w.renderUsage(usageSpec{Name: "u0", APIVer: "v1beta1", Of: resRef{ID: 0, Ver: "v1", ByName: true}, By: &resRef{ID: 2, Ver: "v1", Sel: true, Tier: "x"}}))
		w.reconcile("u0", nil) // cannot resolve: there is no Gadget yet
		out := w.checkedDelete("user", idents[0].key(), "v1", nil)
		rec.NonTrivial("unresolved-by-selector", func() any { return w.hist })
		if len(*vios) > 0 {
			t.Fatalf("%s\n(delete outcome: %+v)", strings.Join(*vios, "\n"), out)
		}
	})
	t.Run("composed-v1alpha1-usage-loses-owner-reference", func(t *testing.T) {
		// Found by TestVerifC19Machine / TestVerifC19RespectOwnerRefs. v1alpha1 is a
		// served (and the storage) version of Usage; a Composition template that
		// composes an apiextensions.crossplane.io/v1alpha1 Usage is re-applied by the
		// P&T composer without the owner reference the Usage controller added,
		// because RespectOwnerRefs only recognises the v1beta1 GroupVersionKind.
		rec.Eval()
		w, vios := collectingWorld(rec)
		w.mustCreate(thing(idents[0], "v1"))
		w.mustCreate(thing(idents[2], "v1"))
		us := usageSpec{Name: "u0", APIVer: "v1alpha1", Of: resRef{ID: 0, Ver: "v1", ByName: true}, By: &resRef{ID: 2, Ver: "v1", ByName: true}, Owner: "o1", Composed: true}
		w.mustCreate(w.renderUsage(us))
		w.reconcile("u0", nil)
		w.composerApply(us)
		rec.NonTrivial("composed-v1alpha1", func() any { return w.hist })
		if len(*vios) > 0 {
			t.Fatalf("%s", strings.Join(*vios, "\n"))
		}
	})
	t.Run("uncontrolled-candidate-for-controlled-usage-with-matchControllerRef", func(t *testing.T) {
		// Class raised by a seeded change: a Usage composed by an XR (it has a
		// controller) selects with matchControllerRef: true while a label-matching
		// resource WITHOUT any controller exists and sorts first. "MatchControllerRef
		// ensures an object with the same controller reference as the selecting object
		// is selected": the uncontrolled one must never be picked, for spec.of or spec.by.
		owned := func(w *world, id int, owner string) verifsim.Obj {
			r := thing(idents[id], "v1")
			if owner != "" {
				verifsim.Meta(r)["ownerReferences"] = []any{w.ownerRef(owner)}
			}
			return r
		}
		sel := func(id int) resRef { return resRef{ID: id, Ver: "v1", Sel: true, Tier: "x", MatchCtrl: ptr.To(true)} }
		for _, rightExists := range []bool{true, false} {
			for _, which := range []string{"of", "by"} {
				rec.Eval()
				w, vios := collectingWorld(rec)
				w.mustCreate(owned(w, 0, "")) // Thing a: label matches, no controller, sorts first
				if rightExists {
					w.mustCreate(owned(w, 1, "o1")) // Thing b: the one the selector selects
				}
				w.mustCreate(owned(w, 4, "o2")) // Thing c: controlled by somebody else
				w.mustCreate(thing(idents[2], "v1"))
				us := usageSpec{Name: "u0", APIVer: "v1beta1", Owner: "o1", Composed: true, Reason: true}
				if which == "of" {
					us.Of = sel(0)
				} else {
					us.Of, us.By = resRef{ID: 2, Ver: "v1", ByName: true}, ptr.To(sel(0))
				}
				w.mustCreate(w.renderUsage(us))
				out, _ := w.reconcile("u0", nil)
				u := w.sim.Get(usageKey("u0"))
				nk, resolved, _ := named(u, which)
				ctx := fmt.Sprintf("spec.%s, right-one-exists=%v", which, rightExists)
				if len(*vios) > 0 {
					t.Fatalf("%s: %s", ctx, strings.Join(*vios, "\n"))
				}
				if rightExists && (!resolved || nk != idents[1].key() || !isReady(u)) {
					t.Fatalf("%s: expected the Usage to resolve to %s and become Ready; resolved=%v to %s ready=%v err=%v", ctx, idents[1].key(), resolved, nk, isReady(u), out.err)
				}
				if !rightExists && (resolved || isReady(u) || out.err == nil) {
					t.Fatalf("%s: no resource has the Usage's controller, so it must neither resolve nor become Ready; resolved=%v to %s ready=%v err=%v", ctx, resolved, nk, isReady(u), out.err)
				}
				rec.NonTrivial("uncontrolled-candidate|"+ctx, func() any { return w.hist })
			}
		}
	})
	t.Run("core-group-used-resource", func(t *testing.T) {
		// Class raised by a seeded change: the used resource is in the core group
		// (apiVersion "v1", no group part). The index key the Usages are filed under
		// and the key the webhook and the deletion reconcile look up must agree there
		// too: two Usages of a Namespace, deleting one keeps the marker, the DELETE of
		// the Namespace is refused and recorded until the last Usage is gone.
		rec.Eval()
		w, vios := collectingWorld(rec)
		ns := idents[5]
		w.mustCreate(thing(ns, "v1"))
		for _, n := range []string{"u0", "u1"} {
			w.mustCreate(w.renderUsage(usageSpec{Name: n, APIVer: "v1beta1", Of: resRef{ID: 5, Ver: "v1", ByName: n == "u0", Sel: n == "u1", Tier: "x"}, Reason: true}))
			w.reconcile(n, nil)
		}
		if out := w.checkedDelete("user", ns.key(), "v1", ptr.To(metav1.DeletePropagationForeground)); !out.invoked || !out.refused {
			*vios = append(*vios, fmt.Sprintf("DELETE of the Namespace with two Ready Usages: %+v", out))
		}
		w.checkedDelete("user", usageKey("u0"), "v1beta1", nil)
		w.reconcile("u0", nil)
		if out := w.checkedDelete("user", ns.key(), "v1", nil); !out.refused || !w.markerPresent(w.sim.Get(ns.key())) {
			*vios = append(*vios, fmt.Sprintf("DELETE of the Namespace with one Usage left: %+v, labels %v", out, verifsim.Labels(w.sim.Get(ns.key()))))
		}
		w.checkedDelete("user", usageKey("u1"), "v1beta1", nil)
		w.reconcile("u1", nil)
		if out := w.checkedDelete("user", ns.key(), "v1", nil); out.refused || out.err != nil || w.sim.Get(ns.key()) != nil {
			*vios = append(*vios, fmt.Sprintf("DELETE of the Namespace after its last Usage is gone: %+v", out))
		}
		rec.NonTrivial("core-group", func() any { return w.hist })
		if len(*vios) > 0 {
			t.Fatalf("%s", strings.Join(*vios, "\n"))
		}
	})
	t.Run("composer-gc-of-a-protected-resource", func(t *testing.T) {
		// Class raised by a seeded change: the composers' garbage collection (label
		// cleanup Update, then Delete) of a composed resource whose template was
		// dropped, while a Ready Usage names it. The cleanup must leave the marker
		// alone and the Delete must be refused and recorded like anybody else's.
		for _, pipeline := range []bool{false, true} {
			rec.Eval()
			w, vios := collectingWorld(rec)
			r := thing(idents[0], "v1")
			verifsim.Meta(r)["ownerReferences"] = []any{w.ownerRef("o1")}
			verifsim.Meta(r)["annotations"] = map[string]any{resourceNameAnnotation: templateName(0)}
			verifsim.Meta(r)["labels"].(map[string]any)[compositeLabel] = "o1"
			w.mustCreate(r)
			w.mustCreate(w.renderUsage(usageSpec{Name: "u0", APIVer: "v1beta1", Of: resRef{ID: 0, Ver: "v1", ByName: true}, Reason: true}))
			w.reconcile("u0", nil)
			w.composerGC("o1", map[int]bool{0: true}, "v1", pipeline)
			after := w.sim.Get(idents[0].key())
			if len(*vios) > 0 {
				t.Fatalf("pipeline=%v: %s", pipeline, strings.Join(*vios, "\n"))
			}
			if after == nil || !w.markerPresent(after) || verifsim.Annotations(after)[attemptAnnotation] != "Background" {
				t.Fatalf("harness: pipeline=%v: the scripted composer GC did not exercise the protected path: %v", pipeline, after)
			}
			rec.NonTrivial(fmt.Sprintf("composer-gc-%v", pipeline), func() any { return w.hist })
		}
	})
	t.Run("used-resource-replaced-while-reconcile-in-flight", func(t *testing.T) {
		// Raised by TestVerifC19Machine at seed 1 and judged an over-demand of the
		// oracle, not a defect. The deletion of the used resource was accepted before
		// any Usage protected it (it is Terminating, held by a finalizer of its own
		// controller). A Usage of it is then created; its reconcile marks the
		// Terminating object and is parked before API call k (all k); meanwhile the
		// finalizer is dropped (the object goes away) and a new object of the same
		// name is created; the reconcile resumes and stores Ready=True. The marker
		// WAS put on the used resource before Ready; no delete request was accepted
		// while a Ready Usage protected the object; the new incarnation is unprotected
		// until the next poll exactly as in the sequential variant (object replaced
		// after Ready), which the oracle classifies as in-between. Neither variant
		// may be reported, and both must be classified the same way.
		held := thing(idents[2], "v1")
		verifsim.Meta(held)["finalizers"] = []any{"example.org/hold"}
		us := usageSpec{Name: "u2", APIVer: "v1beta1", Of: resRef{ID: 2, Ver: "v1", ByName: true}, Reason: true}
		replace := func(w *world) {
			c := w.sim.Client("provider")
			o := verifsim.U(w.sim.Get(idents[2].key()))
			o.SetFinalizers(nil)
			if err := c.Update(context.Background(), o); err != nil {
				w.fail("drop finalizer: %v", err)
			}
			if w.sim.Get(idents[2].key()) != nil {
				w.fail("harness: the terminating resource should be gone")
			}
			w.mustCreate(thing(idents[2], "v1"))
		}
		sawInFlight := false
		for k := -1; k < 10; k++ { // k == -1: the sequential variant (replaced after Ready)
			rec.Eval()
			w, vios := collectingWorld(rec)
			w.mustCreate(held)
			if out := w.checkedDelete("user", idents[2].key(), "v1", nil); out.refused || !verifsim.Terminating(w.sim.Get(idents[2].key())) {
				t.Fatalf("harness: setup delete %+v", out)
			}
			w.mustCreate(w.renderUsage(us))
			parked := false
			if k < 0 {
				w.reconcile("u2", nil)
				replace(w)
			} else if _, parked = w.reconcilePaused("u2", k, func() { replace(w) }); !parked {
				break
			}
			u := w.sim.Get(usageKey("u2"))
			r := w.sim.Get(idents[2].key())
			if isReady(u) && !w.markerPresent(r) {
				if k >= 0 {
					sawInFlight = true
				}
				// The new incarnation is "in between": either outcome of a DELETE is acceptable.
				prot, _, _ := w.usagesOf(idents[2].key(), verifsim.MetaString(r, "uid"))
				if len(prot) != 0 {
					t.Fatalf("k=%d: the model counts the new incarnation as protected by %v", k, prot)
				}
				w.checkedDelete("user", idents[2].key(), "v1", nil)
			}
			if len(*vios) > 0 {
				t.Fatalf("k=%d: %s", k, strings.Join(*vios, "\n"))
			}
			rec.NonTrivial(fmt.Sprintf("replaced-k%d", k), func() any { return w.hist })
		}
		if !sawInFlight {
			t.Fatalf("harness: no park point reproduced the in-flight replacement (Ready stored while the new incarnation is unmarked)")
		}
	})
}

// TestVerifC19KnownLabelRemovalRace is the pinned reproducer of the known
// finding label-removal-race: the deletion reconcile of the only Usage of a
// resource is parked before API call k; meanwhile a second Usage of the same
// resource is created and becomes Ready (its label update is a no-op, so the
// resourceVersion of the used resource does not change); the first reconcile
// then removes the label. Every k is tried, nothing about the reconciler's
// call order is assumed.
func TestVerifC19KnownLabelRemovalRace(t *testing.T) {
	rec := verifkit.New(t, "C19", "known-finding reproducer: deletion reconcile of Usage A parked before API call k (all k), Usage B of the same resource created and reconciled to Ready meanwhile")
	var reproduced []string
	for k := 0; k < 10; k++ {
		rec.Eval()
		w, vios := collectingWorld(rec)
		w.mustCreate(thing(idents[0], "v1"))
		a := usageSpec{Name: "u0", APIVer: "v1beta1", Of: resRef{ID: 0, Ver: "v1", ByName: true}, Reason: true}
		b := usageSpec{Name: "u1", APIVer: "v1beta1", Of: resRef{ID: 0, Ver: "v1", ByName: true}, Reason: true}
		w.mustCreate(w.renderUsage(a))
		w.reconcile("u0", nil)
		w.checkedDelete("user", usageKey("u0"), "v1beta1", nil)
		if len(*vios) > 0 || !verifsim.Terminating(w.sim.Get(usageKey("u0"))) {
			t.Fatalf("harness: setup failed: %v", *vios)
		}
		_, parked := w.reconcilePaused("u0", k, func() {
			w.mustCreate(w.renderUsage(b))
			w.reconcile("u1", nil)
		})
		if !parked {
			break
		}
		out := w.checkedDelete("user", idents[0].key(), "v1", nil)
		if len(*vios) > 0 {
			reproduced = append(reproduced, fmt.Sprintf("parked before API call %d: delete refused=%v webhook invoked=%v; %s", k, out.refused, out.invoked, strings.SplitN((*vios)[0], "\nhistory", 2)[0]))
			rec.NonTrivial(fmt.Sprintf("race-k%d", k), func() any { return w.hist })
		}
	}
	if len(reproduced) == 0 {
		return
	}
	what := "label-removal-race: the deletion reconcile of the last Usage of a resource lists Usages (sees only itself), a new Usage of the same resource becomes Ready with a no-op label update, then the first reconcile removes the in-use label: the webhook is no longer invoked and the resource can be deleted although a Ready Usage names it"
	if verifkit.OpenFinding("C19", findingKey) {
		rec.KnownReproduced(what)
		return
	}
	t.Fatalf("%s\n%s", what, strings.Join(reproduced, "\n"))
}

// ---------------------------------------------------------------------------
// RespectOwnerRefs as an ApplyOption, directly

func genOwnerRefs(t *rapid.T, label string, max int) []metav1.OwnerReference {
	var out []metav1.OwnerReference
	n := rapid.IntRange(0, max).Draw(t, label+".n")
	for i := 0; i < n; i++ {
		uid := rapid.SampledFrom([]string{"uid-xr", "uid-using", "uid-other", "uid-x2"}).Draw(t, label+".uid")
		dup := false
		for _, r := range out {
			if string(r.UID) == uid {
				dup = true
			}
		}
		if dup {
			continue
		}
		r := metav1.OwnerReference{APIVersion: "example.org/v1", Kind: "K" + uid, Name: "n-" + uid, UID: types.UID(uid)}
		if uid == "uid-xr" {
			r.Controller, r.BlockOwnerDeletion = ptr.To(true), ptr.To(true)
		}
		out = append(out, r)
	}
	return out
}

// TestVerifC19RespectOwnerRefs: for a composed Usage (in any served version of
// the Usage API) that carries owner references, the option makes the desired
// object keep every one of them; other kinds are left alone.
func TestVerifC19RespectOwnerRefs(t *testing.T) {
	rec := verifkit.New(t, "C19", "RespectOwnerRefs() applied to generated (current, desired) pairs: current is a Usage in a served version or another kind, with 0-3 owner references; non-trivial = current Usage has an owner reference the desired one lacks")
	rapid.Check(t, func(t *rapid.T) {
		rec.Eval()
		gvk := rapid.SampledFrom([]schema.GroupVersionKind{
			{Group: usageGroup, Version: "v1beta1", Kind: "Usage"},
			{Group: usageGroup, Version: "v1alpha1", Kind: "Usage"},
			{Group: usageGroup, Version: "v1", Kind: "Composition"},
			{Group: "example.org", Version: "v1beta1", Kind: "Usage"},
		}).Draw(t, "gvk")
		cur := composed.New()
		cur.SetGroupVersionKind(gvk)
		cur.SetName("x")
		cur.SetOwnerReferences(genOwnerRefs(t, "current", 3))
		des := composed.New()
		des.SetGroupVersionKind(gvk)
		des.SetName("x")
		desRefs := genOwnerRefs(t, "desired", 2)
		des.SetOwnerReferences(desRefs)
		rec.Labelf("kind=%s/%s", gvk.Group, gvk.Kind)
		if err := usagectl.RespectOwnerRefs()(context.Background(), cur, des); err != nil {
			t.Fatalf("RespectOwnerRefs returned %v", err)
		}
		isUsage := gvk.Group == usageGroup && gvk.Kind == "Usage"
		if !isUsage {
			if !reflect.DeepEqual(des.GetOwnerReferences(), desRefs) {
				t.Fatalf("RespectOwnerRefs changed the owner references of a %v: %v -> %v", gvk, desRefs, des.GetOwnerReferences())
			}
			return
		}
		for _, r := range cur.GetOwnerReferences() {
			found := false
			for _, d := range des.GetOwnerReferences() {
				if d.UID == r.UID {
					found = true
				}
			}
			missingBefore := true
			for _, d := range desRefs {
				if d.UID == r.UID {
					missingBefore = false
				}
			}
			if missingBefore {
				rec.NonTrivial(fmt.Sprintf("%v|%v|%v", gvk, cur.GetOwnerReferences(), desRefs), func() any {
					return map[string]any{"gvk": gvk.String(), "current": cur.GetOwnerReferences(), "desired": desRefs}
				})
			}
			if !found {
				t.Fatalf("clause 4: applying a composed %s/%s Usage would strip the owner reference %s/%s (uid %s) that the existing Usage carries: current %v, desired after RespectOwnerRefs %v",
					gvk.Group, gvk.Version, r.Kind, r.Name, r.UID, cur.GetOwnerReferences(), des.GetOwnerReferences())
			}
		}
	})
}
