//go:build verif

// Package c19 decides property C19: an in-use resource cannot be deleted, and
// protection ends exactly when use ends.
//
// The real webhook (index function + handler, obtained together from
// usage.SetupWebhookWithManager on a fake manager), the real Usage reconciler
// with the real selector resolver, the objectSelector/rules of
// cluster/webhookconfigurations/usage.yaml and the P&T composer's apply path
// (APIPatchingApplicator + MustBeControllableBy + usage.RespectOwnerRefs) run
// against the simulated API server.
package c19

import (
	"bytes"
	"context"
	"encoding/json"
	"fmt"
	"net/http"
	"net/http/httptest"
	"os"
	"path/filepath"
	"sort"
	"strings"
	"sync"
	"sync/atomic"
	"time"

	"github.com/go-logr/logr"
	admissionv1 "k8s.io/api/admission/v1"
	admissionregv1 "k8s.io/api/admissionregistration/v1"
	authenticationv1 "k8s.io/api/authentication/v1"
	kerrors "k8s.io/apimachinery/pkg/api/errors"
	metav1 "k8s.io/apimachinery/pkg/apis/meta/v1"
	"k8s.io/apimachinery/pkg/apis/meta/v1/unstructured"
	"k8s.io/apimachinery/pkg/labels"
	"k8s.io/apimachinery/pkg/runtime"
	"k8s.io/apimachinery/pkg/runtime/schema"
	"k8s.io/apimachinery/pkg/types"
	"sigs.k8s.io/controller-runtime/pkg/client"
	"sigs.k8s.io/controller-runtime/pkg/client/apiutil"
	logf "sigs.k8s.io/controller-runtime/pkg/log"
	"sigs.k8s.io/controller-runtime/pkg/manager"
	"sigs.k8s.io/controller-runtime/pkg/reconcile"
	"sigs.k8s.io/controller-runtime/pkg/webhook"
	"sigs.k8s.io/yaml"

	corev1 "k8s.io/api/core/v1"

	xpcontroller "github.com/crossplane/crossplane-runtime/pkg/controller"
	"github.com/crossplane/crossplane-runtime/pkg/logging"
	xpresource "github.com/crossplane/crossplane-runtime/pkg/resource"
	"github.com/crossplane/crossplane-runtime/pkg/resource/unstructured/composed"
	ucomposite "github.com/crossplane/crossplane-runtime/pkg/resource/unstructured/composite"

	apiextv1 "github.com/crossplane/crossplane/apis/apiextensions/v1"
	xrcomposite "github.com/crossplane/crossplane/internal/controller/apiextensions/composite"
	usagectl "github.com/crossplane/crossplane/internal/controller/apiextensions/usage"
	usagewebhook "github.com/crossplane/crossplane/internal/usage"
	"github.com/crossplane/crossplane/internal/verifkit"
	"github.com/crossplane/crossplane/internal/verifsim"
)

func init() { logf.SetLogger(logr.Discard()) }

const (
	usageGroup = "apiextensions.crossplane.io"
	// The annotation the property calls "the attempt is recorded on that
	// resource" (documented contract of internal/usage/handler.go).
	attemptAnnotation = "usage.crossplane.io/deletion-attempt-with-policy"
	compositeLabel    = "crossplane.io/composite"
	ownerKind         = "XOwner"
	findingKey        = "label-removal-race"
)

var (
	usageGK = schema.GroupKind{Group: usageGroup, Kind: "Usage"}
	scheme  = verifsim.NewScheme()
)

// ---------------------------------------------------------------------------
// fake manager: captures the real index function and the real webhook handler

type capturedIndex struct {
	gk    schema.GroupKind
	field string
	fn    client.IndexerFunc
}

type fakeIndexer struct{ mgr *fakeMgr }

func (f fakeIndexer) IndexField(_ context.Context, obj client.Object, field string, fn client.IndexerFunc) error {
	gvk, err := apiutil.GVKForObject(obj, f.mgr.scheme)
	if err != nil {
		return err
	}
	f.mgr.indexes = append(f.mgr.indexes, capturedIndex{gk: gvk.GroupKind(), field: field, fn: fn})
	return nil
}

type fakeWebhookServer struct {
	webhook.Server
	mgr *fakeMgr
}

func (f fakeWebhookServer) Register(path string, hook http.Handler) {
	if f.mgr.hooks == nil {
		f.mgr.hooks = map[string]http.Handler{}
	}
	f.mgr.hooks[path] = hook
}

// fakeMgr embeds the nil interface: any method the code under test calls that
// is not implemented here panics, which is what we want to learn about.
type fakeMgr struct {
	manager.Manager
	c       client.Client
	scheme  *runtime.Scheme
	indexes []capturedIndex
	hooks   map[string]http.Handler
}

func (m *fakeMgr) GetClient() client.Client             { return m.c }
func (m *fakeMgr) GetScheme() *runtime.Scheme           { return m.scheme }
func (m *fakeMgr) GetFieldIndexer() client.FieldIndexer { return fakeIndexer{m} }
func (m *fakeMgr) GetWebhookServer() webhook.Server     { return fakeWebhookServer{mgr: m} }
func (m *fakeMgr) GetLogger() logr.Logger               { return logr.Discard() }
func (m *fakeMgr) GetAPIReader() client.Reader          { return m.c }

// ---------------------------------------------------------------------------
// webhook configuration (cluster/webhookconfigurations/usage.yaml)

type webhookEntry struct {
	name       string
	selector   labels.Selector
	rules      []admissionregv1.RuleWithOperations
	failClosed bool
}

func repoDir() string {
	if d := os.Getenv("VERIF_REPO"); d != "" {
		return d
	}
	return "/repo"
}

// loadWebhookEntries returns the webhooks of usage.yaml that are routed to path.
func loadWebhookEntries(path string) ([]webhookEntry, error) {
	b, err := os.ReadFile(filepath.Join(repoDir(), "cluster", "webhookconfigurations", "usage.yaml"))
	if err != nil {
		return nil, err
	}
	cfg := admissionregv1.ValidatingWebhookConfiguration{}
	if err := yaml.Unmarshal(b, &cfg); err != nil {
		return nil, err
	}
	var out []webhookEntry
	for _, wh := range cfg.Webhooks {
		if wh.ClientConfig.Service == nil || wh.ClientConfig.Service.Path == nil || *wh.ClientConfig.Service.Path != path {
			continue
		}
		sel := labels.Everything()
		if wh.ObjectSelector != nil {
			if sel, err = metav1.LabelSelectorAsSelector(wh.ObjectSelector); err != nil {
				return nil, err
			}
		}
		e := webhookEntry{name: wh.Name, selector: sel, rules: wh.Rules, failClosed: true}
		if wh.FailurePolicy != nil && *wh.FailurePolicy == admissionregv1.Ignore {
			e.failClosed = false
		}
		out = append(out, e)
	}
	return out, nil
}

func has(l []string, vs ...string) bool {
	for _, e := range l {
		for _, v := range vs {
			if e == v {
				return true
			}
		}
	}
	return false
}

func (e webhookEntry) matches(op admissionregv1.OperationType, gvk schema.GroupVersionKind, lbls map[string]string) bool {
	if !e.selector.Matches(labels.Set(lbls)) {
		return false
	}
	res := strings.ToLower(gvk.Kind) + "s"
	for _, r := range e.rules {
		opOK := false
		for _, o := range r.Operations {
			if o == admissionregv1.OperationAll || o == op {
				opOK = true
			}
		}
		if !opOK || !has(r.APIGroups, "*", gvk.Group) || !has(r.APIVersions, "*", gvk.Version) || !has(r.Resources, "*", "*/*", res) {
			continue
		}
		if r.Scope != nil && *r.Scope != admissionregv1.AllScopes && *r.Scope != admissionregv1.ClusterScope {
			continue
		}
		return true
	}
	return false
}

// ---------------------------------------------------------------------------
// client wrapper: numbers the API calls of one reconcile, can park the
// reconcile before call index pauseAt, and refuses calls after the reconcile
// has returned (the replayDeletion goroutine fires two seconds later).

type hookClient struct {
	client.Client
	w       *world
	actor   string
	n       int
	pauseAt int // -1: never
	parked  chan struct{}
	release chan struct{}
	closed  atomic.Bool
}

var errClosed = fmt.Errorf("c19: reconcile already returned")

func (h *hookClient) before() error {
	if h.closed.Load() {
		return errClosed
	}
	idx := h.n
	h.n++
	if idx == h.pauseAt {
		h.parked <- struct{}{}
		<-h.release
	}
	return nil
}

func (h *hookClient) Get(ctx context.Context, key client.ObjectKey, obj client.Object, opts ...client.GetOption) error {
	if err := h.before(); err != nil {
		return err
	}
	return h.Client.Get(ctx, key, obj, opts...)
}

func (h *hookClient) List(ctx context.Context, list client.ObjectList, opts ...client.ListOption) error {
	if err := h.before(); err != nil {
		return err
	}
	if h.w != nil {
		// Nothing else writes while a reconcile is between two of its API calls, so
		// this is the store at the instant of the List.
		h.w.snapshotCandidates(h.actor, list)
	}
	return h.Client.List(ctx, list, opts...)
}

func (h *hookClient) Create(ctx context.Context, obj client.Object, opts ...client.CreateOption) error {
	if err := h.before(); err != nil {
		return err
	}
	return h.Client.Create(ctx, obj, opts...)
}

func (h *hookClient) Delete(ctx context.Context, obj client.Object, opts ...client.DeleteOption) error {
	if err := h.before(); err != nil {
		return err
	}
	return h.Client.Delete(ctx, obj, opts...)
}

func (h *hookClient) Update(ctx context.Context, obj client.Object, opts ...client.UpdateOption) error {
	if err := h.before(); err != nil {
		return err
	}
	return h.Client.Update(ctx, obj, opts...)
}

func (h *hookClient) Patch(ctx context.Context, obj client.Object, p client.Patch, opts ...client.PatchOption) error {
	if err := h.before(); err != nil {
		return err
	}
	return h.Client.Patch(ctx, obj, p, opts...)
}

func (h *hookClient) DeleteAllOf(ctx context.Context, obj client.Object, opts ...client.DeleteAllOfOption) error {
	if err := h.before(); err != nil {
		return err
	}
	return h.Client.DeleteAllOf(ctx, obj, opts...)
}

func (h *hookClient) Status() client.SubResourceWriter { return h.SubResource("status") }

func (h *hookClient) SubResource(sub string) client.SubResourceClient {
	return &hookSub{SubResourceClient: h.Client.SubResource(sub), h: h}
}

type hookSub struct {
	client.SubResourceClient
	h *hookClient
}

func (s *hookSub) Update(ctx context.Context, obj client.Object, opts ...client.SubResourceUpdateOption) error {
	if err := s.h.before(); err != nil {
		return err
	}
	return s.SubResourceClient.Update(ctx, obj, opts...)
}

func (s *hookSub) Patch(ctx context.Context, obj client.Object, p client.Patch, opts ...client.SubResourcePatchOption) error {
	if err := s.h.before(); err != nil {
		return err
	}
	return s.SubResourceClient.Patch(ctx, obj, p, opts...)
}

// ---------------------------------------------------------------------------
// the world

// ident is one (group, kind, name) a resource can have. All are cluster scoped.
type ident struct{ Group, Kind, Name string }

var idents = []ident{
	{"example.org", "Thing", "a"},
	{"example.org", "Thing", "b"},
	{"example.org", "Gadget", "a"},
	{"other.org", "Thing", "a"},
	{"example.org", "Thing", "c"},
	// The core group: apiVersion "v1" has no group part at all.
	{"", "Namespace", "ns1"},
}

var (
	versions   = []string{"v1", "v1beta1"}
	usageNames = []string{"u0", "u1", "u2", "u3"}
	ownerNames = []string{"o1", "o2"}
)

// versions are the served versions of the identity's kind.
func (i ident) versions() []string {
	if i.Group == "" {
		return []string{"v1"}
	}
	return versions
}

// apiVersion renders the apiVersion string of the identity in a served version.
func (i ident) apiVersion(ver string) string {
	if i.Group == "" {
		return "v1"
	}
	return i.Group + "/" + ver
}

func (i ident) key() verifsim.Key { return verifsim.Key{Group: i.Group, Kind: i.Kind, Name: i.Name} }

func usageKey(name string) verifsim.Key {
	return verifsim.Key{Group: usageGroup, Kind: "Usage", Name: name}
}

// candidate is what a selector can see of one resource.
type candidate struct {
	labels  map[string]string
	ctrlUID string
}

type goneRec struct {
	obj verifsim.Obj
	seq int
}

type pendingVerdict struct {
	key    verifsim.Key
	denied error
}

type world struct {
	sim      *verifsim.Sim
	rec      *verifkit.Recorder
	fail     func(format string, a ...any)
	hook     http.Handler
	hookPath string
	entries  []webhookEntry

	mu         sync.Mutex
	lastGone   map[verifsim.Key]goneRec // last state of objects that are gone, and when they went
	recStart   map[string]int           // actor of a reconcile -> sequence number of the last write before it started
	listSnap   map[string]map[schema.GroupKind]map[string]candidate // actor -> kind -> name -> what its latest List of that kind could see
	protUID    map[string]string // Usage UID -> UID of the used resource it protected when Ready was stored ("-" if none)
	pending    *pendingVerdict
	lastDenied bool

	hist       []string
	nontrivial bool
	uidSeq     int

	// interleaving state
	nested            bool
	pausedUsage       string
	pausedTerminating bool
	raceOpen          bool
}

func (w *world) logf(format string, a ...any) { w.hist = append(w.hist, fmt.Sprintf(format, a...)) }

func (w *world) violate(format string, a ...any) {
	w.fail("%s\nhistory:\n  %s", fmt.Sprintf(format, a...), strings.Join(w.hist, "\n  "))
}

func (w *world) markerPresent(o verifsim.Obj) bool {
	if o == nil {
		return false
	}
	for _, e := range w.entries {
		if e.selector.Matches(labels.Set(verifsim.Labels(o))) {
			return true
		}
	}
	return false
}

func isReady(o verifsim.Obj) bool {
	if o == nil {
		return false
	}
	l, _ := verifsim.Nested(o, "status", "conditions").([]any)
	for _, c := range l {
		m, _ := c.(map[string]any)
		if m["type"] == "Ready" && m["status"] == "True" {
			return true
		}
	}
	return false
}

// named returns the resource a stored Usage names as used (ok=false while its
// selector is unresolved) and the group/kind it could still resolve to.
func named(u verifsim.Obj, which string) (k verifsim.Key, ok bool, gk schema.GroupKind) {
	r, _ := verifsim.Nested(u, "spec", which).(map[string]any)
	if r == nil {
		return k, false, gk
	}
	av, _ := r["apiVersion"].(string)
	gv, err := schema.ParseGroupVersion(av)
	if err != nil {
		return k, false, gk
	}
	kind, _ := r["kind"].(string)
	gk = schema.GroupKind{Group: gv.Group, Kind: kind}
	name, _ := verifsim.Nested(r, "resourceRef", "name").(string)
	if name == "" {
		return k, false, gk
	}
	return verifsim.Key{Group: gv.Group, Kind: kind, Name: name}, true, gk
}

func newWorld(rec *verifkit.Recorder, fail func(string, ...any)) *world {
	w := &world{sim: verifsim.New(scheme), rec: rec, fail: fail, protUID: map[string]string{}, lastGone: map[verifsim.Key]goneRec{}, recStart: map[string]int{}, listSnap: map[string]map[schema.GroupKind]map[string]candidate{}}
	w.sim.ClusterScoped = func(schema.GroupKind) bool { return true }
	w.raceOpen = verifkit.OpenFinding("C19", findingKey)

	mgr := &fakeMgr{c: w.sim.Client("webhook"), scheme: scheme}
	if err := usagewebhook.SetupWebhookWithManager(mgr, xpcontroller.Options{Logger: logging.NewNopLogger()}); err != nil {
		fail("SetupWebhookWithManager: %v", err)
	}
	for _, ix := range mgr.indexes {
		w.sim.RegisterIndex(ix.gk, ix.field, ix.fn)
	}
	if len(mgr.hooks) != 1 {
		fail("SetupWebhookWithManager registered %d webhooks, the harness expects exactly one", len(mgr.hooks))
	}
	for p, h := range mgr.hooks {
		w.hookPath, w.hook = p, h
	}
	entries, err := loadWebhookEntries(w.hookPath)
	if err != nil {
		fail("VERIF-INCONCLUSIVE cannot load usage.yaml: %v", err)
	}
	w.entries = entries

	w.sim.AddAdmission(w.admitDelete)
	w.sim.AddMonitor(w.monitor)

	for _, n := range ownerNames {
		w.sim.MustCreate("setup", verifsim.U(verifsim.Obj{"apiVersion": "example.org/v1", "kind": ownerKind, "metadata": map[string]any{"name": n}}))
	}
	return w
}

// admitDelete is the API server's admission gate for DELETE: the verdict was
// obtained from the webhook by deleteRequest (outside the store lock, as the
// real API server calls webhooks); here it is enforced at the instant of the delete.
func (w *world) admitDelete(_ *verifsim.View, op verifsim.Op) error {
	if op.Verb != "delete" || op.DryRun {
		return nil
	}
	invoked := false
	for _, e := range w.entries {
		if e.matches(admissionregv1.Delete, op.GVK, verifsim.Labels(op.Old)) {
			invoked = true
		}
	}
	if !invoked {
		return nil
	}
	w.mu.Lock()
	defer w.mu.Unlock()
	if w.pending == nil || w.pending.key != op.Key {
		return kerrors.NewInternalError(fmt.Errorf("VERIF-INCONCLUSIVE c19 harness: delete of %s by %s did not go through the webhook path", op.Key, op.Actor))
	}
	if w.pending.denied != nil {
		w.lastDenied = true
		return w.pending.denied
	}
	return nil
}

// monitor evaluates the marker clauses at the instant of every write.
func (w *world) monitor(v *verifsim.View, wr *verifsim.Write) {
	if wr.Err != "" || wr.DryRun {
		return
	}
	if wr.Removed && wr.Before != nil {
		w.mu.Lock()
		w.lastGone[wr.Key] = goneRec{obj: wr.Before, seq: wr.Seq}
		w.mu.Unlock()
	}
	if wr.Key.GK() == usageGK {
		w.checkResolution(v, wr)
		// (3a) the marker is on the used resource at the moment Ready=True is stored.
		if wr.After != nil && isReady(wr.After) && !isReady(wr.Before) {
			rk, ok, _ := named(wr.After, "of")
			r := v.Get(rk)
			prot := "-"
			switch {
			case !ok:
				v.Violate("Ready=True stored on Usage %s (write #%d by %s) although it names no used resource", wr.Key.Name, wr.Seq, wr.Actor)
			case r == nil || !w.markerPresent(r):
				// "The in-use marker is put on the used resource before the Usage reports
				// ready" speaks about the object the reconcile marked. The only way that
				// object can be gone (or be replaced by a new, unmarked object of the same
				// name) at this instant is that another actor removed it WHILE this
				// reconcile was in flight, which needs a deletion accepted before any
				// protection existed. That is accepted if, and only if, the incarnation
				// that went away during this very reconcile carried the marker. The new
				// incarnation is not counted as protected by this Ready (prot stays "-"),
				// exactly like the sequential variant of the same history.
				w.mu.Lock()
				gone := w.lastGone[rk]
				start, known := w.recStart[wr.Actor]
				w.mu.Unlock()
				excused := known && gone.obj != nil && gone.seq > start && w.markerPresent(gone.obj) &&
					(r == nil || verifsim.MetaString(r, "uid") != verifsim.MetaString(gone.obj, "uid"))
				switch {
				case excused:
					w.rec.Label("ready:used-resource-replaced-in-flight")
				case r == nil:
					v.Violate("Ready=True stored on Usage %s (write #%d by %s) but the used resource %s does not exist and no marked incarnation of it went away during this reconcile", wr.Key.Name, wr.Seq, wr.Actor, rk)
				default:
					v.Violate("Ready=True stored on Usage %s (write #%d by %s) but the used resource %s does not carry the in-use marker (labels %v)", wr.Key.Name, wr.Seq, wr.Actor, rk, verifsim.Labels(r))
				}
			case !verifsim.Terminating(r):
				prot = verifsim.MetaString(r, "uid")
			}
			w.mu.Lock()
			w.protUID[verifsim.MetaString(wr.After, "uid")] = prot
			w.mu.Unlock()
		}
		return
	}
	// (3b) the marker is removed only by the reconcile of the last remaining Usage.
	if wr.Before != nil && wr.After != nil && w.markerPresent(wr.Before) && !w.markerPresent(wr.After) {
		w.rec.Label("marker-removed")
		for _, uk := range v.List(usageGK) {
			u := v.Get(uk)
			if nk, ok, _ := named(u, "of"); ok && nk == wr.Key && !verifsim.Terminating(u) {
				v.Violate("in-use marker removed from %s (write #%d by %s) while Usage %s (ready=%v, not being deleted) still names it", wr.Key, wr.Seq, wr.Actor, uk.Name, isReady(u))
			}
		}
		if strings.HasPrefix(wr.Actor, "usage-reconcile/") {
			u := v.Get(usageKey(strings.TrimPrefix(wr.Actor, "usage-reconcile/")))
			nk, ok, _ := named(u, "of")
			if u == nil || !ok || nk != wr.Key || !verifsim.Terminating(u) {
				v.Violate("in-use marker removed from %s (write #%d) by the reconcile of %s, which is not a Usage of that resource that is being deleted", wr.Key, wr.Seq, wr.Actor)
			}
		}
	}
}

func (w *world) snapshotCandidates(actor string, list client.ObjectList) {
	gvk := list.GetObjectKind().GroupVersionKind()
	gk := schema.GroupKind{Group: gvk.Group, Kind: strings.TrimSuffix(gvk.Kind, "List")}
	if gk.Kind == "" || gk == usageGK {
		return
	}
	snap := map[string]candidate{}
	for _, k := range w.sim.Keys(gk) {
		if o := w.sim.Get(k); o != nil {
			snap[k.Name] = candidate{labels: verifsim.Labels(o), ctrlUID: verifsim.ControllerUID(o)}
		}
	}
	w.mu.Lock()
	if w.listSnap[actor] == nil {
		w.listSnap[actor] = map[schema.GroupKind]map[string]candidate{}
	}
	w.listSnap[actor][gk] = snap
	w.mu.Unlock()
}

// selectorOf returns the resourceSelector of spec.<which> of a stored Usage.
func selectorOf(u verifsim.Obj, which string) (matchLabels map[string]string, matchCtrl, ok bool) {
	sel, _ := verifsim.Nested(u, "spec", which, "resourceSelector").(map[string]any)
	if sel == nil {
		return nil, false, false
	}
	matchLabels = map[string]string{}
	ml, _ := sel["matchLabels"].(map[string]any)
	for k, v := range ml {
		matchLabels[k] = fmt.Sprint(v)
	}
	matchCtrl, _ = sel["matchControllerRef"].(bool)
	return matchLabels, matchCtrl, true
}

// valid is the documented meaning of a resource selector (apis/apiextensions
// usage_types.go): "MatchLabels ensures an object with matching labels is
// selected. MatchControllerRef ensures an object with the same controller
// reference as the selecting object is selected." Two objects without any
// controller do not have the same controller.
func (c candidate) valid(matchLabels map[string]string, matchCtrl bool, usageCtrlUID string) bool {
	for k, v := range matchLabels {
		if got, ok := c.labels[k]; !ok || got != v {
			return false
		}
	}
	return !matchCtrl || (c.ctrlUID != "" && c.ctrlUID == usageCtrlUID)
}

// checkResolution judges the write with which a reconcile resolves a selector:
// the resource it names must be one the selector selects, judged on the store
// as it was at the instant of that reconcile's List.
func (w *world) checkResolution(v *verifsim.View, wr *verifsim.Write) {
	if !strings.HasPrefix(wr.Actor, "usage-reconcile/") || wr.After == nil {
		return
	}
	for _, which := range []string{"of", "by"} {
		nk, resolved, gk := named(wr.After, which)
		if _, was, _ := named(wr.Before, which); was || !resolved {
			continue
		}
		matchLabels, matchCtrl, ok := selectorOf(wr.After, which)
		if !ok {
			v.Violate("reconcile of Usage %s (write #%d) filled in spec.%s.resourceRef (%s) although spec.%s has no resourceSelector", wr.Key.Name, wr.Seq, which, nk.Name, which)
			continue
		}
		w.mu.Lock()
		snap, known := w.listSnap[wr.Actor][gk]
		w.mu.Unlock()
		if !known {
			// The reconcile resolved without listing through its client: judge on the store now.
			snap = map[string]candidate{}
			for _, k := range v.List(gk) {
				o := v.Get(k)
				snap[k.Name] = candidate{labels: verifsim.Labels(o), ctrlUID: verifsim.ControllerUID(o)}
			}
		}
		uCtrl := verifsim.ControllerUID(wr.After)
		var validNames, uncontrolled []string
		for n, c := range snap {
			if c.valid(matchLabels, matchCtrl, uCtrl) {
				validNames = append(validNames, n)
			}
			if c.ctrlUID == "" && c.valid(matchLabels, false, "") {
				uncontrolled = append(uncontrolled, n)
			}
		}
		sort.Strings(validNames)
		sort.Strings(uncontrolled)
		w.rec.Labelf("resolve:%s(matchControllerRef=%v)", which, matchCtrl)
		if matchCtrl && uCtrl != "" && len(uncontrolled) > 0 {
			w.nontrivial = true
			w.rec.Labelf("resolve:uncontrolled-label-matching-candidate-for-controlled-usage(right-one-exists=%v)", len(validNames) > 0)
		}
		got, seen := snap[nk.Name]
		if !seen || !got.valid(matchLabels, matchCtrl, uCtrl) {
			v.Violate("selector resolution: reconcile of Usage %s (controller uid %q) resolved spec.%s.resourceSelector {matchLabels %v, matchControllerRef %v} to %s (seen by its List: %v, labels %v, controller uid %q), which the selector does not select; resources it does select: %v",
				wr.Key.Name, uCtrl, which, matchLabels, matchCtrl, nk, seen, got.labels, got.ctrlUID, validNames)
		}
	}
}

// lastSeq is the sequence number of the last write the server has seen.
func (w *world) lastSeq() int {
	l := w.sim.Log()
	if len(l) == 0 {
		return 0
	}
	return l[len(l)-1].Seq
}

func (w *world) checkMonitors(ctx string) {
	if vs := w.sim.TakeViolations(); len(vs) > 0 {
		w.violate("%s: %s", ctx, strings.Join(vs, "\n"))
	}
}

// ---------------------------------------------------------------------------
// object construction

type resRef struct {
	ID        int    `json:"id"`
	Ver       string `json:"ver"`
	ByName    bool   `json:"byName,omitempty"`
	Sel       bool   `json:"sel,omitempty"`
	Tier      string `json:"tier,omitempty"`
	MatchCtrl *bool  `json:"matchCtrl,omitempty"`
}

type usageSpec struct {
	Name     string  `json:"name"`
	APIVer   string  `json:"apiVer"`
	Of       resRef  `json:"of"`
	By       *resRef `json:"by,omitempty"`
	Reason   bool    `json:"reason,omitempty"`
	Replay   *bool   `json:"replay,omitempty"`
	Owner    string  `json:"owner,omitempty"`
	Composed bool    `json:"composed,omitempty"`
}

func (r resRef) render() map[string]any {
	id := idents[r.ID]
	m := map[string]any{"apiVersion": id.apiVersion(r.Ver), "kind": id.Kind}
	if r.ByName {
		m["resourceRef"] = map[string]any{"name": id.Name}
	}
	if r.Sel {
		s := map[string]any{"matchLabels": map[string]any{"tier": r.Tier}}
		if r.MatchCtrl != nil {
			s["matchControllerRef"] = *r.MatchCtrl
		}
		m["resourceSelector"] = s
	}
	return m
}

func (w *world) ownerRef(name string) map[string]any {
	o := w.sim.Get(verifsim.Key{Group: "example.org", Kind: ownerKind, Name: name})
	return map[string]any{"apiVersion": "example.org/v1", "kind": ownerKind, "name": name, "uid": verifsim.MetaString(o, "uid"), "controller": true, "blockOwnerDeletion": true}
}

// render produces the Usage as its author (a user, or the composer from a
// template) writes it: selectors unresolved.
func (w *world) renderUsage(us usageSpec) verifsim.Obj {
	spec := map[string]any{"of": us.Of.render()}
	if us.By != nil {
		spec["by"] = us.By.render()
	}
	if us.Reason {
		spec["reason"] = "because"
	}
	if us.Replay != nil {
		spec["replayDeletion"] = *us.Replay
	}
	meta := map[string]any{"name": us.Name}
	if us.Owner != "" {
		meta["ownerReferences"] = []any{w.ownerRef(us.Owner)}
	}
	if us.Composed {
		meta["labels"] = map[string]any{compositeLabel: us.Owner}
	}
	return verifsim.Obj{"apiVersion": usageGroup + "/" + us.APIVer, "kind": "Usage", "metadata": meta, "spec": spec}
}

// ---------------------------------------------------------------------------
// the DELETE path

func (w *world) callWebhook(e webhookEntry, served verifsim.Obj, gvk schema.GroupVersionKind, opts metav1.DeleteOptions) error {
	w.uidSeq++
	raw, _ := json.Marshal(served)
	opts.TypeMeta = metav1.TypeMeta{APIVersion: "meta.k8s.io/v1", Kind: "DeleteOptions"}
	oraw, _ := json.Marshal(opts)
	ar := admissionv1.AdmissionReview{
		TypeMeta: metav1.TypeMeta{APIVersion: "admission.k8s.io/v1", Kind: "AdmissionReview"},
		Request: &admissionv1.AdmissionRequest{
			UID:             types.UID(fmt.Sprintf("req-%d", w.uidSeq)),
			Kind:            metav1.GroupVersionKind{Group: gvk.Group, Version: gvk.Version, Kind: gvk.Kind},
			Resource:        metav1.GroupVersionResource{Group: gvk.Group, Version: gvk.Version, Resource: strings.ToLower(gvk.Kind) + "s"},
			RequestKind:     &metav1.GroupVersionKind{Group: gvk.Group, Version: gvk.Version, Kind: gvk.Kind},
			RequestResource: &metav1.GroupVersionResource{Group: gvk.Group, Version: gvk.Version, Resource: strings.ToLower(gvk.Kind) + "s"},
			Name:            verifsim.MetaString(served, "name"),
			Operation:       admissionv1.Delete,
			UserInfo:        authenticationv1.UserInfo{Username: "someone"},
			OldObject:       runtime.RawExtension{Raw: raw},
			Options:         runtime.RawExtension{Raw: oraw},
		},
	}
	body, _ := json.Marshal(ar)
	req := httptest.NewRequest(http.MethodPost, w.hookPath, bytes.NewReader(body))
	req.Header.Set("Content-Type", "application/json")
	rr := httptest.NewRecorder()
	w.hook.ServeHTTP(rr, req)
	out := admissionv1.AdmissionReview{}
	if err := json.Unmarshal(rr.Body.Bytes(), &out); err != nil || out.Response == nil {
		// The API server could not call the webhook.
		if e.failClosed {
			return kerrors.NewInternalError(fmt.Errorf("failed calling webhook %q: %v (body %q)", e.name, err, rr.Body.String()))
		}
		return nil
	}
	if out.Response.Allowed {
		return nil
	}
	st := metav1.Status{Status: metav1.StatusFailure, Code: http.StatusBadRequest, Reason: metav1.StatusReasonBadRequest}
	if r := out.Response.Result; r != nil {
		st.Code, st.Reason, st.Message = r.Code, r.Reason, r.Message
	}
	st.Message = fmt.Sprintf("admission webhook %q denied the request: %s%s", e.name, st.Message, st.Reason)
	return &kerrors.StatusError{ErrStatus: st}
}

type deleteOutcome struct {
	invoked  bool
	refused  bool
	notFound bool
	err      error
}

// deleteRequest is one DELETE request of an API client, in the given version
// and with the given propagation policy (nil = none given).
func (w *world) deleteRequest(actor string, key verifsim.Key, version string, policy *metav1.DeletionPropagation) deleteOutcome {
	gvk := schema.GroupVersionKind{Group: key.Group, Version: version, Kind: key.Kind}
	out := deleteOutcome{}
	cur := w.sim.Get(key)
	var verdict error
	if cur != nil {
		served := verifsim.DeepCopy(cur)
		served["apiVersion"] = gvk.GroupVersion().String()
		for _, e := range w.entries {
			if e.matches(admissionregv1.Delete, gvk, verifsim.Labels(cur)) {
				out.invoked = true
				if verdict = w.callWebhook(e, served, gvk, metav1.DeleteOptions{PropagationPolicy: policy}); verdict != nil {
					break
				}
			}
		}
	}
	w.mu.Lock()
	w.pending, w.lastDenied = &pendingVerdict{key: key, denied: verdict}, false
	w.mu.Unlock()
	u := &unstructured.Unstructured{}
	u.SetGroupVersionKind(gvk)
	u.SetName(key.Name)
	var opts []client.DeleteOption
	if policy != nil {
		opts = append(opts, client.PropagationPolicy(*policy))
	}
	out.err = w.sim.Client(actor).Delete(context.Background(), u, opts...)
	w.mu.Lock()
	out.refused = w.lastDenied
	w.pending = nil
	w.mu.Unlock()
	out.notFound = kerrors.IsNotFound(out.err)
	if out.err != nil && strings.Contains(out.err.Error(), "VERIF-INCONCLUSIVE") {
		w.fail("%v", out.err)
	}
	return out
}

type usageView struct {
	name        string
	uid         string
	ready       bool
	terminating bool
	ofVersion   string
}

// usagesOf partitions the stored Usages with respect to resource key k.
func (w *world) usagesOf(k verifsim.Key, kUID string) (protectors, namers, potential []usageView) {
	w.mu.Lock()
	prot := make(map[string]string, len(w.protUID))
	for k2, v := range w.protUID {
		prot[k2] = v
	}
	w.mu.Unlock()
	for _, uk := range w.sim.Keys(usageGK) {
		u := w.sim.Get(uk)
		if u == nil {
			continue
		}
		nk, ok, gk := named(u, "of")
		av, _ := verifsim.Nested(u, "spec", "of", "apiVersion").(string)
		gv, _ := schema.ParseGroupVersion(av)
		uv := usageView{name: uk.Name, uid: verifsim.MetaString(u, "uid"), ready: isReady(u), terminating: verifsim.Terminating(u), ofVersion: gv.Version}
		switch {
		case ok && nk == k:
			namers = append(namers, uv)
			if uv.ready && !uv.terminating && kUID != "" && prot[uv.uid] == kUID {
				protectors = append(protectors, uv)
			}
		case !ok && gk == k.GK():
			potential = append(potential, uv)
		}
	}
	return protectors, namers, potential
}

func policyString(p *metav1.DeletionPropagation) string {
	if p == nil {
		return "<none>"
	}
	return string(*p)
}

// checkedDelete performs a delete request and applies clauses (1) and (2).
func (w *world) checkedDelete(actor string, key verifsim.Key, version string, policy *metav1.DeletionPropagation) deleteOutcome {
	before := w.sim.Get(key)
	uid := verifsim.MetaString(before, "uid")
	protectors, namers, potential := w.usagesOf(key, uid)
	out := w.deleteRequest(actor, key, version, policy)
	w.logf("DELETE %s version=%s policy=%s -> invoked=%v refused=%v err=%v", key, version, policyString(policy), out.invoked, out.refused, out.err)
	w.checkMonitors("during DELETE of " + key.String())
	if before == nil {
		w.rec.Label("delete:not-found")
		return out
	}
	if key.GK() != usageGK {
		if key.Group == "" && len(namers) > 0 {
			w.rec.Labelf("delete:core-group-used-resource(protected=%v,usages=%d)", len(protectors) > 0, len(namers))
		}
		for _, n := range namers {
			if n.ofVersion != version {
				w.rec.Label("delete:other-version-than-usage")
				w.nontrivial = true
			}
		}
		if len(namers) >= 2 {
			w.nontrivial = true
		}
	}
	switch {
	case len(protectors) > 0:
		w.nontrivial = true
		w.rec.Label("delete:protected")
		if !out.refused {
			w.violate("clause 1: DELETE of %s (version %s, policy %s) was not refused although Usage %s is Ready and not being deleted and names it as used (webhook invoked: %v, labels %v, error: %v)",
				key, version, policyString(policy), protectors[0].name, out.invoked, verifsim.Labels(before), out.err)
		}
		want := string(metav1.DeletePropagationBackground)
		if policy != nil {
			want = string(*policy)
		}
		after := w.sim.Get(key)
		if got, ok := verifsim.Annotations(after)[attemptAnnotation]; !ok || got != want {
			w.violate("clause 1: refused DELETE of %s (policy %s) was not recorded on the resource: annotation %s = %q (present=%v), want %q", key, policyString(policy), attemptAnnotation, got, ok, want)
		}
		if after == nil || verifsim.Terminating(after) != verifsim.Terminating(before) {
			w.violate("clause 1: refused DELETE of %s changed the resource's deletion state", key)
		}
	case len(namers) == 0 && len(potential) == 0:
		w.rec.Labelf("delete:unnamed(webhook-invoked=%v)", out.invoked)
		if out.refused || out.err != nil {
			w.violate("clause 2: DELETE of %s (version %s, policy %s) failed although no Usage names it: refused=%v err=%v (webhook invoked: %v)", key, version, policyString(policy), out.refused, out.err, out.invoked)
		}
	default:
		w.rec.Labelf("delete:in-between(refused=%v)", out.refused)
	}
	return out
}

// ---------------------------------------------------------------------------
// reconciles

type recResult struct {
	res reconcile.Result
	err error
	pan any
}

// labelSelectorClass counts, before a reconcile, the class "a controlled Usage
// with matchControllerRef still has to resolve a selector while a label-matching
// resource WITHOUT any controller exists".
func (w *world) labelSelectorClass(name string) {
	u := w.sim.Get(usageKey(name))
	if u == nil {
		return
	}
	uCtrl := verifsim.ControllerUID(u)
	for _, which := range []string{"of", "by"} {
		_, resolved, gk := named(u, which)
		matchLabels, matchCtrl, ok := selectorOf(u, which)
		if resolved || !ok || !matchCtrl || uCtrl == "" {
			continue
		}
		right, uncontrolled := false, false
		for _, k := range w.sim.Keys(gk) {
			o := w.sim.Get(k)
			c := candidate{labels: verifsim.Labels(o), ctrlUID: verifsim.ControllerUID(o)}
			right = right || c.valid(matchLabels, true, uCtrl)
			uncontrolled = uncontrolled || (c.ctrlUID == "" && c.valid(matchLabels, false, ""))
		}
		if uncontrolled {
			w.nontrivial = true
			w.rec.Labelf("reconcile:uncontrolled-label-matching-candidate-for-controlled-usage(spec.%s,right-one-exists=%v)", which, right)
		}
	}
}

func (w *world) newReconciler(name string, plan map[int]verifsim.Fault, pauseAt int) (*usagectl.Reconciler, *hookClient, *verifsim.Run) {
	w.labelSelectorClass(name)
	run := w.sim.NewRun("usage-reconcile/"+name, plan)
	w.mu.Lock()
	w.recStart[run.Actor] = w.lastSeq()
	w.mu.Unlock()
	hc := &hookClient{Client: run.Client(), w: w, actor: run.Actor, pauseAt: pauseAt, parked: make(chan struct{}), release: make(chan struct{})}
	mgr := &fakeMgr{c: hc, scheme: scheme}
	return usagectl.NewReconciler(mgr, usagectl.WithPollInterval(time.Minute)), hc, run
}

// reconcile runs one reconcile of Usage name to completion with a fault plan.
func (w *world) reconcile(name string, plan map[int]verifsim.Fault) (recResult, *verifsim.Run) {
	before := w.sim.Get(usageKey(name))
	r, hc, run := w.newReconciler(name, plan, -1)
	out := recResult{}
	func() {
		defer func() {
			if p := recover(); p != nil {
				out.pan = p
			}
		}()
		out.res, out.err = r.Reconcile(context.Background(), reconcile.Request{NamespacedName: types.NamespacedName{Name: name}})
	}()
	hc.closed.Store(true)
	w.logf("RECONCILE %s plan=%v -> calls=%d requeue=%v err=%v", name, plan, run.N, out.res.Requeue, out.err)
	if out.pan != nil {
		w.violate("reconcile of Usage %s panicked: %v", name, out.pan)
	}
	w.checkMonitors("during reconcile of " + name)
	faulted := false
	for k := range plan {
		if k < run.N {
			faulted = true
		}
	}
	if !faulted {
		w.afterCleanReconcile(name, before, out)
	}
	return out, run
}

// afterCleanReconcile applies the clauses that speak about a complete,
// undisturbed reconcile: (4) ownership, and the documented "remove the in-use
// label if no other usages exist" contract of the deletion path.
func (w *world) afterCleanReconcile(name string, before verifsim.Obj, out recResult) {
	after := w.sim.Get(usageKey(name))
	if out.err == nil && !out.res.Requeue && after != nil && !verifsim.Terminating(after) {
		if !isReady(after) {
			w.violate("fault-free reconcile of Usage %s returned no error but the Usage is not Ready", name)
		}
		w.rec.Label("reconcile:ready")
		if bk, ok, _ := named(after, "by"); ok {
			using := w.sim.Get(bk)
			found := false
			for _, r := range verifsim.OwnerRefs(after) {
				if u, _ := r["uid"].(string); using != nil && u == verifsim.MetaString(using, "uid") {
					found = true
				}
			}
			w.rec.Label("reconcile:ready-with-by")
			if !found {
				w.violate("clause 4: after a successful reconcile Usage %s by %s carries no owner reference to that using resource (ownerReferences %v)", name, bk, verifsim.OwnerRefs(after))
			}
		} else if verifsim.Nested(after, "spec", "by") != nil {
			w.violate("clause 4: Usage %s is Ready but its spec.by names no resource", name)
		}
	}
	if out.err != nil {
		w.rec.Label("reconcile:error")
	}
	if w.nested || before == nil || !verifsim.Terminating(before) || after != nil || out.err != nil {
		return
	}
	// The Usage was being deleted and this reconcile let it go.
	w.rec.Label("reconcile:usage-released")
	rk, ok, _ := named(before, "of")
	if !ok {
		// the selector was resolved by this very reconcile; find it in the log
		for _, wr := range w.sim.Log() {
			if wr.Key == usageKey(name) && wr.After != nil {
				if k2, ok2, _ := named(wr.After, "of"); ok2 {
					rk, ok = k2, true
				}
			}
		}
	}
	r := w.sim.Get(rk)
	if !ok || r == nil {
		return
	}
	_, namers, _ := w.usagesOf(rk, "")
	if len(namers) == 0 && w.markerPresent(r) {
		w.violate("protection must end when use ends: the last Usage (%s) of %s is gone after an undisturbed reconcile, no other Usage names the resource, but it still carries the in-use marker (labels %v)", name, rk, verifsim.Labels(r))
	}
}

// reconcilePaused runs a reconcile of Usage name in a goroutine that parks
// before API call index k; during(…) runs while it is parked.
func (w *world) reconcilePaused(name string, k int, during func()) (recResult, bool) {
	r, hc, run := w.newReconciler(name, nil, k)
	done := make(chan recResult, 1)
	go func() {
		out := recResult{}
		defer func() {
			if p := recover(); p != nil {
				out.pan = p
			}
			done <- out
		}()
		out.res, out.err = r.Reconcile(context.Background(), reconcile.Request{NamespacedName: types.NamespacedName{Name: name}})
	}()
	var out recResult
	parked, released := false, false
	defer func() {
		// A failing nested action unwinds through here: do not leave the goroutine parked.
		if parked && !released {
			close(hc.release)
		}
	}()
	select {
	case <-hc.parked:
		parked = true
		w.logf("RECONCILE %s parked before API call %d", name, k)
		during()
		released = true
		close(hc.release)
		out = <-done
	case out = <-done:
	}
	hc.closed.Store(true)
	w.logf("RECONCILE %s (pause at %d, parked=%v) -> calls=%d %v requeue=%v err=%v", name, k, parked, run.N, run.Calls, out.res.Requeue, out.err)
	if out.pan != nil {
		w.violate("reconcile of Usage %s panicked: %v", name, out.pan)
	}
	w.checkMonitors("during interleaved reconcile of " + name)
	return out, parked
}

// ---------------------------------------------------------------------------
// the P&T composer's apply of a composed Usage

func (w *world) composerApply(us usageSpec) {
	key := usageKey(us.Name)
	before := w.sim.Get(key)
	desired := composed.New()
	// The composer renders the template in the version its author wrote.
	desired.SetUnstructuredContent(w.renderUsage(us))
	ownerUID := types.UID(fmt.Sprint(w.ownerRef(us.Owner)["uid"]))
	c := w.sim.Client("composer")
	err := xpresource.NewAPIPatchingApplicator(c).Apply(context.Background(), desired, xpresource.MustBeControllableBy(ownerUID), usagectl.RespectOwnerRefs())
	w.logf("COMPOSER-APPLY %s -> %v", us.Name, err)
	w.checkMonitors("during composer apply of " + us.Name)
	after := w.sim.Get(key)
	if before == nil || after == nil || err != nil {
		return
	}
	bk, ok, _ := named(before, "by")
	if !ok {
		return
	}
	using := w.sim.Get(bk)
	if using == nil {
		return
	}
	uid := verifsim.MetaString(using, "uid")
	had, hasNow := false, false
	for _, r := range verifsim.OwnerRefs(before) {
		if u, _ := r["uid"].(string); u == uid {
			had = true
		}
	}
	for _, r := range verifsim.OwnerRefs(after) {
		if u, _ := r["uid"].(string); u == uid {
			hasNow = true
		}
	}
	if had {
		w.rec.Label("composer-apply:over-owned-usage")
		if !hasNow {
			w.violate("clause 4: the composer's apply stripped the owner reference from Usage %s to its using resource %s (before %v, after %v)", us.Name, bk, verifsim.OwnerRefs(before), verifsim.OwnerRefs(after))
		}
	}
}

// ---------------------------------------------------------------------------
// the composers' garbage collection of composed resources whose template is gone

const resourceNameAnnotation = "crossplane.io/composition-resource-name"

func templateName(id int) string { return fmt.Sprintf("res-%d", id) }

// composerClient is the composer's client: every write goes to the simulated
// API server as actor "composer" (the marker monitors watch all of them) and
// every DELETE takes the same admission path as any other client's DELETE
// (usage.yaml selector/rules, the real handler, clauses 1 and 2).
type composerClient struct {
	client.Client
	w *world
}

func (c composerClient) Delete(_ context.Context, obj client.Object, opts ...client.DeleteOption) error {
	do := client.DeleteOptions{}
	do.ApplyOptions(opts)
	gvk := obj.GetObjectKind().GroupVersionKind()
	key := verifsim.Key{Group: gvk.Group, Kind: gvk.Kind, Namespace: obj.GetNamespace(), Name: obj.GetName()}
	return c.w.checkedDelete("composer", key, gvk.Version, do.PropagationPolicy).err
}

// composedBy returns the pool resources controlled by the XR stand-in owner.
func (w *world) composedBy(owner string) []int {
	uid := fmt.Sprint(w.ownerRef(owner)["uid"])
	var out []int
	for i, id := range idents {
		if o := w.sim.Get(id.key()); o != nil && verifsim.ControllerUID(o) == uid && verifsim.Annotations(o)[resourceNameAnnotation] != "" {
			out = append(out, i)
		}
	}
	return out
}

// composerGC runs the real garbage collection of a composer for the XR stand-in
// owner whose spec.resourceRefs name every pool resource it controls, after the
// Composition stopped producing the resources in drop. pipeline=false: the P&T
// composer's GarbageCollectingAssociator.AssociateTemplates with named
// templates; pipeline=true: the function composer's
// DeletingComposedResourceGarbageCollector.
func (w *world) composerGC(owner string, drop map[int]bool, version string, pipeline bool) {
	ctx := context.Background()
	ref := w.ownerRef(owner)
	xr := ucomposite.New()
	xr.SetAPIVersion("example.org/v1")
	xr.SetKind(ownerKind)
	xr.SetName(owner)
	xr.SetUID(types.UID(fmt.Sprint(ref["uid"])))
	cc := composerClient{Client: w.sim.Client("composer"), w: w}
	mode := "pt"
	if pipeline {
		mode = "pipeline"
	}
	var refs []corev1.ObjectReference
	ct := []apiextv1.ComposedTemplate{{Name: ptrTo("always-there")}}
	observed, desired := xrcomposite.ComposedResourceStates{}, xrcomposite.ComposedResourceStates{}
	var dropped []string
	for _, i := range w.composedBy(owner) {
		id := idents[i]
		refs = append(refs, corev1.ObjectReference{APIVersion: id.apiVersion(version), Kind: id.Kind, Name: id.Name})
		cd := composed.New(composed.FromReference(refs[len(refs)-1]))
		if err := cc.Get(ctx, types.NamespacedName{Name: id.Name}, cd); err != nil {
			w.fail("VERIF-INCONCLUSIVE harness: get composed: %v", err)
		}
		name := xrcomposite.ResourceName(verifsim.Annotations(w.sim.Get(id.key()))[resourceNameAnnotation])
		observed[name] = xrcomposite.ComposedResourceState{Resource: cd}
		if !drop[i] {
			ct = append(ct, apiextv1.ComposedTemplate{Name: ptrTo(string(name))})
			desired[name] = xrcomposite.ComposedResourceState{Resource: cd}
			continue
		}
		dropped = append(dropped, id.key().String())
		prot, namers, _ := w.usagesOf(id.key(), verifsim.MetaString(w.sim.Get(id.key()), "uid"))
		switch {
		case len(prot) > 0:
			w.nontrivial = true
			w.rec.Labelf("composer-gc(%s):of-a-protected-resource", mode)
		case len(namers) > 0:
			w.rec.Labelf("composer-gc(%s):of-a-named-unprotected-resource", mode)
		default:
			w.rec.Labelf("composer-gc(%s):of-an-unused-resource", mode)
		}
	}
	xr.SetResourceReferences(refs)
	var err error
	if pipeline {
		err = xrcomposite.NewDeletingComposedResourceGarbageCollector(cc).GarbageCollectComposedResources(ctx, xr, observed, desired)
	} else {
		_, err = xrcomposite.NewGarbageCollectingAssociator(cc, cc).AssociateTemplates(ctx, xr, ct)
	}
	w.logf("COMPOSER-GC(%s) xr=%s refs=%d dropped=%v -> %v", mode, owner, len(refs), dropped, err)
	w.checkMonitors("during the " + mode + " composer's garbage collection")
}

func ptrTo[T any](v T) *T { return &v }

func sortedKeys(m map[string]usageSpec) []string {
	out := make([]string, 0, len(m))
	for k := range m {
		out = append(out, k)
	}
	sort.Strings(out)
	return out
}
