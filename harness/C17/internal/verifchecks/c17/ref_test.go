//go:build verif

// Package c17 decides property C17 ("dependency resolution installs only
// satisfying versions, refuses broken graphs"). This file holds the reference
// model: graph algorithms on adjacency matrices (independent of the DFS in
// internal/dag) and the version selection (linear scans over the trusted
// primitives semver.NewVersion / NewConstraint / Constraints.Check /
// Version.Compare; no sorting).
package c17

import (
	"regexp"
	"sort"
	"strings"

	"github.com/Masterminds/semver"
)

// ---------------------------------------------------------------------------
// reference graph algorithms

// A digraph over nodes 0..n-1 as an adjacency matrix (self-loops allowed).
type digraph struct {
	n   int
	adj [][]bool
}

func newDigraph(n int) digraph {
	g := digraph{n: n, adj: make([][]bool, n)}
	for i := range g.adj {
		g.adj[i] = make([]bool, n)
	}
	return g
}

// closure returns reach where reach[i][j] is true iff there is a path of
// length >= 1 from i to j (Warshall).
func (g digraph) closure() [][]bool {
	r := make([][]bool, g.n)
	for i := range r {
		r[i] = append([]bool(nil), g.adj[i]...)
	}
	for k := 0; k < g.n; k++ {
		for i := 0; i < g.n; i++ {
			if !r[i][k] {
				continue
			}
			for j := 0; j < g.n; j++ {
				if r[k][j] {
					r[i][j] = true
				}
			}
		}
	}
	return r
}

// cyclic reports whether some node reaches itself.
func (g digraph) cyclic() bool {
	r := g.closure()
	for i := 0; i < g.n; i++ {
		if r[i][i] {
			return true
		}
	}
	return false
}

// validDepsFirstOrder reports whether order is a permutation of want and every
// edge u->v has v before u (dependencies before dependents). It returns a
// description of the first problem otherwise.
func validDepsFirstOrder(order []string, ids []string, exists []bool, g digraph) string {
	pos := map[string]int{}
	for i, s := range order {
		if _, dup := pos[s]; dup {
			return "duplicate entry " + s
		}
		pos[s] = i
	}
	cnt := 0
	for i, id := range ids {
		if !exists[i] {
			continue
		}
		cnt++
		if _, ok := pos[id]; !ok {
			return "missing entry " + id
		}
	}
	if cnt != len(order) {
		return "order has entries that are not nodes"
	}
	for u := 0; u < g.n; u++ {
		for v := 0; v < g.n; v++ {
			if g.adj[u][v] && exists[u] && exists[v] && !(pos[ids[v]] < pos[ids[u]]) {
				return "dependency " + ids[v] + " does not precede dependent " + ids[u]
			}
		}
	}
	return ""
}

// ---------------------------------------------------------------------------
// reference version selection

var digestRe = regexp.MustCompile(`^sha256:[0-9a-f]{64}$`)

func isDigest(s string) bool { return digestRe.MatchString(s) }

// validFor is the documented edge validity of the upgrading DAG: the installed
// version (or, for a not-yet-installed dependency, the constraint string first
// recorded for it) is acceptable for the wanted constraint if the strings are
// equal (this covers digests) or it parses as a version that satisfies wanted.
func validFor(installed, wanted string) bool {
	if installed == wanted {
		return true
	}
	c, err := semver.NewConstraint(wanted)
	if err != nil {
		return false
	}
	v, err := semver.NewVersion(installed)
	if err != nil {
		return false
	}
	return c.Check(v)
}

// candidates returns the tags that parse as semantic versions and satisfy every
// constraint in cs, with their parsed versions. ok is false if a constraint
// does not parse.
func candidates(tags []string, cs []string) (out []string, vs []*semver.Version, ok bool) {
	var pcs []*semver.Constraints
	for _, c := range cs {
		pc, err := semver.NewConstraint(c)
		if err != nil {
			return nil, nil, false
		}
		pcs = append(pcs, pc)
	}
	for _, tag := range tags {
		v, err := semver.NewVersion(tag)
		if err != nil {
			continue
		}
		sat := true
		for _, pc := range pcs {
			if !pc.Check(v) {
				sat = false
			}
		}
		if sat {
			out = append(out, tag)
			vs = append(vs, v)
		}
	}
	return out, vs, true
}

// extremes returns the set of tags of maximal (dir > 0) or minimal (dir < 0)
// precedence among the given ones. Ties by precedence are all acceptable.
func extremes(tags []string, vs []*semver.Version, dir int) map[string]bool {
	if len(tags) == 0 {
		return nil
	}
	best := vs[0]
	for _, v := range vs[1:] {
		if v.Compare(best)*dir > 0 {
			best = v
		}
	}
	out := map[string]bool{}
	for i, v := range vs {
		if v.Compare(best) == 0 {
			out[tags[i]] = true
		}
	}
	return out
}

// refInstall: the acceptable tags for a fresh install under one constraint
// (nil = nothing qualifies).
func refInstall(tags []string, constraint string) (map[string]bool, bool) {
	c, vs, ok := candidates(tags, []string{constraint})
	if !ok {
		return nil, false
	}
	return extremes(c, vs, +1), true
}

// refUpdate: acceptable tags when an installed dependency at cur must move:
// the lowest not-older candidate; if there is none and downgrades are allowed,
// the highest (necessarily older) candidate.
func refUpdate(tags []string, parents []string, cur *semver.Version, downgrade bool) (map[string]bool, bool) {
	c, vs, ok := candidates(tags, parents)
	if !ok {
		return nil, false
	}
	var ut []string
	var uv []*semver.Version
	for i, v := range vs {
		if v.Compare(cur) >= 0 {
			ut = append(ut, c[i])
			uv = append(uv, v)
		}
	}
	if len(ut) > 0 {
		return extremes(ut, uv, -1), true
	}
	if downgrade {
		return extremes(c, vs, +1), true
	}
	return nil, true
}

func setString(m map[string]bool) string {
	ks := make([]string, 0, len(m))
	for k := range m {
		ks = append(ks, k)
	}
	sort.Strings(ks)
	return "{" + strings.Join(ks, ",") + "}"
}

func sortedSet(in []string) []string {
	m := map[string]bool{}
	for _, s := range in {
		m[s] = true
	}
	out := make([]string, 0, len(m))
	for s := range m {
		out = append(out, s)
	}
	sort.Strings(out)
	return out
}
