//go:build verif

package c17

import (
	"context"
	"fmt"
	"strings"
	"testing"

	"github.com/Masterminds/semver"
	metav1 "k8s.io/apimachinery/pkg/apis/meta/v1"
	"k8s.io/apimachinery/pkg/types"
	"k8s.io/utils/ptr"
	"pgregory.net/rapid"

	pkgmetav1 "github.com/crossplane/crossplane/apis/pkg/meta/v1"
	v1 "github.com/crossplane/crossplane/apis/pkg/v1"
	"github.com/crossplane/crossplane/apis/pkg/v1beta1"
	"github.com/crossplane/crossplane/internal/controller/pkg/revision"
	"github.com/crossplane/crossplane/internal/dag"
	"github.com/crossplane/crossplane/internal/verifkit"
	"github.com/crossplane/crossplane/internal/verifsim"
)

// ---------------------------------------------------------------------------
// Part 3: PackageDependencyManager.Resolve reports "satisfied" (nil error)
// only if every direct and transitive dependency is in the lock and every
// direct dependency's locked version satisfies its constraint.

type resolveCase struct {
	SelfID      string    `json:"selfID"`
	SelfVersion string    `json:"selfVersion"`
	Direct      []depSpec `json:"direct"`
	Lock        []lockPkg `json:"lock"`
	NoLock      bool      `json:"noLock,omitempty"`    // the Lock object does not exist yet
	SelfIn      bool      `json:"selfIn,omitempty"`    // the revision is already in the lock
	Inactive    bool      `json:"inactive,omitempty"`  // desired state Inactive
	Relocated   bool      `json:"relocated,omitempty"` // the lock holds this revision under another source (image moved registries)
}

const selfRev = "self-rev"

func (c resolveCase) meta() pkgmetav1.Pkg {
	m := &pkgmetav1.Configuration{ObjectMeta: metav1.ObjectMeta{Name: "self"}}
	for _, d := range c.Direct {
		md := pkgmetav1.Dependency{Version: d.Cons}
		switch d.Style {
		case 0:
			switch kinds[d.Kind] {
			case "Provider":
				md.Provider = ptr.To(d.Pkg)
			case "Configuration":
				md.Configuration = ptr.To(d.Pkg)
			default:
				md.Function = ptr.To(d.Pkg)
			}
		case 1:
			md.APIVersion, md.Kind, md.Package = ptr.To(pkgGroup+"/v1"), ptr.To(kinds[d.Kind]), ptr.To(d.Pkg)
		}
		m.Spec.DependsOn = append(m.Spec.DependsOn, md)
	}
	return m
}

func (c resolveCase) revision() v1.PackageRevision {
	pr := &v1.ConfigurationRevision{ObjectMeta: metav1.ObjectMeta{Name: selfRev}}
	pr.Spec.Package = packageString(c.SelfID, c.SelfVersion)
	pr.Spec.DesiredState = v1.PackageRevisionActive
	if c.Inactive {
		pr.Spec.DesiredState = v1.PackageRevisionInactive
	}
	return pr
}

func (c resolveCase) lockPackages() []v1beta1.LockPackage {
	out := world{Lock: c.Lock}.lockPackages()
	if c.SelfIn {
		src := c.SelfID
		if c.Relocated {
			src = "xpkg.old.example/acme/p0"
		}
		self := v1beta1.LockPackage{Name: selfRev, Source: src, Version: c.SelfVersion, APIVersion: ptr.To(pkgGroup + "/v1"), Kind: ptr.To("Configuration"), Dependencies: []v1beta1.Dependency{}}
		for _, d := range c.Direct {
			self.Dependencies = append(self.Dependencies, d.toAPI())
		}
		out = append(out, self)
	}
	return out
}

// constraintAround builds a constraint that the given version usually satisfies.
func constraintAround(t *rapid.T, ver string) string {
	switch rapid.IntRange(0, 9).Draw(t, "ckind") {
	case 0:
		return genConstraint().Draw(t, "free")
	case 1:
		return rapid.SampledFrom([]string{"*", ">=0.0.0-0", ">=0.0.0"}).Draw(t, "any")
	default:
		return rapid.SampledFrom([]string{">=", "^", "~", "=", "<=", ""}).Draw(t, "op") + ver
	}
}

func genResolveCase() *rapid.Generator[resolveCase] {
	return rapid.Custom(func(t *rapid.T) resolveCase {
		c := resolveCase{SelfID: repoIDs[0], SelfVersion: genVersion().Draw(t, "selfver")}
		c.Inactive = rapid.IntRange(0, 19).Draw(t, "inactive") == 7
		c.SelfIn = rapid.IntRange(0, 2).Draw(t, "selfin") == 0
		c.Relocated = c.SelfIn && rapid.IntRange(0, 9).Draw(t, "relocated") == 4
		// a layered (mostly acyclic) world over the other repositories, all present in the lock
		vers := map[string]string{}
		others := repoIDs[1:]
		for _, id := range others {
			vers[id] = genVersion().Draw(t, "ver")
		}
		mkDep := func(from int, label string) depSpec {
			var to int
			if rapid.IntRange(0, 9).Draw(t, label+"back") == 0 {
				to = rapid.IntRange(0, len(others)-1).Draw(t, label+"any")
			} else if from+1 < len(others) {
				to = rapid.IntRange(from+1, len(others)-1).Draw(t, label+"fwd")
			} else {
				to = len(others) - 1
			}
			id := others[to]
			d := depSpec{Pkg: id, Kind: repoKind(id), Style: rapid.IntRange(0, 1).Draw(t, label+"style"), Cons: constraintAround(t, vers[id])}
			if rapid.IntRange(0, 39).Draw(t, label+"bad") == 17 {
				d.Style = 2
			}
			return d
		}
		for k := rapid.SampledFrom([]int{0, 1, 1, 2, 2, 3}).Draw(t, "ndirect"); k > 0; k-- {
			c.Direct = appendDep(c.Direct, mkDep(-1, "direct"))
		}
		for i, id := range others {
			lp := lockPkg{Source: id, Version: vers[id], Kind: repoKind(id)}
			if i+1 < len(others) {
				for k := rapid.IntRange(0, 2).Draw(t, "ndeps"); k > 0; k-- {
					lp.Deps = appendDep(lp.Deps, mkDep(i, "dep"))
				}
			}
			c.Lock = append(c.Lock, lp)
		}
		// break it: drop lock entries, move versions, pin digests
		for k := rapid.IntRange(0, 2).Draw(t, "nbreak"); k > 0 && len(c.Lock) > 0; k-- {
			i := rapid.IntRange(0, len(c.Lock)-1).Draw(t, "victim")
			switch rapid.IntRange(0, 3).Draw(t, "break") {
			case 0, 1:
				c.Lock = append(c.Lock[:i:i], c.Lock[i+1:]...)
			case 2:
				c.Lock[i].Version = genVersion().Draw(t, "movedver")
			case 3:
				dg := rapid.SampledFrom(genVersions[len(genVersions)-2:]).Draw(t, "digest")
				c.Lock[i].Version = dg
				for j := range c.Direct {
					if c.Direct[j].Pkg == c.Lock[i].Source && rapid.Bool().Draw(t, "pinsame") {
						c.Direct[j].Cons = dg
					}
				}
			}
		}
		if rapid.IntRange(0, 7).Draw(t, "trim") == 0 { // a small lock: only some packages
			n := rapid.IntRange(0, len(c.Lock)).Draw(t, "keep")
			c.Lock = c.Lock[:n]
		}
		if len(c.Lock) == 0 && !c.SelfIn && rapid.Bool().Draw(t, "nolock") {
			c.NoLock = true
		}
		return c
	})
}

func checkResolve(t failer, rec *verifkit.Recorder, c resolveCase) {
	s := verifsim.New(verifsim.NewScheme())
	if !c.NoLock {
		s.MustCreate("setup", &v1beta1.Lock{ObjectMeta: metav1.ObjectMeta{Name: "lock"}, Packages: c.lockPackages()})
	}
	// Wired as revision.Setup* does: dag.NewMapDag.
	m := revision.NewPackageDependencyManager(s.Client("revision"), dag.NewMapDag, v1.ConfigurationGroupVersionKind)
	found, installed, invalid, err := m.Resolve(context.Background(), c.meta(), c.revision())
	rec.Labelf("resolve nil-error=%v", err == nil)
	if c.Relocated {
		rec.Label("resolve: revision relocated to another source")
	}
	if c.Inactive {
		rec.Label("resolve: inactive revision (not judged)")
		return
	}
	if err != nil {
		return
	}
	// Satisfied was reported. Judge it against the lock as it is now.
	lock := &v1beta1.Lock{}
	if gerr := s.Client("oracle").Get(context.Background(), types.NamespacedName{Name: "lock"}, lock); gerr != nil {
		t.Fatalf("Resolve returned nil but there is no lock: %v\ncase=%s", gerr, verifkit.JSON(c))
	}
	bySource := map[string]v1beta1.LockPackage{}
	for _, lp := range lock.Packages {
		bySource[lp.Source] = lp
	}
	// transitive closure over declared dependencies (worklist, not DFS recursion)
	seen := map[string]bool{}
	var work []string
	for _, d := range c.Direct {
		work = append(work, d.Pkg)
	}
	depth := 0
	for len(work) > 0 {
		var next []string
		for _, id := range work {
			if seen[id] {
				continue
			}
			seen[id] = true
			lp, ok := bySource[id]
			if !ok {
				t.Fatalf("Resolve reported dependencies satisfied (found=%d installed=%d invalid=%d) but %s, a direct or transitive dependency, is not in the lock\ncase=%s", found, installed, invalid, id, verifkit.JSON(c))
			}
			for _, d := range lp.Dependencies {
				next = append(next, d.Package)
			}
		}
		work = next
		if len(next) > 0 {
			depth++
		}
	}
	for _, d := range c.Direct {
		lp := bySource[d.Pkg]
		if isDigest(d.Cons) {
			if lp.Version != d.Cons {
				t.Fatalf("Resolve reported satisfied but %s is locked at %s while the constraint pins %s\ncase=%s", d.Pkg, lp.Version, d.Cons, verifkit.JSON(c))
			}
			continue
		}
		cons, cerr := semver.NewConstraint(d.Cons)
		ver, verr := semver.NewVersion(lp.Version)
		if cerr != nil || verr != nil || !cons.Check(ver) {
			t.Fatalf("Resolve reported satisfied but %s@%s does not satisfy %q (constraint err=%v, version err=%v)\ncase=%s", d.Pkg, lp.Version, d.Cons, cerr, verr, verifkit.JSON(c))
		}
	}
	if installed != found || invalid != 0 {
		t.Fatalf("Resolve returned nil with found=%d installed=%d invalid=%d\ncase=%s", found, installed, invalid, verifkit.JSON(c))
	}
	if found != len(seen) {
		t.Fatalf("Resolve returned nil with found=%d but the dependency closure has %d packages\ncase=%s", found, len(seen), verifkit.JSON(c))
	}
	rec.Labelf("resolve satisfied: direct=%d closure-depth=%d", min(len(c.Direct), 3), min(depth, 3))
	if len(c.Direct) > 0 {
		rec.NonTrivial(verifkit.JSON(c), func() any { return c })
	}
}

func TestVerifC17Resolve(t *testing.T) {
	rec := verifkit.New(t, "C17", "Resolve on generated lock contents (satisfiable layered worlds with 0-2 breakages); non-trivial = satisfied verdict with >=1 direct dependency; distinct=case JSON")
	rapid.Check(t, func(t *rapid.T) {
		c := genResolveCase().Draw(t, "case")
		rec.Eval()
		checkResolve(t, rec, c)
	})
}

func TestVerifC17ResolvePinned(t *testing.T) {
	rec := verifkit.New(t, "C17", "pinned Resolve rows")
	p1, p2, p3 := repoIDs[1], repoIDs[2], repoIDs[3]
	d1 := "sha256:" + strings.Repeat("ab", 32)
	mk := func(id, cons string) depSpec { return depSpec{Pkg: id, Kind: repoKind(id), Style: 1, Cons: cons} }
	rows := []struct {
		name      string
		c         resolveCase
		satisfied bool
	}{
		{"all-present", resolveCase{SelfID: repoIDs[0], SelfVersion: "1.0.0", Direct: []depSpec{mk(p1, ">=1.0.0")}, Lock: []lockPkg{{Source: p1, Version: "1.2.3", Deps: []depSpec{mk(p2, "*")}}, {Source: p2, Version: "1.0.0"}}}, true},
		{"transitive-missing", resolveCase{SelfID: repoIDs[0], SelfVersion: "1.0.0", Direct: []depSpec{mk(p1, ">=1.0.0")}, Lock: []lockPkg{{Source: p1, Version: "1.2.3", Deps: []depSpec{mk(p2, "*")}}, {Source: p2, Version: "1.0.0", Deps: []depSpec{mk(p3, "*")}}}}, false},
		{"direct-violates", resolveCase{SelfID: repoIDs[0], SelfVersion: "1.0.0", Direct: []depSpec{mk(p1, ">1.2.3")}, Lock: []lockPkg{{Source: p1, Version: "1.2.3"}}}, false},
		{"digest-mismatch", resolveCase{SelfID: repoIDs[0], SelfVersion: "1.0.0", Direct: []depSpec{mk(p1, d1)}, Lock: []lockPkg{{Source: p1, Version: "sha256:" + strings.Repeat("cd", 32)}}}, false},
		{"digest-match", resolveCase{SelfID: repoIDs[0], SelfVersion: "1.0.0", Direct: []depSpec{mk(p1, d1)}, Lock: []lockPkg{{Source: p1, Version: d1}}}, true},
		{"no-lock-no-deps", resolveCase{SelfID: repoIDs[0], SelfVersion: "1.0.0", NoLock: true}, true},
	}
	for _, r := range rows {
		rec.Eval()
		checkResolve(fatalName{t, r.name}, rec, r.c)
		// the rows also pin the verdict itself (liveness sanity of the harness, not part of the property)
		s := verifsim.New(verifsim.NewScheme())
		if !r.c.NoLock {
			s.MustCreate("setup", &v1beta1.Lock{ObjectMeta: metav1.ObjectMeta{Name: "lock"}, Packages: r.c.lockPackages()})
		}
		m := revision.NewPackageDependencyManager(s.Client("revision"), dag.NewMapDag, v1.ConfigurationGroupVersionKind)
		_, _, _, err := m.Resolve(context.Background(), r.c.meta(), r.c.revision())
		if !r.satisfied && err == nil {
			t.Fatalf("%s: Resolve reported satisfied", r.name)
		}
		if r.satisfied && err != nil {
			fmt.Printf("C17 note: pinned row %s is no longer reported satisfied: %v\n", r.name, err)
		}
		rec.NonTrivial(r.name, func() any { return r.name })
	}
}
