//go:build verif

package c17

import (
	"context"
	"encoding/json"
	"fmt"
	"strings"
	"testing"

	"github.com/Masterminds/semver"
	"github.com/google/go-containerregistry/pkg/name"
	metav1 "k8s.io/apimachinery/pkg/apis/meta/v1"
	"k8s.io/apimachinery/pkg/apis/meta/v1/unstructured"
	"k8s.io/apimachinery/pkg/runtime/schema"
	"k8s.io/apimachinery/pkg/types"
	"k8s.io/utils/ptr"
	"pgregory.net/rapid"
	"sigs.k8s.io/controller-runtime/pkg/client"
	"sigs.k8s.io/controller-runtime/pkg/manager"
	"sigs.k8s.io/controller-runtime/pkg/reconcile"

	"github.com/crossplane/crossplane-runtime/pkg/errors"
	"github.com/crossplane/crossplane-runtime/pkg/feature"

	"github.com/crossplane/crossplane/apis/pkg/v1beta1"
	"github.com/crossplane/crossplane/internal/controller/pkg/resolver"
	"github.com/crossplane/crossplane/internal/dag"
	"github.com/crossplane/crossplane/internal/features"
	"github.com/crossplane/crossplane/internal/verifkit"
	"github.com/crossplane/crossplane/internal/verifsim"
	"github.com/crossplane/crossplane/internal/xpkg"
)

const (
	defaultRegistry = "xpkg.default.example"
	pkgGroup        = "pkg.crossplane.io"
)

var kinds = []string{"Provider", "Configuration", "Function"}

// ---------------------------------------------------------------------------
// world model

type depSpec struct {
	Pkg   string `json:"pkg"`
	Kind  int    `json:"kind"`  // index into kinds
	Style int    `json:"style"` // 0 = deprecated type field, 1 = apiVersion+kind, 2 = neither (invalid)
	Cons  string `json:"cons"`
}

type lockPkg struct {
	Source  string    `json:"source"`
	Version string    `json:"version"`
	Kind    int       `json:"kind"`
	Deps    []depSpec `json:"deps"`
}

type pkgObj struct {
	Kind    int    `json:"kind"`
	Name    string `json:"name"`
	Package string `json:"package"`
}

type world struct {
	Mode     int                  `json:"mode"` // 0 install only, 1 upgrades, 2 upgrades+downgrades
	Lock     []lockPkg            `json:"lock"`
	Objs     []pkgObj             `json:"objs"`
	Tags     map[string][]string  `json:"tags"`
	FetchErr map[string]bool      `json:"fetchErr,omitempty"`
	Universe map[string][]depSpec `json:"universe,omitempty"` // dependencies a package declares once it is installed
}

func (d depSpec) toAPI() v1beta1.Dependency {
	out := v1beta1.Dependency{Package: d.Pkg, Constraints: d.Cons}
	switch d.Style {
	case 0:
		out.Type = ptr.To(v1beta1.PackageType(kinds[d.Kind]))
	case 1:
		out.APIVersion = ptr.To(pkgGroup + "/v1")
		out.Kind = ptr.To(kinds[d.Kind])
	}
	return out
}

func (w world) lockPackages() []v1beta1.LockPackage {
	out := make([]v1beta1.LockPackage, 0, len(w.Lock))
	for i, lp := range w.Lock {
		p := v1beta1.LockPackage{Name: fmt.Sprintf("rev-%d", i), Source: lp.Source, Version: lp.Version, APIVersion: ptr.To(pkgGroup + "/v1"), Kind: ptr.To(kinds[lp.Kind]), Dependencies: []v1beta1.Dependency{}}
		for _, d := range lp.Deps {
			p.Dependencies = append(p.Dependencies, d.toAPI())
		}
		out = append(out, p)
	}
	return out
}

// firstCons returns the constraint of the first edge that declares id.
func (w world) firstCons(id string) string {
	for _, lp := range w.Lock {
		for _, d := range lp.Deps {
			if d.Pkg == id {
				return d.Cons
			}
		}
	}
	return ""
}

func packageString(id, version string) string {
	switch {
	case version == "":
		return id
	case strings.HasPrefix(version, "sha256:"):
		return id + "@" + version
	default:
		return id + ":" + version
	}
}

// ---------------------------------------------------------------------------
// fakes: manager, recording client, fetcher

type fakeManager struct {
	manager.Manager
	c client.Client
}

func (m *fakeManager) GetClient() client.Client { return m.c }

type attempt struct {
	Verb   string
	Obj    map[string]any
	Err    string
	IsLock bool
}

// recClient records every mutating request the code under test issues, as
// issued (whether or not the server accepts it).
type recClient struct {
	client.Client
	attempts []attempt
}

func content(o client.Object) map[string]any {
	b, _ := json.Marshal(o)
	m := map[string]any{}
	_ = json.Unmarshal(b, &m)
	return m
}

func (r *recClient) rec(verb string, o client.Object, pre map[string]any, err error) error {
	_, isLock := o.(*v1beta1.Lock)
	a := attempt{Verb: verb, Obj: pre, IsLock: isLock || pre["kind"] == "Lock"}
	if err != nil {
		a.Err = err.Error()
	}
	r.attempts = append(r.attempts, a)
	return err
}

func (r *recClient) Create(ctx context.Context, o client.Object, opts ...client.CreateOption) error {
	pre := content(o)
	return r.rec("create", o, pre, r.Client.Create(ctx, o, opts...))
}

func (r *recClient) Update(ctx context.Context, o client.Object, opts ...client.UpdateOption) error {
	pre := content(o)
	return r.rec("update", o, pre, r.Client.Update(ctx, o, opts...))
}

func (r *recClient) Patch(ctx context.Context, o client.Object, p client.Patch, opts ...client.PatchOption) error {
	pre := content(o)
	return r.rec("patch", o, pre, r.Client.Patch(ctx, o, p, opts...))
}

func (r *recClient) Delete(ctx context.Context, o client.Object, opts ...client.DeleteOption) error {
	return r.rec("delete", o, content(o), r.Client.Delete(ctx, o, opts...))
}

func (r *recClient) DeleteAllOf(ctx context.Context, o client.Object, opts ...client.DeleteAllOfOption) error {
	return r.rec("deleteallof", o, content(o), r.Client.DeleteAllOf(ctx, o, opts...))
}

type fakeFetcher struct {
	xpkg.Fetcher
	reg   string
	tags  map[string][]string
	fail  map[string]bool
	calls int
}

func repoName(id, reg string) (string, error) {
	ref, err := name.ParseReference(id, name.WithDefaultRegistry(reg))
	if err != nil {
		return "", err
	}
	return ref.Context().Name(), nil
}

func (f *fakeFetcher) Tags(_ context.Context, ref name.Reference, _ ...string) ([]string, error) {
	f.calls++
	for id, tags := range f.tags {
		rn, err := repoName(id, f.reg)
		if err == nil && rn == ref.Context().Name() {
			if f.fail[id] {
				return nil, errors.New("registry unavailable")
			}
			return append([]string(nil), tags...), nil
		}
	}
	return nil, errors.New("repository not found")
}

// ---------------------------------------------------------------------------
// reference for one reconcile

type expectation struct {
	Write    bool
	Update   bool            // the write must move the existing object (else: create)
	Kind     string          // kind of the written package
	Repo     string          // registry/repository the written spec.package must name
	ObjName  string          // update: the existing object's name
	Accept   map[string]bool // acceptable tags or the digest
	Optional bool            // the installed version is itself an acceptable choice: no write needed
	Cyclic   bool
	PanicOK  bool // installed version is not a semantic version: nothing is "not older"
	Why      string
	NTags    int    // parsable tags seen by the selection (evidence)
	DepID    string // identifier of the dependency being resolved
	Twin     bool   // an installed package of the same kind shares the repository path on ANOTHER registry
}

type installedObj struct {
	Kind, Name, Package string
}

func listInstalled(s *verifsim.Sim) []installedObj {
	var out []installedObj
	for _, k := range kinds {
		for _, key := range s.Keys(schema.GroupKind{Group: pkgGroup, Kind: k}) {
			o := s.Get(key)
			p, _ := verifsim.Nested(o, "spec", "package").(string)
			out = append(out, installedObj{Kind: k, Name: key.Name, Package: p})
		}
	}
	return out
}

func parsableTags(tags []string) int {
	n := 0
	for _, t := range tags {
		if _, err := semver.NewVersion(t); err == nil {
			n++
		}
	}
	return n
}

// refStep computes what one reconcile of the lock must do, from the property
// text: see the comments on each branch.
func refStep(w world, installed []installedObj) expectation {
	if len(w.Lock) == 0 {
		return expectation{Why: "empty lock"}
	}
	upgrade := w.Mode >= 1
	downgrade := w.Mode == 2

	// Graph over identifiers; a cycle stops all installation.
	idx := map[string]int{}
	id := func(s string) int {
		if _, ok := idx[s]; !ok {
			idx[s] = len(idx)
		}
		return idx[s]
	}
	for _, lp := range w.Lock {
		id(lp.Source)
		for _, d := range lp.Deps {
			id(d.Pkg)
		}
	}
	g := newDigraph(len(idx))
	for _, lp := range w.Lock {
		for _, d := range lp.Deps {
			g.adj[id(lp.Source)][id(d.Pkg)] = true
		}
	}
	if g.cyclic() {
		return expectation{Cyclic: true, Why: "cycle"}
	}

	// The dependency to resolve: the first (lock order, then declaration
	// order: "the order of the dependencies will dictate the order in which
	// they are resolved") dependency that is missing from the lock or, with
	// upgrades, whose locked version is not valid for the declaring edge.
	recorded := map[string]string{}
	for _, lp := range w.Lock {
		recorded[lp.Source] = lp.Version
	}
	var first *depSpec
	for i := range w.Lock {
		for j := range w.Lock[i].Deps {
			d := &w.Lock[i].Deps[j]
			have, ok := recorded[d.Pkg]
			switch {
			case !ok:
				recorded[d.Pkg] = d.Cons
				if first == nil {
					first = d
				}
			case upgrade && !validFor(have, d.Cons):
				if first == nil {
					first = d
				}
			}
		}
	}
	if first == nil {
		return expectation{Why: "nothing missing"}
	}
	ref, err := name.ParseReference(first.Pkg, name.WithDefaultRegistry(defaultRegistry))
	if err != nil {
		return expectation{Why: "dependency is not a valid image reference"}
	}
	if first.Style == 2 {
		return expectation{Why: "dependency has neither type nor apiVersion/kind"}
	}
	exp := expectation{Kind: kinds[first.Kind], Repo: ref.Context().Name(), DepID: first.Pkg}
	for _, o := range installed {
		if pref, err := name.ParseReference(o.Package, name.WithDefaultRegistry(defaultRegistry)); err == nil && o.Kind == exp.Kind &&
			pref.Context().RepositoryStr() == ref.Context().RepositoryStr() && pref.Context().Name() != exp.Repo {
			exp.Twin = true
		}
	}
	tags, hasTags := w.Tags[first.Pkg]
	exp.NTags = parsableTags(tags)

	// With upgrades enabled an installed package of that kind and repository is moved, not created.
	var existing *installedObj
	if upgrade {
		for i := range installed {
			o := &installed[i]
			if o.Kind != exp.Kind {
				continue
			}
			pref, err := name.ParseReference(o.Package, name.WithDefaultRegistry(defaultRegistry))
			if err == nil && pref.Context().Name() == exp.Repo {
				existing = o
			}
		}
	}

	if existing == nil {
		// Fresh install: exactly the pinned digest, or the highest tag that satisfies the declared constraint.
		if isDigest(first.Cons) {
			exp.Write, exp.Accept, exp.Why = true, map[string]bool{first.Cons: true}, "install pinned digest"
			return exp
		}
		if _, err := semver.NewConstraint(first.Cons); err != nil {
			exp.Why = "install: invalid constraint"
			return exp
		}
		if w.FetchErr[first.Pkg] || !hasTags {
			exp.Why = "install: tags cannot be fetched"
			return exp
		}
		acc, _ := refInstall(tags, first.Cons)
		if len(acc) == 0 {
			exp.Why = "install: no tag qualifies"
			return exp
		}
		exp.Write, exp.Accept, exp.Why = true, acc, "install highest satisfying"
		return exp
	}

	// Move an installed dependency: every parent's constraint counts.
	exp.Update, exp.ObjName = true, existing.Name
	var parents []string
	for _, lp := range w.Lock {
		for _, d := range lp.Deps {
			if d.Pkg == first.Pkg {
				parents = append(parents, d.Cons)
			}
		}
	}
	parents = sortedSet(parents)
	nd := 0
	for _, p := range parents {
		if isDigest(p) {
			nd++
		}
	}
	pref, _ := name.ParseReference(existing.Package, name.WithDefaultRegistry(defaultRegistry))
	insVer := pref.Identifier()
	if nd > 0 {
		if len(parents) != 1 {
			exp.Why = "update: parents pin different digests or mix digests and ranges"
			return exp
		}
		exp.Write, exp.Accept, exp.Why = true, map[string]bool{parents[0]: true}, "update to pinned digest"
		exp.Optional = insVer == parents[0]
		return exp
	}
	if w.FetchErr[first.Pkg] || !hasTags {
		exp.Why = "update: tags cannot be fetched"
		return exp
	}
	if _, _, ok := candidates(nil, parents); !ok {
		exp.Why = "update: invalid parent constraint"
		return exp
	}
	cur, err := semver.NewVersion(insVer)
	if err != nil {
		exp.PanicOK, exp.Why = true, "update: installed version is not a semantic version"
		return exp
	}
	acc, _ := refUpdate(tags, parents, cur, downgrade)
	if len(acc) == 0 {
		exp.Why = "update: no tag qualifies"
		return exp
	}
	exp.Write, exp.Accept = true, acc
	exp.Why = "update: lowest not-older"
	for t := range acc {
		if v, _ := semver.NewVersion(t); v.Compare(cur) < 0 {
			exp.Why = "update: highest older (downgrade)"
		}
	}
	exp.Optional = acc[insVer]
	return exp
}

// ---------------------------------------------------------------------------
// running the real reconciler on the simulated API server

type env struct {
	sim *verifsim.Sim
	rc  *recClient
	f   *fakeFetcher
	r   *resolver.Reconciler

	panics int
}

var lockKey = verifsim.Key{Group: pkgGroup, Kind: "Lock", Name: "lock"}

func newEnv(w world) *env {
	s := verifsim.New(verifsim.NewScheme())
	delete(s.NoStatusSubresource, schema.GroupKind{Group: pkgGroup, Kind: "Lock"}) // the Lock CRD has a status subresource
	lock := &v1beta1.Lock{ObjectMeta: metav1.ObjectMeta{Name: "lock"}, Packages: w.lockPackages()}
	s.MustCreate("setup", lock)
	for _, o := range w.Objs {
		u := &unstructured.Unstructured{Object: map[string]any{
			"apiVersion": pkgGroup + "/v1", "kind": kinds[o.Kind],
			"metadata": map[string]any{"name": o.Name},
			"spec":     map[string]any{"package": o.Package},
		}}
		s.MustCreate("setup", u)
	}
	e := &env{sim: s}
	e.rc = &recClient{Client: s.Client("resolver")}
	e.f = &fakeFetcher{reg: defaultRegistry, tags: w.Tags, fail: w.FetchErr}
	// Wired as resolver.Setup does.
	flags := &feature.Flags{}
	opts := []resolver.ReconcilerOption{
		resolver.WithFetcher(e.f),
		resolver.WithDefaultRegistry(defaultRegistry),
		resolver.WithConfigStore(xpkg.NewImageConfigStore(e.rc, "crossplane-system")),
		resolver.WithFeatures(flags),
	}
	if w.Mode >= 1 {
		flags.Enable(features.EnableAlphaDependencyVersionUpgrades)
		opts = append(opts, resolver.WithNewDagFn(dag.NewUpgradingMapDag))
		if w.Mode == 2 {
			opts = append(opts, resolver.WithDowngradesEnabled())
		}
	}
	e.r = resolver.NewReconciler(&fakeManager{c: e.rc}, opts...)
	return e
}

func (e *env) lockPackagesJSON() string {
	o := e.sim.Get(lockKey)
	b, _ := json.Marshal(o["packages"])
	return string(b)
}

// step runs one reconcile and checks it against the reference. It returns the
// accepted package write (nil if none).
func (e *env) step(t failer, w world) (expectation, *attempt) {
	installed := listInstalled(e.sim)
	exp := refStep(w, installed)
	before := e.lockPackagesJSON()
	e.rc.attempts = nil

	var rerr error
	var panicked any
	func() {
		defer func() { panicked = recover() }()
		_, rerr = e.r.Reconcile(context.Background(), reconcile.Request{NamespacedName: types.NamespacedName{Name: "lock"}})
	}()
	desc := func() string {
		return fmt.Sprintf("\nexpectation=%+v\nworld=%s\ninstalled=%+v\nattempts=%s\nreconcile error=%v panic=%v", exp, verifkit.JSON(w), installed, verifkit.JSON(e.rc.attempts), rerr, panicked)
	}
	if panicked != nil {
		e.panics++
	}
	if panicked != nil && !exp.PanicOK {
		t.Fatalf("reconcile panicked: %v%s", panicked, desc())
	}
	if after := e.lockPackagesJSON(); after != before {
		t.Fatalf("the resolver changed the Lock's packages: %s -> %s%s", before, after, desc())
	}
	var writes []attempt
	for _, a := range e.rc.attempts {
		if a.IsLock {
			continue
		}
		writes = append(writes, a)
	}
	if exp.Cyclic {
		res, _ := verifsim.Nested(e.sim.Get(lockKey), "status", "conditions").([]any)
		failed := false
		for _, c := range res {
			if m, ok := c.(map[string]any); ok && m["type"] == "Resolved" && m["status"] == "False" {
				failed = true
			}
		}
		if rerr == nil && !failed && panicked == nil {
			t.Fatalf("dependency cycle was not reported (no error, no Resolved=False condition)%s", desc())
		}
	}
	if !exp.Write {
		if len(writes) != 0 {
			t.Fatalf("package written although nothing may be installed (%s)%s", exp.Why, desc())
		}
		return exp, nil
	}
	if len(writes) == 0 {
		if exp.Optional {
			return exp, nil
		}
		t.Fatalf("no package written although %s accepts %s%s", exp.Why, setString(exp.Accept), desc())
	}
	if len(writes) > 1 {
		t.Fatalf("more than one package write in one reconcile%s", desc())
	}
	a := writes[0]
	if a.Verb == "delete" || a.Verb == "deleteallof" {
		t.Fatalf("resolver deleted a package%s", desc())
	}
	if a.Obj["kind"] != exp.Kind || !strings.HasPrefix(fmt.Sprint(a.Obj["apiVersion"]), pkgGroup+"/") {
		t.Fatalf("wrote %v/%v, want a %s%s", a.Obj["apiVersion"], a.Obj["kind"], exp.Kind, desc())
	}
	sp, _ := verifsim.Nested(a.Obj, "spec", "package").(string)
	ref, err := name.ParseReference(sp, name.WithDefaultRegistry(defaultRegistry))
	if err != nil || !(strings.HasSuffix(sp, ":"+ref.Identifier()) || strings.HasSuffix(sp, "@"+ref.Identifier())) {
		t.Fatalf("written spec.package %q is not a complete image reference: %v%s", sp, err, desc())
	}
	if ref.Context().Name() != exp.Repo {
		t.Fatalf("written spec.package %q names repository %s, want %s%s", sp, ref.Context().Name(), exp.Repo, desc())
	}
	if !exp.Accept[ref.Identifier()] {
		t.Fatalf("VERSION: written spec.package %q selects %q; %s accepts only %s%s", sp, ref.Identifier(), exp.Why, setString(exp.Accept), desc())
	}
	nm := verifsim.MetaString(a.Obj, "name")
	if exp.Update {
		if nm != exp.ObjName || a.Verb == "create" {
			t.Fatalf("installed package %s must be moved, but the write is %s of %q%s", exp.ObjName, a.Verb, nm, desc())
		}
	}
	return exp, &a
}

// adopt plays the package manager and revision controller: the package that
// was just written becomes healthy and enters the lock at the written version
// with the dependencies its universe entry declares.
func adopt(w *world, exp expectation, written string) {
	ref, _ := name.ParseReference(written, name.WithDefaultRegistry(defaultRegistry))
	ver := ref.Identifier()
	id := exp.DepID
	kind := 0
	for i, k := range kinds {
		if k == exp.Kind {
			kind = i
		}
	}
	for i := range w.Lock {
		if w.Lock[i].Source == id {
			w.Lock[i].Version = ver
			return
		}
	}
	w.Lock = append(w.Lock, lockPkg{Source: id, Version: ver, Kind: kind, Deps: append([]depSpec(nil), w.Universe[id]...)})
}

func (e *env) setLock(w world) {
	c := e.sim.Client("pkgmanager")
	l := &v1beta1.Lock{}
	if err := c.Get(context.Background(), types.NamespacedName{Name: "lock"}, l); err != nil {
		panic(err)
	}
	l.Packages = w.lockPackages()
	if err := c.Update(context.Background(), l); err != nil {
		panic(err)
	}
}

// ---------------------------------------------------------------------------
// generators

var repoIDs = []string{
	"xpkg.example.org/acme/p0", "xpkg.example.org/acme/p1", "xpkg.example.org/acme/p2",
	"xpkg.example.org/acme/p3", "xpkg.example.org/acme/p4", "acme/q5",
}

// twinIDs: package sources that share a repository path across registries
// (plain host, host:port, the docker.io alias and the default registry). The
// lock, the DAG and the tag fetcher identify a package by its full source
// including the registry, so twins are DIFFERENT packages.
var twinIDs = []string{
	"xpkg.example.org/acme/p0",
	"registry-a.example.com/acme/p1", "registry-b.example.com:5000/acme/p1",
	"registry-a.example.com/acme/p2", "registry-b.example.com:5000/acme/p2",
	"docker.io/acme/q5", "acme/q5",
}

const badRepoID = "xpkg.example.org/Acme/UPPER"

// respell returns another spelling of the same image repository, as
// go-containerregistry normalises it (docker.io == index.docker.io; no host ==
// the default registry).
func respell(t *rapid.T, id string) string {
	if !rapid.Bool().Draw(t, "respell") {
		return id
	}
	switch {
	case strings.HasPrefix(id, "docker.io/"):
		return "index." + id
	case strings.Count(id, "/") == 1 && !strings.Contains(strings.SplitN(id, "/", 2)[0], "."):
		return defaultRegistry + "/" + id
	}
	return id
}

// objName draws a custom object name that is unique among the objects of its kind.
func objName(t *rapid.T, used map[string]bool, kind, i int, id, dflt string) string {
	n := dflt
	switch rapid.IntRange(0, 5).Draw(t, "objname") {
	case 0:
		n = fmt.Sprintf("aaa-legacy-%d", i)
	case 1:
		n = fmt.Sprintf("zzz-legacy-%d", i)
	case 2: // the name the resolver itself would give it
		if ref, err := name.ParseReference(id, name.WithDefaultRegistry(defaultRegistry)); err == nil {
			n = xpkg.ToDNSLabel(ref.Context().RepositoryStr())
		}
	}
	k := fmt.Sprintf("%d/%s", kind, n)
	if used[k] {
		n = fmt.Sprintf("%s-%d", dflt, i)
		k = fmt.Sprintf("%d/%s", kind, n)
	}
	used[k] = true
	return n
}

func repoKind(id string) int { return int(id[len(id)-1]-'0') % 3 }

func genTags() *rapid.Generator[[]string] {
	return rapid.Custom(func(t *rapid.T) []string {
		n := rapid.IntRange(0, 8).Draw(t, "ntags")
		out := make([]string, 0, n)
		for i := 0; i < n; i++ {
			if rapid.IntRange(0, 5).Draw(t, "oddtag") == 0 {
				out = append(out, rapid.SampledFrom(genVersions[:len(genVersions)-2]).Draw(t, "tag"))
			} else {
				out = append(out, rapid.SampledFrom(semverTags).Draw(t, "semvertag"))
			}
		}
		return out
	})
}

func genDep(pool []string, from int, acyclicBias bool, tags map[string][]string) *rapid.Generator[depSpec] {
	return rapid.Custom(func(t *rapid.T) depSpec {
		var id string
		switch {
		case rapid.IntRange(0, 119).Draw(t, "badrepo") == 57:
			id = badRepoID
		case acyclicBias && from+1 < len(pool):
			id = pool[rapid.IntRange(from+1, len(pool)-1).Draw(t, "fwd")]
		default:
			id = rapid.SampledFrom(pool).Draw(t, "to")
		}
		d := depSpec{Pkg: id, Cons: consAround(t, tags[id], genConstraint())}
		if id != badRepoID {
			d.Kind = repoKind(id)
		}
		switch rapid.IntRange(0, 59).Draw(t, "style") {
		case 30:
			d.Style = 2
		case 31:
			d.Kind = (d.Kind + 1) % 3 // declared kind differs from what is installed
		default:
			d.Style = rapid.IntRange(0, 1).Draw(t, "typed")
		}
		return d
	})
}

func genWorld() *rapid.Generator[world] {
	return rapid.Custom(func(t *rapid.T) world {
		if rapid.IntRange(0, 2).Draw(t, "twinpool") == 1 {
			return genWorldPool(twinIDs).Draw(t, "twinworld")
		}
		return genWorldPool(repoIDs).Draw(t, "plainworld")
	})
}

func genWorldPool(pool []string) *rapid.Generator[world] {
	return rapid.Custom(func(t *rapid.T) world {
		w := world{Mode: rapid.IntRange(0, 2).Draw(t, "mode"), Tags: map[string][]string{}, FetchErr: map[string]bool{}, Universe: map[string][]depSpec{}}
		acyclic := rapid.IntRange(0, 4).Draw(t, "acyclicbias") != 0
		for _, id := range pool {
			w.Tags[id] = genTags().Draw(t, "tags")
		}
		for i, id := range pool {
			if rapid.IntRange(0, 19).Draw(t, "fetcherr") == 7 {
				w.FetchErr[id] = true
			}
			for k := rapid.IntRange(0, 2).Draw(t, "nuni"); k > 0; k-- {
				w.Universe[id] = appendDep(w.Universe[id], genDep(pool, i, acyclic, w.Tags).Draw(t, "unidep"))
			}
		}
		w.Tags[badRepoID] = []string{"1.0.0"}
		nlock := rapid.IntRange(1, 4).Draw(t, "nlock")
		if rapid.IntRange(0, 29).Draw(t, "emptylock") == 17 {
			nlock = 0
		}
		inLock := map[string]bool{}
		used := map[string]bool{}
		for _, i := range rapid.SliceOfNDistinct(rapid.IntRange(0, len(pool)-1), nlock, nlock, rapid.ID[int]).Draw(t, "lockids") {
			id := pool[i]
			inLock[id] = true
			lp := lockPkg{Source: id, Kind: repoKind(id), Version: genVersion().Draw(t, "lockver")}
			for k := rapid.IntRange(0, 3).Draw(t, "ndeps"); k > 0; k-- {
				lp.Deps = appendDep(lp.Deps, genDep(pool, i, acyclic, w.Tags).Draw(t, "dep"))
			}
			w.Lock = append(w.Lock, lp)
			// The package object behind a lock entry; occasionally already moved on (lock lags).
			if rapid.IntRange(0, 9).Draw(t, "hasobj") != 0 {
				ver := lp.Version
				if rapid.IntRange(0, 5).Draw(t, "lag") == 0 {
					ver = genVersion().Draw(t, "objver")
				}
				w.Objs = append(w.Objs, pkgObj{Kind: lp.Kind, Name: objName(t, used, lp.Kind, i, id, fmt.Sprintf("root-p%d", i)), Package: packageString(respell(t, id), ver)})
			}
		}
		// Packages that are installed but not (yet) in the lock.
		for i, id := range pool {
			if !inLock[id] && rapid.IntRange(0, 3).Draw(t, "stray") == 0 {
				ver := genVersion().Draw(t, "strayver")
				if rapid.IntRange(0, 14).Draw(t, "untagged") == 0 {
					ver = ""
				}
				w.Objs = append(w.Objs, pkgObj{Kind: repoKind(id), Name: objName(t, used, repoKind(id), i, id, fmt.Sprintf("stray-p%d", i)), Package: packageString(respell(t, id), ver)})
			}
		}
		return w
	})
}

// consAround builds a constraint around one of the tags that exist (so that
// selections have something to select from), or falls back to the free generator.
func consAround(t *rapid.T, tags []string, free *rapid.Generator[string]) string {
	if len(tags) > 0 && rapid.IntRange(0, 2).Draw(t, "around") != 0 {
		tag := rapid.SampledFrom(tags).Draw(t, "pivot")
		op := rapid.SampledFrom([]string{">=", ">=", "^", "~", "=", "<=", "<", ">", ""}).Draw(t, "pivotop")
		return op + tag
	}
	return free.Draw(t, "freecons")
}

// a package lists a dependency once
func appendDep(l []depSpec, d depSpec) []depSpec {
	for _, o := range l {
		if o.Pkg == d.Pkg {
			return l
		}
	}
	return append(l, d)
}

// ---------------------------------------------------------------------------
// properties

func classify(rec *verifkit.Recorder, pfx string, w world, exp expectation, a *attempt, stepNo int) {
	rec.Labelf("mode=%d", w.Mode)
	rec.Label(pfx + " expect: " + exp.Why)
	if exp.Write && len(exp.Accept) > 1 {
		rec.Label("precedence tie among acceptable tags")
	}
	if exp.Write && a == nil {
		rec.Label("optional write omitted")
	}
	if exp.PanicOK {
		rec.Label("installed version not semver in update path")
	}
	if exp.Twin {
		switch {
		case w.Mode == 0:
			rec.Label("twin registries (same repository path on two registries): upgrades off")
		case !exp.Update:
			rec.Label("twin registries (same repository path on two registries): required package MISSING, upgrades on")
		default:
			rec.Label("twin registries (same repository path on two registries): required package installed (violating/unlocked), upgrades on")
		}
	}
	if exp.Write && !exp.Update && !isDigest(w.firstCons(exp.DepID)) {
		// Evidence only: the install honours the first declaring edge; does it violate another parent's constraint?
		for _, lp := range w.Lock {
			for _, d := range lp.Deps {
				if d.Pkg != exp.DepID {
					continue
				}
				if c, err := semver.NewConstraint(d.Cons); err == nil {
					for tag := range exp.Accept {
						if v, err := semver.NewVersion(tag); err == nil && !c.Check(v) {
							rec.Label(pfx + " install violates ANOTHER parent's constraint (not judged: property speaks of the declared constraint)")
							return
						}
					}
				}
			}
		}
	}
	if stepNo > 0 {
		rec.Labelf("history step>=1")
	}
}

func resolverProp(rec *verifkit.Recorder, pfx string, gen *rapid.Generator[world], maxSteps int) func(t *rapid.T) {
	return func(t *rapid.T) {
		w := gen.Draw(t, "world")
		rec.Eval()
		runHistory(t, rec, pfx, w, maxSteps)
	}
}

// runHistory reconciles the lock up to maxSteps times; after every accepted
// package write the package enters the lock (adopt) and the lock is reconciled
// again. It returns the identifiers written, in order.
func runHistory(t failer, rec *verifkit.Recorder, pfx string, w world, maxSteps int) []string {
	var written []string
	e := newEnv(w)
	for stepNo := 0; stepNo < maxSteps; stepNo++ {
		exp, a := e.step(t, w)
		classify(rec, pfx, w, exp, a, stepNo)
		if e.panics > 0 {
			rec.Label("reconcile panicked (tolerated: installed version not semver)")
			e.panics = 0
		}
		if exp.Write && exp.NTags >= 2 || exp.Cyclic || (exp.NTags >= 1 && strings.Contains(exp.Why, "no tag qualifies")) {
			rec.NonTrivial(verifkit.JSON(w), func() any { return map[string]any{"world": w, "expect": exp.Why, "accept": setString(exp.Accept)} })
		}
		if a == nil {
			break
		}
		sp, _ := verifsim.Nested(a.Obj, "spec", "package").(string)
		ref, _ := name.ParseReference(sp, name.WithDefaultRegistry(defaultRegistry))
		written = append(written, ref.Identifier())
		if a.Err != "" {
			// The request was right but the server refused it (the resolver names packages after their
			// repository path, so the name can be taken): the package is not installed, nothing enters the lock.
			rec.Label(pfx + " correct write refused by the server (object name taken): " + a.Verb)
			break
		}
		adopt(&w, exp, sp)
		e.setLock(w)
	}
	return written
}

// TestVerifC17Resolver: generated lock contents, installed packages, tag lists
// and constraints in all three wirings of resolver.Setup; each reconcile is
// compared with the reference, and after each accepted write the package
// enters the lock (with its own dependencies) and the lock is reconciled again.
func TestVerifC17Resolver(t *testing.T) {
	rec := verifkit.New(t, "C17", "generated lock/packages/tags/constraints x 3 modes, histories of <=5 reconciles; non-trivial = a write chosen among >=2 parsable tags, a cycle, or a refusal with parsable tags; distinct=world JSON")
	rapid.Check(t, resolverProp(rec, "R", genWorld(), 5))
}

// genSelectionWorld focuses on the selection itself: one parent (or two) with
// free-form constraint strings and tag lists.
func genSelectionWorld() *rapid.Generator[world] {
	tagGen := rapid.OneOf(
		rapid.SampledFrom(semverTags), rapid.SampledFrom(semverTags), rapid.SampledFrom(semverTags),
		rapid.SampledFrom(genVersions[:len(genVersions)-2]),
		rapid.StringMatching(`v?[0-3]\.[0-3](\.[0-3])?(-(rc|alpha|beta)(\.[0-2])?)?`),
		rapid.StringMatching(`[A-Za-z0-9_][A-Za-z0-9_.-]{0,10}`),
	)
	consGen := rapid.OneOf(
		genConstraint(), genConstraint(), genConstraint(), genConstraint(),
		rapid.StringMatching(`(>=|>|<|<=|=|\^|~|!=)? ?v?[0-3](\.[0-3x*](\.[0-3x*])?)?(-(rc|alpha)(\.[0-2])?)?(, ?(<|<=|>|>=)[0-3]\.[0-3]\.[0-3])?`),
		rapid.StringOfN(rapid.RuneFrom([]rune(" <>=!~^|,.-*xXv0123456789abcrsh:")), 0, 16, -1),
	)
	return rapid.Custom(func(t *rapid.T) world {
		dep := repoIDs[1]
		w := world{Mode: rapid.SampledFrom([]int{0, 1, 1, 2, 2}).Draw(t, "mode"), Tags: map[string][]string{}, FetchErr: map[string]bool{}, Universe: map[string][]depSpec{}}
		w.Tags[dep] = rapid.SliceOfN(tagGen, 0, 10).Draw(t, "tags")
		np := rapid.IntRange(1, 2).Draw(t, "nparents")
		for i := 0; i < np; i++ {
			src := []string{repoIDs[0], repoIDs[2]}[i]
			w.Lock = append(w.Lock, lockPkg{Source: src, Kind: repoKind(src), Version: "1.0.0", Deps: []depSpec{{Pkg: dep, Kind: repoKind(dep), Style: rapid.IntRange(0, 1).Draw(t, "style"), Cons: consAround(t, w.Tags[dep], consGen)}}})
		}
		insGen := tagGen
		if len(w.Tags[dep]) > 0 {
			insGen = rapid.OneOf(rapid.SampledFrom(w.Tags[dep]), rapid.SampledFrom(w.Tags[dep]), tagGen)
		}
		switch rapid.IntRange(0, 3).Draw(t, "installed") {
		case 0: // not installed
		case 1: // installed and locked
			v := insGen.Draw(t, "lockedver")
			w.Lock = append(w.Lock, lockPkg{Source: dep, Kind: repoKind(dep), Version: v})
			w.Objs = append(w.Objs, pkgObj{Kind: repoKind(dep), Name: "dep", Package: packageString(dep, v)})
		case 2: // installed, not yet in the lock
			w.Objs = append(w.Objs, pkgObj{Kind: repoKind(dep), Name: "dep", Package: packageString(dep, insGen.Draw(t, "insver"))})
		case 3: // locked, object already moved on
			w.Lock = append(w.Lock, lockPkg{Source: dep, Kind: repoKind(dep), Version: insGen.Draw(t, "lockedver")})
			w.Objs = append(w.Objs, pkgObj{Kind: repoKind(dep), Name: "dep", Package: packageString(dep, insGen.Draw(t, "insver"))})
		}
		// An unrelated installed package of the same kind with the same repository path on another registry.
		if rapid.IntRange(0, 2).Draw(t, "twin") == 1 {
			twin := "registry-b.example.com:5000/acme/p1"
			w.Tags[twin] = rapid.SliceOfN(tagGen, 0, 6).Draw(t, "twintags")
			w.Objs = append(w.Objs, pkgObj{Kind: repoKind(dep), Name: rapid.SampledFrom([]string{"aaa-twin", "zzz-twin"}).Draw(t, "twinname"), Package: packageString(twin, insGen.Draw(t, "twinver"))})
			if rapid.Bool().Draw(t, "twinlocked") {
				ref, _ := name.ParseReference(w.Objs[len(w.Objs)-1].Package)
				w.Lock = append(w.Lock, lockPkg{Source: twin, Kind: repoKind(dep), Version: ref.Identifier()})
			}
		}
		return w
	})
}

func TestVerifC17Selection(t *testing.T) {
	rec := verifkit.New(t, "C17", "one dependency, 1-2 parents, free-form constraint strings and tag lists, installed/locked/lagging variants x 3 modes; non-trivial as above")
	rapid.Check(t, resolverProp(rec, "S", genSelectionWorld(), 2))
}

// fuzzSeeds gives the mutator long, varied byte streams to start from (rapid
// turns the bytes into draws; short inputs only reach trivial worlds).
func fuzzSeeds(f *testing.F) {
	x := uint64(0x9E3779B97F4A7C15)
	for i := 0; i < 24; i++ {
		b := make([]byte, 512+128*i)
		for j := range b {
			x ^= x << 13
			x ^= x >> 7
			x ^= x << 17
			b[j] = byte(x >> 32)
		}
		f.Add(b)
	}
}

func FuzzVerifC17Resolver(f *testing.F) {
	rec := verifkit.New(f, "C17", "fuzz: resolver worlds")
	fuzzSeeds(f)
	f.Fuzz(rapid.MakeFuzz(resolverProp(rec, "FR", genWorld(), 5)))
}

func FuzzVerifC17Selection(f *testing.F) {
	rec := verifkit.New(f, "C17", "fuzz: constraint/tag selection through the resolver")
	fuzzSeeds(f)
	f.Fuzz(rapid.MakeFuzz(resolverProp(rec, "FS", genSelectionWorld(), 2)))
}

// TestVerifC17TwinExhaustive enumerates the small scope of "two packages of one
// kind share a repository path on two registries": which twin a parent
// requires, whether the required one is missing / installed and locked
// (violating) / installed but not locked, whether the other twin is installed
// (named so that it lists before or after the required one) and locked, the
// versions on both sides, three constraints, all three modes. Identity is the
// full source including the registry (as the lock and the DAG define it): only
// the required package's own object may be created or moved, with tags and
// "not older" taken from the required package.
func TestVerifC17TwinExhaustive(t *testing.T) {
	rec := verifkit.New(t, "C17", "exhaustive twin-registry scope (see test comment); non-trivial = every case; distinct=case index")
	twins := []string{"registry-a.example.com/acme/p1", "registry-b.example.com:5000/acme/p1"}
	parent := repoIDs[0]
	shard, shards := verifkit.Shard()
	idx := 0
	for mode := 0; mode <= 2; mode++ {
		for req := 0; req < 2; req++ {
			for state := 0; state < 3; state++ { // 0 missing, 1 installed+locked, 2 installed, not locked
				for _, vr := range []string{"1.0.0", "3.0.0"} {
					for other := 0; other < 3; other++ { // 0 absent, 1 lists before, 2 lists after
						for _, vo := range []string{"1.0.0", "3.0.0", "latest"} {
							for otherLocked := 0; otherLocked < 2; otherLocked++ {
								for _, cons := range []string{">=2.0.0", "<2.0.0", "^3.0.0"} {
									if other == 0 && (vo != "1.0.0" || otherLocked == 1) {
										continue
									}
									if state == 0 && vr != "1.0.0" {
										continue
									}
									idx++
									if idx%shards != shard {
										continue
									}
									r, o := twins[req], twins[1-req]
									k := repoKind(r)
									w := world{Mode: mode, Tags: map[string][]string{r: {"4.0.0", "1.0.0", "3.0.0", "2.0.0"}, o: {"1.5.0", "5.0.0", "0.5.0"}}, FetchErr: map[string]bool{}, Universe: map[string][]depSpec{}}
									w.Lock = append(w.Lock, lockPkg{Source: parent, Version: "1.0.0", Deps: []depSpec{{Pkg: r, Kind: k, Style: 1, Cons: cons}}})
									if state >= 1 {
										w.Objs = append(w.Objs, pkgObj{Kind: k, Name: "mmm-required", Package: packageString(r, vr)})
									}
									if state == 1 {
										w.Lock = append(w.Lock, lockPkg{Source: r, Kind: k, Version: vr})
									}
									if other > 0 {
										w.Objs = append(w.Objs, pkgObj{Kind: k, Name: []string{"", "aaa-legacy", "zzz-legacy"}[other], Package: packageString(o, vo)})
										if otherLocked == 1 {
											w.Lock = append(w.Lock, lockPkg{Source: o, Kind: k, Version: vo})
										}
									}
									rec.Eval()
									runHistory(fatalName{t, fmt.Sprintf("twin case %d", idx)}, rec, "T", w, 3)
									rec.NonTrivial(fmt.Sprint(idx), func() any { return w })
								}
							}
						}
					}
				}
			}
		}
	}
}

// ---------------------------------------------------------------------------
// pinned rows

func TestVerifC17ResolverPinned(t *testing.T) {
	rec := verifkit.New(t, "C17", "pinned resolver rows")
	d1 := "sha256:" + strings.Repeat("ab", 32)
	p0, p1, p2 := repoIDs[0], repoIDs[1], repoIDs[2]
	dep := func(cons string) []depSpec { return []depSpec{{Pkg: p1, Kind: repoKind(p1), Style: 1, Cons: cons}} }
	rows := []struct {
		name string
		w    world
		want string // the identifiers written over the history, comma separated ("" = no write)
	}{
		{"install-highest-unsorted", world{Mode: 0, Lock: []lockPkg{{Source: p0, Version: "1.0.0", Deps: dep(">=1.0.0")}}, Tags: map[string][]string{p1: {"1.5.0", "latest", "2.1.0", "1.0.0", "not-semver", "2.0.0"}}}, "2.1.0"},
		{"install-excludes-bound", world{Mode: 0, Lock: []lockPkg{{Source: p0, Version: "1.0.0", Deps: dep(">1.0.0, <2.0.0")}}, Tags: map[string][]string{p1: {"2.0.0", "1.0.0", "1.1.0"}}}, "1.1.0"},
		{"install-nothing-qualifies", world{Mode: 0, Lock: []lockPkg{{Source: p0, Version: "1.0.0", Deps: dep(">=4.0.0")}}, Tags: map[string][]string{p1: {"2.0.0", "1.0.0"}}}, ""},
		{"install-digest", world{Mode: 0, Lock: []lockPkg{{Source: p0, Version: "1.0.0", Deps: dep(d1)}}, Tags: map[string][]string{p1: {"2.0.0"}}}, d1},
		{"install-invalid-constraint", world{Mode: 0, Lock: []lockPkg{{Source: p0, Version: "1.0.0", Deps: dep("foo")}}, Tags: map[string][]string{p1: {"2.0.0"}}}, ""},
		{"cycle", world{Mode: 0, Lock: []lockPkg{{Source: p0, Version: "1.0.0", Deps: []depSpec{{Pkg: p2, Kind: repoKind(p2), Cons: "*"}, {Pkg: p1, Kind: repoKind(p1), Cons: "*"}}}, {Source: p2, Version: "1.0.0", Deps: []depSpec{{Pkg: p0, Kind: repoKind(p0), Cons: "*"}}}}, Tags: map[string][]string{p1: {"2.0.0"}}}, ""},
		{"upgrade-lowest-not-older", world{Mode: 1, Lock: []lockPkg{{Source: p0, Version: "1.0.0", Deps: dep(">=1.5.0")}, {Source: p1, Kind: repoKind(p1), Version: "1.0.0"}}, Objs: []pkgObj{{Kind: repoKind(p1), Name: "dep", Package: p1 + ":1.0.0"}}, Tags: map[string][]string{p1: {"3.0.0", "0.9.0", "2.0.0", "1.5.0", "1.0.0"}}}, "1.5.0"},
		{"upgrade-no-downgrade-without-option", world{Mode: 1, Lock: []lockPkg{{Source: p0, Version: "1.0.0", Deps: dep("<1.0.0")}, {Source: p1, Kind: repoKind(p1), Version: "1.0.0"}}, Objs: []pkgObj{{Kind: repoKind(p1), Name: "dep", Package: p1 + ":1.0.0"}}, Tags: map[string][]string{p1: {"0.9.0", "1.0.0"}}}, ""},
		{"downgrade-highest-older", world{Mode: 2, Lock: []lockPkg{{Source: p0, Version: "1.0.0", Deps: dep("<1.5.0")}, {Source: p1, Kind: repoKind(p1), Version: "2.0.0"}}, Objs: []pkgObj{{Kind: repoKind(p1), Name: "dep", Package: p1 + ":2.0.0"}}, Tags: map[string][]string{p1: {"0.9.0", "1.2.3", "1.0.0", "2.0.0", "1.5.0"}}}, "1.2.3"},
		// Two parents with disjoint ranges; the dependency is installed and locked at a version only the first
		// parent accepts. No tag satisfies EVERY parent, so nothing may be written. (The fuzz campaign found this
		// row against the sensitivity mutant that honours only the first parent's constraint.)
		{"upgrade-disjoint-parents", world{Mode: 1, Lock: []lockPkg{{Source: p0, Version: "1.0.0", Deps: dep("^0.9.0")}, {Source: p2, Kind: repoKind(p2), Version: "1.0.0", Deps: dep(">=1.0.0")}, {Source: p1, Kind: repoKind(p1), Version: "0.9.0"}}, Objs: []pkgObj{{Kind: repoKind(p1), Name: "acme-p1", Package: p1 + ":0.9.0"}}, Tags: map[string][]string{p1: {"0.9.0", "1.0.0"}}}, ""},
		{"history-disjoint-parents", world{Mode: 1, Lock: []lockPkg{{Source: p0, Version: "1.0.0", Deps: []depSpec{{Pkg: p1, Kind: repoKind(p1), Style: 0, Cons: "^0.9.0"}}}, {Source: p2, Kind: repoKind(p2), Version: "1.0.0", Deps: []depSpec{{Pkg: p1, Kind: repoKind(p1), Style: 0, Cons: ">=1.0.0"}}}}, Tags: map[string][]string{p1: {"0.9.0", "1.0.0"}}}, "0.9.0"},
		// Twin registries, upgrades on, required package missing: it must be CREATED from its own tags; the unrelated
		// package with the same repository path on the other registry (legacy-foo) must not be touched.
		{"twin-missing-creates", world{Mode: 1, Lock: []lockPkg{{Source: p0, Version: "1.0.0", Deps: []depSpec{{Pkg: "registry-b.example.com/acme/p1", Kind: 1, Style: 1, Cons: ">=1.0.0"}}}}, Objs: []pkgObj{{Kind: 1, Name: "legacy-foo", Package: "registry-a.example.com/acme/p1:v1.0.0"}}, Tags: map[string][]string{"registry-b.example.com/acme/p1": {"v1.0.0", "v2.0.0"}, "registry-a.example.com/acme/p1": {"v1.0.0"}}}, "v2.0.0"},
		// Twin registries, required package installed but violating, the other-registry package lists after it: the
		// required package's own object moves, "not older" is measured against ITS installed version.
		{"twin-violating-moves-own-object", world{Mode: 1, Lock: []lockPkg{{Source: p0, Version: "1.0.0", Deps: []depSpec{{Pkg: "registry-b.example.com/acme/p1", Kind: 1, Style: 1, Cons: ">=2.0.0"}}}, {Source: "registry-b.example.com/acme/p1", Kind: 1, Version: "1.0.0"}}, Objs: []pkgObj{{Kind: 1, Name: "foo-b", Package: "registry-b.example.com/acme/p1:1.0.0"}, {Kind: 1, Name: "zz-legacy-foo", Package: "registry-a.example.com/acme/p1:3.0.0"}}, Tags: map[string][]string{"registry-b.example.com/acme/p1": {"1.0.0", "2.0.0", "3.0.0", "4.0.0"}, "registry-a.example.com/acme/p1": {"3.0.0"}}}, "2.0.0"},
		// Installed by digest, a parent asks for a range, upgrades enabled: nothing is "not older"
		// than a digest, so nothing may be written. (The code reaches semver.MustParse(digest) and
		// panics here; controller-runtime recovers reconciler panics by default, so the observable
		// behaviour is an error and no write, which is what the property demands.)
		{"upgrade-installed-digest", world{Mode: 1, Lock: []lockPkg{{Source: p0, Version: "1.0.0", Deps: dep(">=1.0.0")}, {Source: p1, Kind: repoKind(p1), Version: d1}}, Objs: []pkgObj{{Kind: repoKind(p1), Name: "dep", Package: p1 + "@" + d1}}, Tags: map[string][]string{p1: {"1.0.0"}}}, ""},
	}
	for _, r := range rows {
		rec.Eval()
		got := strings.Join(runHistory(fatalName{t, r.name}, rec, "P", r.w, 4), ",")
		if got != r.want {
			t.Fatalf("%s: wrote %q, want %q", r.name, got, r.want)
		}
		rec.NonTrivial(r.name, func() any { return r.name })
	}
}

type fatalName struct {
	t    *testing.T
	name string
}

func (f fatalName) Fatalf(format string, args ...any) {
	f.t.Helper()
	f.t.Fatalf(f.name+": "+format, args...)
}
