//go:build verif

package c17

import (
	"fmt"
	"sort"
	"strings"
	"testing"

	"k8s.io/utils/ptr"
	"pgregory.net/rapid"

	"github.com/crossplane/crossplane/apis/pkg/v1beta1"
	"github.com/crossplane/crossplane/internal/dag"
	"github.com/crossplane/crossplane/internal/verifkit"
)

// ---------------------------------------------------------------------------
// Part 1a: graphs as the package manager builds them (v1beta1.LockPackage
// nodes whose neighbours are their declared dependencies).

// A gcase is a directed graph over ids; only nodes in the lock have outgoing
// edges (a dependency that is not in the lock has unknown dependencies).
type gcase struct {
	IDs    []string
	InLock []bool
	Order  []int      // lock order: indices of the lock nodes
	Deps   [][]int    // ordered dependency targets per node (empty unless in lock)
	Cons   [][]string // constraint per dependency edge
	Vers   []string   // version per lock node
}

func (c gcase) packages() []v1beta1.LockPackage {
	out := make([]v1beta1.LockPackage, 0, len(c.Order))
	for _, u := range c.Order {
		lp := v1beta1.LockPackage{Name: fmt.Sprintf("rev-%d", u), Source: c.IDs[u], Version: c.Vers[u], Type: ptr.To(v1beta1.ProviderPackageType)}
		for k, v := range c.Deps[u] {
			lp.Dependencies = append(lp.Dependencies, v1beta1.Dependency{Package: c.IDs[v], Type: ptr.To(v1beta1.ProviderPackageType), Constraints: c.Cons[u][k]})
		}
		out = append(out, lp)
	}
	return out
}

func (c gcase) graph() digraph {
	g := newDigraph(len(c.IDs))
	for u := range c.IDs {
		if !c.InLock[u] {
			continue
		}
		for _, v := range c.Deps[u] {
			g.adj[u][v] = true
		}
	}
	return g
}

// exists: a node is in the graph iff it is in the lock or a lock node depends on it.
func (c gcase) exists() []bool {
	ex := append([]bool(nil), c.InLock...)
	for u := range c.IDs {
		if c.InLock[u] {
			for _, v := range c.Deps[u] {
				ex[v] = true
			}
		}
	}
	return ex
}

// refImplied is the reference for Init's result as a set of ids. For the plain
// DAG: targets that are not in the lock. For the upgrading DAG additionally
// targets whose recorded version/constraint is not valid for an edge into them.
func (c gcase) refImplied(upgrading bool) map[string]bool {
	out := map[string]bool{}
	recorded := map[int]string{}
	for u := range c.IDs {
		if c.InLock[u] {
			recorded[u] = c.Vers[u]
		}
	}
	for _, u := range c.Order {
		for k, v := range c.Deps[u] {
			have, ok := recorded[v]
			switch {
			case !ok:
				out[c.IDs[v]] = true
				recorded[v] = c.Cons[u][k]
			case upgrading && !validFor(have, c.Cons[u][k]):
				out[c.IDs[v]] = true
			}
		}
	}
	return out
}

type failer interface {
	Fatalf(format string, args ...any)
}

func idsOf(ns []dag.Node) []string {
	out := make([]string, 0, len(ns))
	for _, n := range ns {
		out = append(out, n.Identifier())
	}
	return out
}

func keysOf(m map[string]dag.Node) []string {
	out := make([]string, 0, len(m))
	for k := range m {
		out = append(out, k)
	}
	sort.Strings(out)
	return out
}

// checkLockGraph compares one DAG implementation against the reference on one
// lock-shaped graph. It returns whether the graph is cyclic.
func checkLockGraph(t failer, name string, newDag func() dag.DAG, upgrading bool, c gcase) bool {
	g := c.graph()
	ex := c.exists()
	reach := g.closure()
	cyc := g.cyclic()

	d := newDag()
	// Init must clear earlier content.
	_ = d.AddNode(&v1beta1.LockPackage{Source: "stale/node"})
	implied, err := d.Init(v1beta1.ToNodes(c.packages()...))
	if err != nil {
		t.Fatalf("%s: Init failed on a lock with distinct sources: %v\ncase=%s", name, err, verifkit.JSON(c))
	}
	if d.NodeExists("stale/node") {
		t.Fatalf("%s: Init did not clear existing nodes", name)
	}
	want := c.refImplied(upgrading)
	got := map[string]bool{}
	for _, n := range implied {
		got[n.Identifier()] = true
		if _, ok := n.(*v1beta1.Dependency); !ok {
			t.Fatalf("%s: implied node %s is %T, not a *Dependency", name, n.Identifier(), n)
		}
	}
	if setString(got) != setString(want) {
		t.Fatalf("%s: Init implied %s, reference %s\ncase=%s", name, setString(got), setString(want), verifkit.JSON(c))
	}

	for i, id := range c.IDs {
		if d.NodeExists(id) != ex[i] {
			t.Fatalf("%s: NodeExists(%s)=%v, reference %v\ncase=%s", name, id, !ex[i], ex[i], verifkit.JSON(c))
		}
		n, err := d.GetNode(id)
		if (err == nil) != ex[i] || (err == nil && n.Identifier() != id) {
			t.Fatalf("%s: GetNode(%s) = %v, %v; exists=%v", name, id, n, err, ex[i])
		}
		nb, err := d.NodeNeighbors(id)
		if (err == nil) != ex[i] {
			t.Fatalf("%s: NodeNeighbors(%s) err=%v; exists=%v", name, id, err, ex[i])
		}
		if ex[i] {
			var wantNb []string
			if c.InLock[i] {
				for _, v := range c.Deps[i] {
					wantNb = append(wantNb, c.IDs[v])
				}
			}
			if strings.Join(sortedSet(idsOf(nb)), ",") != strings.Join(sortedSet(wantNb), ",") {
				t.Fatalf("%s: NodeNeighbors(%s)=%v, reference %v", name, id, idsOf(nb), wantNb)
			}
		}
		// TraceNode == reachability closure (paths of length >= 1).
		tree, err := d.TraceNode(id)
		if !ex[i] {
			if err == nil {
				t.Fatalf("%s: TraceNode(%s) of a node that is not in the graph returned no error", name, id)
			}
			continue
		}
		if err != nil {
			t.Fatalf("%s: TraceNode(%s): %v\ncase=%s", name, id, err, verifkit.JSON(c))
		}
		var wantTree []string
		for j := range c.IDs {
			if reach[i][j] {
				wantTree = append(wantTree, c.IDs[j])
			}
		}
		sort.Strings(wantTree)
		if strings.Join(keysOf(tree), ",") != strings.Join(wantTree, ",") {
			t.Fatalf("%s: TraceNode(%s)=%v, reachability closure %v\ncase=%s", name, id, keysOf(tree), wantTree, verifkit.JSON(c))
		}
		for k, n := range tree {
			if n == nil || n.Identifier() != k {
				t.Fatalf("%s: TraceNode(%s)[%s] holds node %v", name, id, k, n)
			}
		}
	}

	// Parent constraints (upgrading DAG): as a set, exactly the constraints of the edges into the node.
	if upgrading {
		for v, id := range c.IDs {
			if !ex[v] {
				continue
			}
			var wantPC []string
			for _, u := range c.Order {
				for k, w := range c.Deps[u] {
					if w == v {
						wantPC = append(wantPC, c.Cons[u][k])
					}
				}
			}
			n, _ := d.GetNode(id)
			if strings.Join(sortedSet(n.GetParentConstraints()), "|") != strings.Join(sortedSet(wantPC), "|") {
				t.Fatalf("%s: parent constraints of %s = %q, edges into it carry %q\ncase=%s", name, id, n.GetParentConstraints(), wantPC, verifkit.JSON(c))
			}
		}
	}

	// Sort: error iff cyclic; otherwise a valid dependencies-first order.
	order, err := d.Sort()
	if cyc {
		if err == nil {
			t.Fatalf("%s: Sort returned %v and no error on a cyclic graph\ncase=%s", name, order, verifkit.JSON(c))
		}
	} else {
		if err != nil {
			t.Fatalf("%s: Sort failed on an acyclic graph: %v\ncase=%s", name, err, verifkit.JSON(c))
		}
		if msg := validDepsFirstOrder(order, c.IDs, ex, g); msg != "" {
			t.Fatalf("%s: Sort returned %v: %s\ncase=%s", name, order, msg, verifkit.JSON(c))
		}
	}

	// AddNode / AddEdge contracts on the initialised graph.
	for i, id := range c.IDs {
		if ex[i] {
			if err := d.AddNode(&v1beta1.Dependency{Package: id}); err == nil {
				t.Fatalf("%s: AddNode(%s) of an existing node returned no error", name, id)
			}
		}
	}
	if _, err := d.AddEdge("ghost/from", &v1beta1.Dependency{Package: "ghost/to"}); err == nil {
		t.Fatalf("%s: AddEdge from a node that does not exist returned no error", name)
	}
	if d.NodeExists("ghost/to") || d.NodeExists("ghost/from") {
		t.Fatalf("%s: failed AddEdge added a node", name)
	}
	for i, id := range c.IDs {
		if c.InLock[i] {
			imp, err := d.AddEdge(id, &v1beta1.Dependency{Package: "fresh/node", Constraints: "*"})
			if err != nil || !imp || !d.NodeExists("fresh/node") {
				t.Fatalf("%s: AddEdge(%s -> fresh/node) = %v, %v; exists=%v", name, id, imp, err, d.NodeExists("fresh/node"))
			}
			break
		}
	}
	return cyc
}

var dagImpls = []struct {
	name      string
	fn        func() dag.DAG
	upgrading bool
}{
	{"MapDag", dag.NewMapDag, false},
	{"MapUpgradingDag", dag.NewUpgradingMapDag, true},
}

func graphIDs(n int) []string {
	ids := make([]string, n)
	for i := range ids {
		ids[i] = fmt.Sprintf("xpkg.example.org/acme/p%d", i)
	}
	return ids
}

var (
	exhVers = []string{"1.0.0", "v1.5.0", "2.0.0", "sha256:" + strings.Repeat("ab", 32), "latest"}
	exhCons = []string{">=1.0.0", ">1.0.0", "<2.0.0", "1.0.0", "sha256:" + strings.Repeat("ab", 32), "not a constraint", "^1.2.0"}
)

// TestVerifC17DagExhaustive enumerates EVERY digraph (self-loops included) on
// up to 3 nodes (4 in the thorough tier) for every choice of which nodes are in
// the lock (rows of nodes that are not in the lock are empty), in two lock /
// dependency orders, against both DAG implementations.
func TestVerifC17DagExhaustive(t *testing.T) {
	rec := verifkit.New(t, "C17", "every digraph on <=N nodes x every lock subset x 2 orders x both DAGs; non-trivial = at least one edge; distinct=(n,lock mask,edge bits,order)")
	maxN := 3
	if verifkit.Tier() == "thorough" {
		maxN = 4
	}
	shard, shards := verifkit.Shard()
	idx := 0
	for n := 1; n <= maxN; n++ {
		ids := graphIDs(n)
		for mask := 0; mask < 1<<n; mask++ {
			var lock []int
			for i := 0; i < n; i++ {
				if mask&(1<<i) != 0 {
					lock = append(lock, i)
				}
			}
			bits := len(lock) * n
			for eb := 0; eb < 1<<bits; eb++ {
				idx++
				if idx%shards != shard {
					continue
				}
				for rev := 0; rev < 2; rev++ {
					c := gcase{IDs: ids, InLock: make([]bool, n), Deps: make([][]int, n), Cons: make([][]string, n), Vers: make([]string, n)}
					edges := 0
					for li, u := range lock {
						c.InLock[u] = true
						c.Vers[u] = exhVers[(u+eb+mask)%len(exhVers)]
						for v := 0; v < n; v++ {
							w := v
							if rev == 1 {
								w = n - 1 - v
							}
							if eb&(1<<(li*n+w)) != 0 {
								c.Deps[u] = append(c.Deps[u], w)
								c.Cons[u] = append(c.Cons[u], exhCons[(u*n+w+eb)%len(exhCons)])
								edges++
							}
						}
					}
					c.Order = append([]int(nil), lock...)
					if rev == 1 {
						sort.Sort(sort.Reverse(sort.IntSlice(c.Order)))
					}
					for _, impl := range dagImpls {
						rec.Eval()
						cyc := checkLockGraph(t, impl.name, impl.fn, impl.upgrading, c)
						rec.Labelf("n=%d", n)
						if cyc {
							rec.Label("cyclic")
						} else {
							rec.Label("acyclic")
						}
						if edges > 0 {
							rec.NonTrivial(fmt.Sprintf("%s/%d/%d/%d/%d", impl.name, n, mask, eb, rev), func() any { return c })
						}
					}
				}
			}
		}
	}
}

var (
	genVersions = []string{"0.9.0", "1.0.0", "v1.0.0", "1.1.0", "1.2.3", "v1.5.0", "2.0.0", "v2.1.0", "3.0.0", "1.0.0-rc.1", "2.0.0-alpha", "1.2", "v1", "latest", "main", "1.0.0.0", "01.0.0", "sha256:" + strings.Repeat("ab", 32), "sha256:" + strings.Repeat("cd", 32)}
	genOps      = []string{"", "=", ">=", ">", "<", "<=", "^", "~", "!="}
	genSpecial  = []string{"*", "1.x", "1.2.x", ">=1.0.0, <2.0.0", ">=1.0.0 <2.0.0", "1.0.0 || 2.0.0", ">=1.0.0-0", ">=1.0.0-rc.1", "", "foo", ">>1", "sha256:abc", "sha256:" + strings.Repeat("ab", 32), "sha256:" + strings.Repeat("cd", 32), "v1.0.0", ">= v1.1.0", "1.0.0 - 2.0.0", "<1.0.0", ">=4.0.0"}
	semverCores = []string{"0.9.0", "1.0.0", "1.1.0", "1.2.3", "1.5.0", "2.0.0", "2.1.0", "3.0.0", "1.0.0-rc.1", "2.0.0-alpha", "1.2", "v1.0.0"}
)

func genConstraint() *rapid.Generator[string] {
	return rapid.Custom(func(t *rapid.T) string {
		switch rapid.IntRange(0, 19).Draw(t, "ckind") {
		case 0, 1:
			return rapid.SampledFrom(genSpecial).Draw(t, "special")
		case 2, 3, 4:
			a := rapid.SampledFrom(semverCores).Draw(t, "lo")
			b := rapid.SampledFrom(semverCores).Draw(t, "hi")
			return ">=" + a + ", <" + b
		case 5:
			return rapid.SampledFrom([]string{"*", ">=0.0.0", ">=0.0.0-0", "x", ">=1.0.0-0"}).Draw(t, "any")
		case 6:
			return rapid.SampledFrom(genVersions[len(genVersions)-2:]).Draw(t, "digest")
		default:
			return rapid.SampledFrom(genOps).Draw(t, "op") + rapid.SampledFrom(semverCores).Draw(t, "cv")
		}
	})
}

// genVersion: mostly semantic versions (with v prefixes, short forms and
// prereleases), sometimes floating tags or digests.
func genVersion() *rapid.Generator[string] {
	return rapid.Custom(func(t *rapid.T) string {
		if rapid.IntRange(0, 9).Draw(t, "odd") == 0 {
			return rapid.SampledFrom(genVersions).Draw(t, "oddver")
		}
		return rapid.SampledFrom(semverTags).Draw(t, "semver")
	})
}

var semverTags = []string{"0.9.0", "1.0.0", "v1.0.0", "1.1.0", "1.2.3", "v1.2.3", "1.5.0", "v1.5.0", "2.0.0", "v2.0.0", "2.1.0", "3.0.0", "1.0.0-rc.1", "2.0.0-alpha", "1.2", "v1"}

func genGraph(maxN int) *rapid.Generator[gcase] {
	return rapid.Custom(func(t *rapid.T) gcase {
		n := rapid.IntRange(1, maxN).Draw(t, "n")
		c := gcase{IDs: graphIDs(n), InLock: make([]bool, n), Deps: make([][]int, n), Cons: make([][]string, n), Vers: make([]string, n)}
		dense := rapid.IntRange(0, 3).Draw(t, "density")
		for u := 0; u < n; u++ {
			c.InLock[u] = rapid.IntRange(0, 3).Draw(t, "inlock") != 0
			if !c.InLock[u] {
				continue
			}
			c.Order = append(c.Order, u)
			c.Vers[u] = genVersion().Draw(t, "ver")
			nd := rapid.IntRange(0, 1+dense).Draw(t, "ndeps")
			for k := 0; k < nd; k++ {
				var v int
				if dense == 0 && u+1 < n {
					v = rapid.IntRange(u+1, n-1).Draw(t, "fwd") // acyclic by construction
				} else {
					v = rapid.IntRange(0, n-1).Draw(t, "to")
				}
				dup := false
				for _, w := range c.Deps[u] {
					dup = dup || w == v
				}
				if dup { // a package lists a dependency once
					continue
				}
				c.Deps[u] = append(c.Deps[u], v)
				c.Cons[u] = append(c.Cons[u], genConstraint().Draw(t, "cons"))
			}
		}
		c.Order = rapid.Permutation(c.Order).Draw(t, "lockorder")
		return c
	})
}

// TestVerifC17DagRandom: random lock-shaped graphs on up to 8 nodes with
// generated versions and constraints, duplicate dependency entries, permuted
// lock order.
func TestVerifC17DagRandom(t *testing.T) {
	rec := verifkit.New(t, "C17", "random lock graphs <=8 nodes; non-trivial = >=2 edges; distinct=case JSON")
	rapid.Check(t, func(t *rapid.T) {
		c := genGraph(8).Draw(t, "graph")
		edges := 0
		for _, d := range c.Deps {
			edges += len(d)
		}
		for _, impl := range dagImpls {
			rec.Eval()
			cyc := checkLockGraph(t, impl.name, impl.fn, impl.upgrading, c)
			rec.Labelf("cyclic=%v", cyc)
			rec.Labelf("n=%d", len(c.IDs))
			if edges >= 2 {
				rec.NonTrivial(impl.name+verifkit.JSON(c), func() any { return c })
			}
		}
	})
}

// ---------------------------------------------------------------------------
// Part 1b: graphs built through the mutating API (AddNode, AddNodes, AddEdge,
// AddEdges, AddOrUpdateNodes) with a node type that stores its neighbours.

type vnode struct {
	id, cons string
	nbrs     []dag.Node
	pcs      []string
}

func (v *vnode) Identifier() string              { return v.id }
func (v *vnode) Neighbors() []dag.Node           { return append([]dag.Node(nil), v.nbrs...) }
func (v *vnode) GetConstraints() string          { return v.cons }
func (v *vnode) GetParentConstraints() []string  { return v.pcs }
func (v *vnode) AddParentConstraints(c []string) { v.pcs = append(v.pcs, c...) }
func (v *vnode) AddNeighbors(ns ...dag.Node) error {
	for _, n := range ns {
		dup := false
		for _, o := range v.nbrs {
			if o.Identifier() == n.Identifier() {
				dup = true
			}
		}
		if !dup {
			v.nbrs = append(v.nbrs, n)
		}
	}
	return nil
}

type opModel struct {
	nbrs map[string]map[string]bool // node -> neighbour ids
	cons map[string]string
}

func (m *opModel) check(t *rapid.T, name string, d dag.DAG, alphabet []string) (cyclic, dangling bool) {
	idx := map[string]int{}
	for i, id := range alphabet {
		idx[id] = i
	}
	g := newDigraph(len(alphabet))
	ex := make([]bool, len(alphabet))
	for id, ns := range m.nbrs {
		ex[idx[id]] = true
		for nb := range ns {
			g.adj[idx[id]][idx[nb]] = true
		}
	}
	reach := g.closure()
	for u := range alphabet {
		for v := range alphabet {
			if ex[u] && g.adj[u][v] && !ex[v] {
				dangling = true
			}
		}
	}
	cyclic = false
	for i := range alphabet {
		if ex[i] && reach[i][i] {
			cyclic = true
		}
	}
	for i, id := range alphabet {
		if d.NodeExists(id) != ex[i] {
			t.Fatalf("%s: NodeExists(%s)=%v, model %v", name, id, !ex[i], ex[i])
		}
		nb, err := d.NodeNeighbors(id)
		if (err == nil) != ex[i] {
			t.Fatalf("%s: NodeNeighbors(%s) err=%v, model exists=%v", name, id, err, ex[i])
		}
		if ex[i] {
			var want []string
			for w := range m.nbrs[id] {
				want = append(want, w)
			}
			if strings.Join(sortedSet(idsOf(nb)), ",") != strings.Join(sortedSet(want), ",") {
				t.Fatalf("%s: NodeNeighbors(%s)=%v, model %v", name, id, idsOf(nb), sortedSet(want))
			}
		}
		tree, err := d.TraceNode(id)
		// TraceNode fails iff the start or something reachable is not a node.
		bad := !ex[i]
		for j := range alphabet {
			if ex[i] && reach[i][j] && !ex[j] {
				bad = true
			}
		}
		if bad {
			if err == nil {
				t.Fatalf("%s: TraceNode(%s) succeeded although a node on the way does not exist", name, id)
			}
			continue
		}
		if err != nil {
			t.Fatalf("%s: TraceNode(%s): %v", name, id, err)
		}
		var want []string
		for j := range alphabet {
			if reach[i][j] {
				want = append(want, alphabet[j])
			}
		}
		sort.Strings(want)
		if strings.Join(keysOf(tree), ",") != strings.Join(want, ",") {
			t.Fatalf("%s: TraceNode(%s)=%v, closure %v (model %v)", name, id, keysOf(tree), want, m.nbrs)
		}
	}
	order, err := d.Sort()
	switch {
	case cyclic || dangling:
		if err == nil {
			t.Fatalf("%s: Sort returned %v without error; cyclic=%v dangling=%v model=%v", name, order, cyclic, dangling, m.nbrs)
		}
	case err != nil:
		t.Fatalf("%s: Sort failed on an acyclic graph: %v (model %v)", name, err, m.nbrs)
	default:
		if msg := validDepsFirstOrder(order, alphabet, ex, g); msg != "" {
			t.Fatalf("%s: Sort returned %v: %s (model %v)", name, order, msg, m.nbrs)
		}
	}
	return cyclic, dangling
}

// TestVerifC17DagOps drives both DAGs through random sequences of the mutating
// API and compares every query with a model.
func TestVerifC17DagOps(t *testing.T) {
	rec := verifkit.New(t, "C17", "random AddNode/AddNodes/AddEdge/AddEdges/AddOrUpdateNodes/Init sequences over <=6 ids against a model; non-trivial = >=3 ops that changed the model; distinct=op trace")
	alphabet := []string{"a", "b", "c", "d", "e", "f"}
	vers := []string{"1.0.0", "2.0.0", "v1.5.0", "latest", ">=1.0.0", "sha256:" + strings.Repeat("ab", 32)}
	rapid.Check(t, func(t *rapid.T) {
		impl := rapid.SampledFrom(dagImpls).Draw(t, "impl")
		rec.Eval()
		d := impl.fn()
		m := &opModel{nbrs: map[string]map[string]bool{}, cons: map[string]string{}}
		var trace []string
		changed := 0
		mk := func(label string) *vnode {
			return &vnode{id: rapid.SampledFrom(alphabet).Draw(t, label), cons: rapid.SampledFrom(append(vers, genSpecial...)).Draw(t, label+"cons")}
		}
		nops := rapid.IntRange(1, 12).Draw(t, "nops")
		for i := 0; i < nops; i++ {
			switch rapid.IntRange(0, 5).Draw(t, "op") {
			case 0: // AddNode
				n := mk("node")
				err := d.AddNode(n)
				_, had := m.nbrs[n.id]
				if (err != nil) != had {
					t.Fatalf("%s: AddNode(%s) err=%v, model had=%v", impl.name, n.id, err, had)
				}
				if !had {
					m.nbrs[n.id] = map[string]bool{}
					m.cons[n.id] = n.cons
					changed++
				}
				trace = append(trace, "node:"+n.id)
			case 1, 2: // AddEdge
				from := rapid.SampledFrom(alphabet).Draw(t, "from")
				to := mk("to")
				imp, err := d.AddEdge(from, to)
				if _, ok := m.nbrs[from]; !ok {
					if err == nil {
						t.Fatalf("%s: AddEdge(%s->%s) from a missing node returned no error", impl.name, from, to.id)
					}
					if _, ok := m.nbrs[to.id]; !ok && d.NodeExists(to.id) {
						t.Fatalf("%s: failed AddEdge added node %s", impl.name, to.id)
					}
					continue
				}
				if err != nil {
					t.Fatalf("%s: AddEdge(%s->%s): %v", impl.name, from, to.id, err)
				}
				_, had := m.nbrs[to.id]
				wantImp := !had || (impl.upgrading && !validFor(m.cons[to.id], to.cons))
				if imp != wantImp {
					t.Fatalf("%s: AddEdge(%s->%s[%q]) implied=%v, reference %v (existing=%v recorded %q)", impl.name, from, to.id, to.cons, imp, wantImp, had, m.cons[to.id])
				}
				if !had {
					m.nbrs[to.id] = map[string]bool{}
					m.cons[to.id] = to.cons
				}
				m.nbrs[from][to.id] = true
				changed++
				trace = append(trace, "edge:"+from+">"+to.id)
			case 3: // AddOrUpdateNodes with a fresh neighbour list (may dangle)
				n := mk("upd")
				nn := map[string]bool{}
				for _, w := range rapid.SliceOfN(rapid.SampledFrom(alphabet), 0, 2).Draw(t, "updnbrs") {
					if _, ok := m.nbrs[w]; ok || rapid.IntRange(0, 7).Draw(t, "dangle") == 0 {
						_ = n.AddNeighbors(&vnode{id: w})
						nn[w] = true
					}
				}
				d.AddOrUpdateNodes(n)
				m.nbrs[n.id] = nn
				m.cons[n.id] = n.cons
				changed++
				trace = append(trace, fmt.Sprintf("upd:%s%v", n.id, sortedSet(idsOf(n.nbrs))))
			case 4: // AddNodes: stops at the first duplicate
				a, b := mk("n1"), mk("n2")
				err := d.AddNodes(a, b)
				wantErr := false
				for _, n := range []*vnode{a, b} {
					if _, had := m.nbrs[n.id]; had {
						wantErr = true
						break
					}
					m.nbrs[n.id] = map[string]bool{}
					m.cons[n.id] = n.cons
					changed++
				}
				if (err != nil) != wantErr {
					t.Fatalf("%s: AddNodes(%s,%s) err=%v, model wants error=%v", impl.name, a.id, b.id, err, wantErr)
				}
				trace = append(trace, "nodes:"+a.id+b.id)
			case 5: // Init with nodes that carry neighbours
				ids := rapid.SliceOfNDistinct(rapid.SampledFrom(alphabet), 0, 4, rapid.ID[string]).Draw(t, "initids")
				var ns []dag.Node
				nm := &opModel{nbrs: map[string]map[string]bool{}, cons: map[string]string{}}
				wantImplied := map[string]bool{}
				for _, id := range ids {
					n := &vnode{id: id, cons: rapid.SampledFrom(vers).Draw(t, "icons")}
					nm.nbrs[id] = map[string]bool{}
					nm.cons[id] = n.cons
					ns = append(ns, n)
				}
				for _, n := range ns {
					vn := n.(*vnode)
					for _, w := range rapid.SliceOfNDistinct(rapid.SampledFrom(alphabet), 0, 3, rapid.ID[string]).Draw(t, "inbrs") {
						nb := &vnode{id: w, cons: rapid.SampledFrom(append(vers, genSpecial...)).Draw(t, "inbcons")}
						vn.nbrs = append(vn.nbrs, nb)
					}
				}
				for _, n := range ns {
					vn := n.(*vnode)
					for _, nb := range vn.nbrs {
						w := nb.(*vnode)
						if _, ok := nm.nbrs[w.id]; !ok {
							wantImplied[w.id] = true
							nm.nbrs[w.id] = map[string]bool{}
							nm.cons[w.id] = w.cons
						} else if impl.upgrading && !validFor(nm.cons[w.id], w.cons) {
							wantImplied[w.id] = true
						}
						nm.nbrs[vn.id][w.id] = true
					}
				}
				implied, err := d.Init(ns)
				if err != nil {
					t.Fatalf("%s: Init: %v", impl.name, err)
				}
				got := map[string]bool{}
				for _, n := range implied {
					got[n.Identifier()] = true
				}
				if setString(got) != setString(wantImplied) {
					t.Fatalf("%s: Init implied %s, reference %s", impl.name, setString(got), setString(wantImplied))
				}
				m = nm
				changed++
				trace = append(trace, fmt.Sprintf("init:%v", ids))
			}
		}
		cyc, dang := m.check(t, impl.name, d, alphabet)
		rec.Labelf("cyclic=%v", cyc)
		rec.Labelf("dangling=%v", dang)
		if changed >= 3 {
			rec.NonTrivial(impl.name+strings.Join(trace, ";"), func() any { return trace })
		}
	})
}
