//go:build verif

// Package c01 decides property C01: composed resources are never leaked or
// duplicated, whatever fails mid-reconcile, and a composed steady state is quiet.
package c01

import (
	"context"
	"encoding/json"
	"fmt"
	"sort"
	"strings"
	"testing"

	corev1 "k8s.io/api/core/v1"
	extv1 "k8s.io/apiextensions-apiserver/pkg/apis/apiextensions/v1"
	metav1 "k8s.io/apimachinery/pkg/apis/meta/v1"
	"k8s.io/apimachinery/pkg/apis/meta/v1/unstructured"
	"k8s.io/apimachinery/pkg/runtime"
	"k8s.io/apimachinery/pkg/types"
	utilrand "k8s.io/apimachinery/pkg/util/rand"
	"k8s.io/utils/ptr"
	"pgregory.net/rapid"

	"google.golang.org/protobuf/types/known/structpb"

	fnv1 "github.com/crossplane/crossplane/apis/apiextensions/fn/proto/v1"
	v1 "github.com/crossplane/crossplane/apis/apiextensions/v1"
	"github.com/crossplane/crossplane/internal/controller/apiextensions/composite"
	"github.com/crossplane/crossplane/internal/verifenv"
	"github.com/crossplane/crossplane/internal/verifkit"
	"github.com/crossplane/crossplane/internal/verifsim"
)

const (
	annName = "crossplane.io/composition-resource-name"
	xrName  = "xr1"
)

// ---------------------------------------------------------------------------
// scenario model

type cond int

const (
	always cond = iota
	whenExists
	whenReady
)

// rule is one desired resource of a scripted function or one P&T template.
type rule struct {
	Name      string `json:"name"`
	Kind      string `json:"kind"`
	FixedName string `json:"fixedName,omitempty"`
	Val       string `json:"val"`
	When      cond   `json:"when,omitempty"`  // pipeline only
	Other     string `json:"other,omitempty"` // pipeline only
	Step      int    `json:"step,omitempty"`  // pipeline only
	Param     string `json:"param,omitempty"` // resources mode: from-XR patch source spec.params.<Param>
	Required  bool   `json:"required,omitempty"`
	// DropParam (pipeline): the resource is no longer desired once the user has set spec.params.<DropParam>
	// (never unset again, so a dropped name never comes back and "at most one object ever" stays meaningful).
	DropParam string `json:"dropParam,omitempty"`
	// DropRev2 (resources mode): revision 2 of the Composition no longer has this template.
	DropRev2 bool `json:"dropRev2,omitempty"`
	// Namespace of the composed resource ("" = cluster scoped). Two pipeline rules of one kind may share the
	// fixed name "fixed-same" in different namespaces.
	Namespace string `json:"namespace,omitempty"`
	// NameParam (pipeline): once the user has set spec.params.<NameParam> the function returns an explicit
	// metadata.name ("named-<rule>") for this resource - e.g. a name derived from an XR field the user just
	// edited. An existing composed resource keeps the name it has.
	NameParam string `json:"nameParam,omitempty"`
	// StaleAnn: the desired resource / template base already carries a crossplane.io/composition-resource-name
	// annotation naming ANOTHER resource of the composition (a pasted exported manifest, a function cloning an
	// observed sibling). Rendering overwrites it.
	StaleAnn string `json:"staleAnn,omitempty"`
}

type scenario struct {
	Pipeline bool              `json:"pipeline"`
	Steps    int               `json:"steps"`
	Rules    []rule            `json:"rules"`
	Params   map[string]string `json:"params"`
	Seed     int64             `json:"seed"`
	// Conn: 0 = the XR asks for no connection secret; 1 = it asks for one and the composition produces no
	// connection details; 2 = it asks for one and (pipeline mode) the last step returns fixed details.
	Conn int `json:"conn,omitempty"`
	// CacheLag: the faulted reconciles of the sweep (and drawn reconciles of the histories) read composed
	// resources through a cache that has not yet seen just-created resources; follow-up reconciles see a caught-up cache.
	CacheLag bool `json:"cacheLag,omitempty"`
}

// envStep is something the environment (provider, user) does between reconciles.
type envStep struct {
	Ready string `json:"ready,omitempty"` // provider marks the composed resource for this name ready
	Param string `json:"param,omitempty"` // user sets spec.params.<Param>
	Rev2  bool   `json:"rev2,omitempty"`  // the Composition is edited: revision 2 drops the DropRev2 templates
	// Unparam: the user removes spec.params.<Unparam> again (only offered for patch sources of P&T templates,
	// never for the pipeline's drop switches): a Required patch then fails to render for a resource that
	// already exists, which must stay referenced and untouched.
	Unparam string `json:"unparam,omitempty"`
}

func genScenario() *rapid.Generator[scenario] {
	return rapid.Custom(func(t *rapid.T) scenario {
		sc := scenario{Pipeline: rapid.Bool().Draw(t, "pipeline"), Params: map[string]string{}, Seed: rapid.Int64Range(1, 1<<40).Draw(t, "nameseed")}
		sc.Conn = rapid.SampledFrom([]int{0, 0, 1, 2}).Draw(t, "conn")
		sc.CacheLag = rapid.IntRange(0, 2).Draw(t, "cachelag") == 0
		n := rapid.IntRange(1, 4).Draw(t, "nrules")
		sc.Steps = 1
		if sc.Pipeline {
			sc.Steps = rapid.IntRange(1, 3).Draw(t, "nsteps")
		}
		for i := 0; i < n; i++ {
			r := rule{Name: fmt.Sprintf("r%d", i), Kind: rapid.SampledFrom([]string{"KindA", "KindB"}).Draw(t, "kind"), Val: rapid.SampledFrom([]string{"x", "y", "z"}).Draw(t, "val")}
			r.Namespace = rapid.SampledFrom([]string{"", "", "ns-a", "ns-b"}).Draw(t, "namespace")
			if n > 1 && rapid.IntRange(0, 3).Draw(t, "staleann") == 0 {
				r.StaleAnn = fmt.Sprintf("r%d", (i+1+rapid.IntRange(0, n-2).Draw(t, "staleannof"))%n)
			}
			if sc.Pipeline {
				r.Step = rapid.IntRange(0, sc.Steps-1).Draw(t, "step")
				if i > 0 {
					r.When = cond(rapid.IntRange(0, 2).Draw(t, "when"))
					r.Other = fmt.Sprintf("r%d", rapid.IntRange(0, i-1).Draw(t, "other"))
				}
				if rapid.IntRange(0, 3).Draw(t, "fixed") == 0 {
					r.FixedName = fmt.Sprintf("fixed-%d", i)
					if r.Namespace != "" {
						// same name as a sibling's, in another namespace
						r.FixedName = "fixed-same"
						for _, o := range sc.Rules {
							if o.FixedName == r.FixedName && o.Kind == r.Kind && o.Namespace == r.Namespace {
								r.FixedName = fmt.Sprintf("fixed-%d", i)
							}
						}
					}
				}
				if rapid.Bool().Draw(t, "drops") {
					r.DropParam = fmt.Sprintf("p%d", rapid.IntRange(0, 2).Draw(t, "dropparam"))
				}
				if r.FixedName == "" && rapid.IntRange(0, 3).Draw(t, "nameparam") == 0 {
					r.NameParam = fmt.Sprintf("p%d", rapid.IntRange(0, 2).Draw(t, "nameparamof"))
				}
			} else {
				if rapid.Bool().Draw(t, "haspatch") {
					r.Param = fmt.Sprintf("p%d", rapid.IntRange(0, 2).Draw(t, "param"))
					r.Required = rapid.Bool().Draw(t, "required")
				}
				r.DropRev2 = i > 0 && rapid.IntRange(0, 2).Draw(t, "droprev2") == 0
			}
			sc.Rules = append(sc.Rules, r)
		}
		for i := 0; i < 3; i++ {
			if rapid.Bool().Draw(t, "paramset") {
				sc.Params[fmt.Sprintf("p%d", i)] = fmt.Sprintf("v%d", i)
			}
		}
		return sc
	})
}

func genEnvSteps(sc scenario) *rapid.Generator[[]envStep] {
	// Only steps that can matter for this scenario: readiness of its resources, the params its rules read
	// (patch sources and drop switches), and the template-dropping Composition edit.
	var menu []envStep
	seen := map[string]bool{}
	for _, r := range sc.Rules {
		menu = append(menu, envStep{Ready: r.Name})
		for _, p := range []string{r.Param, r.DropParam, r.NameParam} {
			if p != "" && !seen[p] {
				seen[p] = true
				menu = append(menu, envStep{Param: p}, envStep{Param: p})
				if p == r.Param && !sc.Pipeline {
					menu = append(menu, envStep{Unparam: p})
				}
			}
		}
		if r.DropRev2 && !seen["rev2"] {
			seen["rev2"] = true
			menu = append(menu, envStep{Rev2: true}, envStep{Rev2: true})
		}
	}
	return rapid.Custom(func(t *rapid.T) []envStep {
		var out []envStep
		n := rapid.IntRange(0, 3).Draw(t, "nenv")
		for i := 0; i < n; i++ {
			out = append(out, rapid.SampledFrom(menu).Draw(t, "envstep"))
		}
		return out
	})
}

// ---------------------------------------------------------------------------
// the scripted function: desired state is a deterministic function of observed state

func (sc scenario) runner() composite.FunctionRunner {
	return composite.FunctionRunnerFn(func(_ context.Context, name string, req *fnv1.RunFunctionRequest) (*fnv1.RunFunctionResponse, error) {
		var step int
		fmt.Sscanf(name, "fn-%d", &step)
		d := req.GetDesired()
		if d == nil {
			d = &fnv1.State{}
		}
		if d.Resources == nil {
			d.Resources = map[string]*fnv1.Resource{}
		}
		obs := req.GetObserved().GetResources()
		xrParams := req.GetObserved().GetComposite().GetResource().GetFields()["spec"].GetStructValue().GetFields()["params"].GetStructValue().GetFields()
		for _, r := range sc.Rules {
			if r.Step != step {
				continue
			}
			if _, dropped := xrParams[r.DropParam]; dropped && r.DropParam != "" {
				continue
			}
			o, exists := obs[r.Other]
			switch r.When {
			case whenExists:
				if !exists {
					continue
				}
			case whenReady:
				if !exists || !isReadyStruct(o.GetResource()) {
					continue
				}
			}
			md := map[string]any{}
			if r.FixedName != "" {
				md["name"] = r.FixedName
			}
			if r.Namespace != "" {
				md["namespace"] = r.Namespace
			}
			if r.StaleAnn != "" {
				md["annotations"] = map[string]any{annName: r.StaleAnn}
			}
			if _, named := xrParams[r.NameParam]; named && r.NameParam != "" {
				md["name"] = "named-" + r.Name
			}
			s, err := structpb.NewStruct(map[string]any{
				"apiVersion": "example.org/v1", "kind": r.Kind, "metadata": md,
				"spec": map[string]any{"forProvider": map[string]any{"v": r.Val}},
			})
			if err != nil {
				return nil, err
			}
			ready := fnv1.Ready_READY_FALSE
			if self, ok := obs[r.Name]; ok && isReadyStruct(self.GetResource()) {
				ready = fnv1.Ready_READY_TRUE
			}
			d.Resources[r.Name] = &fnv1.Resource{Resource: s, Ready: ready}
		}
		if sc.Conn == 2 && step == sc.Steps-1 {
			if d.Composite == nil {
				d.Composite = &fnv1.Resource{}
			}
			d.Composite.ConnectionDetails = map[string][]byte{"endpoint": []byte("example.org"), "user": []byte("admin")}
		}
		return &fnv1.RunFunctionResponse{Desired: d, Context: req.GetContext()}, nil
	})
}

func isReadyStruct(s *structpb.Struct) bool {
	st := s.GetFields()["status"].GetStructValue()
	return st.GetFields()["ready"].GetBoolValue()
}

func (sc scenario) composition() *v1.Composition { return sc.compositionRev(1) }

func (sc scenario) compositionRev(rev int) *v1.Composition {
	c := &v1.Composition{}
	c.SetName("comp")
	c.Spec.CompositeTypeRef = v1.TypeReference{APIVersion: "example.org/v1", Kind: "XThing"}
	if sc.Pipeline {
		c.Spec.Mode = ptr.To(v1.CompositionModePipeline)
		for i := 0; i < sc.Steps; i++ {
			c.Spec.Pipeline = append(c.Spec.Pipeline, v1.PipelineStep{Step: fmt.Sprintf("step-%d", i), FunctionRef: v1.FunctionReference{Name: fmt.Sprintf("fn-%d", i)}})
		}
		return c
	}
	c.Spec.Mode = ptr.To(v1.CompositionModeResources)
	for _, r := range sc.Rules {
		if rev >= 2 && r.DropRev2 {
			continue
		}
		bm := map[string]any{"apiVersion": "example.org/v1", "kind": r.Kind, "spec": map[string]any{"forProvider": map[string]any{"v": r.Val}}}
		md := map[string]any{}
		if r.Namespace != "" {
			md["namespace"] = r.Namespace
		}
		if r.StaleAnn != "" {
			md["annotations"] = map[string]any{annName: r.StaleAnn}
		}
		if len(md) > 0 {
			bm["metadata"] = md
		}
		base, _ := json.Marshal(bm)
		ct := v1.ComposedTemplate{Name: ptr.To(r.Name), Base: runtime.RawExtension{Raw: base}}
		if r.Param != "" {
			pol := v1.FromFieldPathPolicyOptional
			if r.Required {
				pol = v1.FromFieldPathPolicyRequired
			}
			ct.Patches = append(ct.Patches, v1.Patch{Type: v1.PatchTypeFromCompositeFieldPath, FromFieldPath: ptr.To("spec.params." + r.Param), ToFieldPath: ptr.To("spec.forProvider.p"), Policy: &v1.PatchPolicy{FromFieldPath: &pol}})
		}
		c.Spec.Resources = append(c.Spec.Resources, ct)
	}
	return c
}

var _ = extv1.JSON{}

// ---------------------------------------------------------------------------
// world: environment + invariants

type world struct {
	env   *verifenv.XREnv
	sc    scenario
	xrUID string
	// names ever created per desired resource name (I2)
	created map[string]map[string]bool
	rev2    bool
	rec     *verifkit.Recorder
	fail    func(format string, a ...any)
}

func newWorld(sc scenario, fail func(string, ...any)) *world {
	utilrand.Seed(sc.Seed)
	env := verifenv.NewXREnv()
	env.Runner = sc.runner()
	w := &world{env: env, sc: sc, created: map[string]map[string]bool{}, fail: fail}
	env.InstallComposition(sc.composition(), 1)
	xr := env.NewXR(xrName, "comp")
	params := map[string]any{}
	for k, v := range sc.Params {
		params[k] = v
	}
	_ = unstructured.SetNestedMap(xr.Object, params, "spec", "params")
	if sc.Conn > 0 {
		_ = unstructured.SetNestedMap(xr.Object, map[string]any{"name": "xr1-conn", "namespace": "secrets"}, "spec", "writeConnectionSecretToRef")
	}
	env.Sim.MustCreate("user", xr)
	w.xrUID = string(xr.GetUID())
	env.Sim.AddMonitor(w.monitor)
	return w
}

// monitor is evaluated at the instant of every write: I1 (no leak) and I2 (no duplicate).
func (w *world) monitor(v *verifsim.View, wr *verifsim.Write) {
	if wr.DryRun || !wr.Changed {
		return
	}
	if w.rec != nil && wr.Verb == "delete" && verifsim.Annotations(wr.Before)[annName] != "" {
		w.rec.Label("composed-resource-garbage-collected")
	}
	if wr.Before == nil && wr.After != nil && verifsim.ControllerUID(wr.After) == w.xrUID {
		if n := verifsim.Annotations(wr.After)[annName]; n != "" {
			if w.created[n] == nil {
				w.created[n] = map[string]bool{}
			}
			w.created[n][wr.Key.Kind+"/"+wr.Key.Namespace+"/"+wr.Key.Name] = true
			if len(w.created[n]) > 1 {
				v.Violate("I2 duplicate: desired resource %q has been created under more than one name: %v (write #%d by %s)", n, keys(w.created[n]), wr.Seq, wr.Actor)
			}
		}
	}
	xr := v.Get(w.env.XRKey(xrName))
	if xr == nil {
		return
	}
	refs := map[string]bool{}
	if l, ok := verifsim.Nested(xr, "spec", "resourceRefs").([]any); ok {
		for _, e := range l {
			if m, ok := e.(map[string]any); ok {
				ns, _ := m["namespace"].(string)
				refs[fmt.Sprint(m["kind"])+"/"+ns+"/"+fmt.Sprint(m["name"])] = true
			}
		}
	}
	for _, k := range v.All() {
		o := v.Get(k)
		if verifsim.ControllerUID(o) != w.xrUID || verifsim.Annotations(o)[annName] == "" {
			continue
		}
		if !refs[k.Kind+"/"+k.Namespace+"/"+k.Name] {
			v.Violate("I1 leak: live composed resource %s (resource name %q) is controlled by the XR but not listed in its stored spec.resourceRefs %v (after write #%d %s %s by %s)", k, verifsim.Annotations(o)[annName], keys(refs), wr.Seq, wr.Verb, wr.Key, wr.Actor)
		}
	}
}

func keys(m map[string]bool) []string {
	out := make([]string, 0, len(m))
	for k := range m {
		out = append(out, k)
	}
	sort.Strings(out)
	return out
}

func (w *world) check(ctx string) {
	if v := w.env.Sim.TakeViolations(); len(v) > 0 {
		w.fail("%s: %s", ctx, strings.Join(v, "\n"))
	}
}

// reconcile runs one XR reconcile with the given fault plan and returns the run.
func (w *world) reconcile(plan map[int]verifsim.Fault) (*verifsim.Run, error) {
	return w.reconcileLag(plan, false)
}

// reconcileLag runs one reconcile; with lag, the controller's CACHED client has not yet seen composed
// resources that were only just created (written once) while everything else is read as it is now - showing
// an older STATUS would make the generated functions stop desiring a resource, whose deletion and later
// re-creation under a new name is legitimate and outside the property's quantifier. The uncached client and all writes hit the live store - the informer lag the composers' "try again without the
// cache" fallback exists for.
func (w *world) reconcileLag(plan map[int]verifsim.Fault, lag bool) (*verifsim.Run, error) {
	run := w.env.Sim.NewRun("xr-controller", plan)
	if !lag {
		_, err := w.env.Reconcile(run, xrName)
		return run, err
	}
	cached := run.StaleClient(func(k verifsim.Key) int {
		if strings.HasPrefix(k.Kind, "Kind") {
			return verifsim.LagHideNew
		}
		return 0
	})
	_, err := w.env.ReconcileWith(cached, run.Client(), xrName)
	return run, err
}

func (w *world) apply(st envStep) {
	c := w.env.Sim.Client("env")
	ctx := context.Background()
	switch {
	case st.Ready != "":
		for _, k := range w.env.Sim.AllKeys() {
			o := w.env.Sim.Get(k)
			if verifsim.Annotations(o)[annName] != st.Ready || verifsim.ControllerUID(o) != w.xrUID {
				continue
			}
			u := verifsim.U(o)
			_ = unstructured.SetNestedField(u.Object, true, "status", "ready")
			_ = unstructured.SetNestedSlice(u.Object, []any{map[string]any{"type": "Ready", "status": "True", "reason": "Available", "lastTransitionTime": "2024-01-01T00:00:00Z"}}, "status", "conditions")
			_ = c.Status().Update(ctx, u)
		}
	case st.Rev2:
		differs := false
		for _, r := range w.sc.Rules {
			differs = differs || r.DropRev2
		}
		if !w.sc.Pipeline && !w.rev2 && differs {
			w.rev2 = true
			w.env.InstallComposition(w.sc.compositionRev(2), 2)
		}
	case st.Unparam != "":
		xr := verifenv.NewUnstructuredXR(w.env.XRGVK, xrName)
		if err := c.Get(ctx, types.NamespacedName{Name: xrName}, xr); err != nil {
			return
		}
		unstructured.RemoveNestedField(xr.Object, "spec", "params", st.Unparam)
		_ = c.Update(ctx, xr)
		if w.rec != nil {
			w.rec.Label("env:patch-source-removed-again")
		}
	case st.Param != "":
		xr := verifenv.NewUnstructuredXR(w.env.XRGVK, xrName)
		if err := c.Get(ctx, types.NamespacedName{Name: xrName}, xr); err != nil {
			return
		}
		_ = unstructured.SetNestedField(xr.Object, "v-"+st.Param, "spec", "params", st.Param)
		_ = c.Update(ctx, xr)
	}
}

// quiesce runs fault-free reconciles until one changes nothing, then checks
// that three more also change nothing (I3).
func (w *world) quiesce(ctx string) { w.quiesceN(ctx, 3) }

func (w *world) quiesceN(ctx string, steady int) {
	limit := len(w.sc.Rules)*2 + 6
	for i := 0; ; i++ {
		before := w.env.Sim.Digest()
		_, err := w.reconcile(nil)
		w.check(ctx + fmt.Sprintf(" / follow-up reconcile %d", i))
		if w.env.Sim.Digest() == before {
			if err != nil {
				// A reconcile that fails without changing anything is stuck, not quiescent;
				// with all faults gone that must not happen in these scenarios.
				w.fail("%s: fault-free reconcile %d fails permanently and changes nothing: %v", ctx, i, err)
			}
			break
		}
		if i >= limit {
			if !w.xrSynced() {
				// The property conditions quiescence on "the composed state matches the desired state". An XR that
				// is not Synced=True (e.g. a Required patch whose source never appears: a fresh name is generated
				// for the unrendered resource on every reconcile) has not reached that state; I3 does not apply.
				return
			}
			w.fail("%s: I3 does not quiesce: XR is Synced=True but objects still change after %d fault-free reconciles", ctx, i+1)
		}
	}
	if !w.xrSynced() {
		// "Once the composed state matches the desired state ...": an XR that is not Synced=True has resources
		// that were not rendered or applied (e.g. a Required patch whose source is missing gets a fresh generated
		// name recorded for it on every reconcile); the steady-state clause does not apply to it.
		return
	}
	for j := 0; j < steady; j++ {
		before := w.env.Sim.Digest()
		_, _ = w.reconcile(nil)
		w.check(ctx + " / steady-state reconcile")
		if after := w.env.Sim.Digest(); after != before {
			w.fail("%s: I3 steady state is not quiet: reconcile %d after quiescence changed the store:\n%s", ctx, j+1, diffDigest(before, after))
		}
	}
}

func (w *world) xrSynced() bool {
	xr := w.env.Sim.Get(w.env.XRKey(xrName))
	l, _ := verifsim.Nested(xr, "status", "conditions").([]any)
	for _, e := range l {
		if m, ok := e.(map[string]any); ok && m["type"] == "Synced" {
			return m["status"] == "True"
		}
	}
	return false
}

func diffDigest(a, b string) string {
	am := map[string]string{}
	for _, l := range strings.Split(a, "\n") {
		if i := strings.IndexByte(l, '='); i > 0 {
			am[l[:i]] = l[i+1:]
		}
	}
	var sb strings.Builder
	for _, l := range strings.Split(b, "\n") {
		if i := strings.IndexByte(l, '='); i > 0 {
			if am[l[:i]] != l[i+1:] {
				fmt.Fprintf(&sb, "  %s:\n", l[:i])
				var a, b any
				_ = json.Unmarshal([]byte(am[l[:i]]), &a)
				_ = json.Unmarshal([]byte(l[i+1:]), &b)
				jsonDiff(&sb, "", a, b)
			}
			delete(am, l[:i])
		}
	}
	for k := range am {
		fmt.Fprintf(&sb, "  %s removed\n", k)
	}
	return sb.String()
}

// jsonDiff lists the paths at which two JSON values differ.
func jsonDiff(sb *strings.Builder, path string, a, b any) {
	am, aok := a.(map[string]any)
	bm, bok := b.(map[string]any)
	if aok && bok {
		ks := map[string]bool{}
		for k := range am {
			ks[k] = true
		}
		for k := range bm {
			ks[k] = true
		}
		for _, k := range keys(ks) {
			jsonDiff(sb, path+"."+k, am[k], bm[k])
		}
		return
	}
	ab, _ := json.Marshal(a)
	bb, _ := json.Marshal(b)
	if string(ab) != string(bb) {
		fmt.Fprintf(sb, "    %s: %s -> %s\n", path, ab, bb)
	}
}

var faultKinds = []verifsim.Fault{
	{Kind: verifsim.ErrBefore, Err: "conflict"},
	{Kind: verifsim.ErrBefore, Err: "server"},
	{Kind: verifsim.ErrAfter, Err: "timeout"},
	{Kind: verifsim.CrashBefore},
	{Kind: verifsim.CrashAfter},
}

// sweep injects every fault kind at every API call index of the next reconcile.
func (w *world) sweep(rec *verifkit.Recorder, stage string) {
	base := w.env.Sim.Snapshot()
	baseCreated := copyCreated(w.created)
	utilrandState := w.sc.Seed + int64(len(stage))
	utilrand.Seed(utilrandState)
	lag := w.sc.CacheLag
	probe, _ := w.reconcileLag(nil, lag)
	w.check(stage + " / fault-free probe")
	K := probe.N
	first := probe.FirstWrite
	rec.AddExtra("sweep_api_calls", K)
	if lag {
		rec.Label("sweep:cache-lag")
	}
	for k := 0; k < K; k++ {
		for _, f := range faultKinds {
			w.env.Sim.Restore(base)
			w.created = copyCreated(baseCreated)
			utilrand.Seed(utilrandState)
			ctx := fmt.Sprintf("%s / fault %s(%s) at API call %d of %d [%s] (cache lag %v)", stage, f.Kind, f.Err, k, K, callName(probe, k), lag)
			_, _ = w.reconcileLag(map[int]verifsim.Fault{k: f}, lag)
			w.check(ctx)
			w.quiesceN(ctx, 1)
			rec.AddExtra("fault_runs", 1)
			if first >= 0 && k >= first && len(w.sc.Rules) >= 2 {
				rec.NonTrivial(fmt.Sprintf("%s|%s|%d|%v", verifkit.JSON(w.sc), stage, k, f), func() any {
					return map[string]any{"scenario": w.sc, "stage": stage, "fault": f.Kind.String(), "err": f.Err, "call_index": k, "call": callName(probe, k), "calls_in_reconcile": K}
				})
			}
		}
	}
	w.env.Sim.Restore(base)
	w.created = copyCreated(baseCreated)
	utilrand.Seed(utilrandState)
}

func callName(r *verifsim.Run, k int) string {
	if k < len(r.Calls) {
		return r.Calls[k]
	}
	return "?"
}

func copyCreated(m map[string]map[string]bool) map[string]map[string]bool {
	out := map[string]map[string]bool{}
	for k, v := range m {
		out[k] = map[string]bool{}
		for k2 := range v {
			out[k][k2] = true
		}
	}
	return out
}

// ---------------------------------------------------------------------------
// properties

// TestVerifC01Sweep: for a generated scenario, at each stage of a generated
// history, inject every fault at every API call index, then reconcile to quiescence.
func TestVerifC01Sweep(t *testing.T) {
	rec := verifkit.New(t, "C01", "scenario = XR + Composition (pipeline of scripted functions or named P&T templates) + environment steps; for each stage every API call index x {conflict, 500, lost reply, crash-before, crash-after} is injected, then fault-free reconciles to quiescence; non-trivial = >=2 desired resources and the fault hits at or after the first write of the reconcile")
	rapid.Check(t, func(t *rapid.T) {
		sc := genScenario().Draw(t, "scenario")
		stages := rapid.IntRange(1, 2).Draw(t, "stages")
		var envs [][]envStep
		for i := 0; i < stages; i++ {
			envs = append(envs, genEnvSteps(sc).Draw(t, "env"))
		}
		rec.Eval()
		rec.Labelf("pipeline=%v", sc.Pipeline)
		rec.Labelf("rules=%d", len(sc.Rules))
		rec.Labelf("conn=%d", sc.Conn)
		w := newWorld(sc, func(f string, a ...any) { t.Fatalf(f, a...) })
		w.rec = rec
		w.sweep(rec, "stage 0 (fresh XR)")
		for i, env := range envs {
			_, _ = w.reconcile(nil)
			_, _ = w.reconcile(nil)
			w.check("setup reconcile")
			for _, st := range env {
				w.apply(st)
			}
			w.sweep(rec, fmt.Sprintf("stage %d (after env %s)", i+1, verifkit.JSON(env)))
		}
		_, _ = w.reconcile(nil)
		w.quiesce("final")
	})
}

// TestVerifC01Histories: random multi-fault histories interleaved with environment steps.
func TestVerifC01Histories(t *testing.T) {
	rec := verifkit.New(t, "C01", "random histories: reconciles each with 0-2 random faults, interleaved with provider/user steps, then quiescence; non-trivial as above")
	rapid.Check(t, func(t *rapid.T) {
		sc := genScenario().Draw(t, "scenario")
		rec.Eval()
		w := newWorld(sc, func(f string, a ...any) { t.Fatalf(f, a...) })
		n := rapid.IntRange(1, 8).Draw(t, "nsteps")
		faulted := false
		var hist []string
		for i := 0; i < n; i++ {
			if rapid.IntRange(0, 2).Draw(t, "isenv") == 0 {
				for _, st := range genEnvSteps(sc).Draw(t, "env") {
					w.apply(st)
					hist = append(hist, verifkit.JSON(st))
				}
				continue
			}
			plan := map[int]verifsim.Fault{}
			for j := 0; j < rapid.IntRange(0, 2).Draw(t, "nfaults"); j++ {
				k := rapid.IntRange(0, 45).Draw(t, "k")
				plan[k] = rapid.SampledFrom(faultKinds).Draw(t, "fault")
			}
			lagged := sc.CacheLag && rapid.Bool().Draw(t, "lagged")
			run, _ := w.reconcileLag(plan, lagged)
			for k := range plan {
				if run.FirstWrite >= 0 && k >= run.FirstWrite && k < run.N {
					faulted = true
				}
			}
			hist = append(hist, fmt.Sprintf("reconcile%v lag=%v", plan, lagged))
			w.check(fmt.Sprintf("history step %d (plan %v)", i, plan))
		}
		w.quiesce("end of history " + strings.Join(hist, ";"))
		if faulted && len(sc.Rules) >= 2 {
			rec.NonTrivial(verifkit.JSON(sc)+strings.Join(hist, ";"), func() any { return map[string]any{"scenario": sc, "history": hist} })
		}
	})
}

// TestVerifC01Pinned: shrunk failures found by this check, replayed without rapid.
func TestVerifC01Pinned(t *testing.T) {
	rec := verifkit.New(t, "C01", "pinned regression scenarios")
	// refs-order-ignores-namespace (fixed by 369fba9): two desired resources of one kind and name in different
	// namespaces compared equal in UpdateResourceRefs' sort, so spec.resourceRefs was rewritten in map order.
	sc := scenario{Pipeline: true, Steps: 1, Seed: 7, Params: map[string]string{}, Rules: []rule{
		{Name: "r0", Kind: "KindA", Val: "x", FixedName: "fixed-same", Namespace: "ns-a"},
		{Name: "r1", Kind: "KindA", Val: "y", FixedName: "fixed-same", Namespace: "ns-b"},
		{Name: "r2", Kind: "KindA", Val: "z", FixedName: "fixed-same", Namespace: "ns-c"},
	}}
	rec.Eval()
	w := newWorld(sc, func(f string, a ...any) { t.Fatalf("refs-order-ignores-namespace: "+f, a...) })
	w.quiesceN("pinned", 24)
	if !w.xrSynced() {
		t.Fatalf("refs-order-ignores-namespace: the XR never became Synced, the row is vacuous")
	}
	rec.NonTrivial("refs-order-ignores-namespace", func() any { return sc })
}

// TestVerifC01SimSanity guards against a vacuously quiet harness: the scenario really composes resources.
func TestVerifC01SimSanity(t *testing.T) {
	sc := scenario{Pipeline: true, Steps: 1, Rules: []rule{{Name: "r0", Kind: "KindA", Val: "x"}, {Name: "r1", Kind: "KindB", Val: "y", When: whenExists, Other: "r0"}}, Seed: 7, Params: map[string]string{}}
	for _, pipeline := range []bool{true, false} {
		sc.Pipeline = pipeline
		w := newWorld(sc, func(f string, a ...any) { t.Fatalf(f, a...) })
		for i := 0; i < 3; i++ {
			if _, err := w.reconcile(nil); err != nil {
				t.Fatalf("pipeline=%v reconcile %d: %v", pipeline, i, err)
			}
		}
		n := 0
		for _, k := range w.env.Sim.AllKeys() {
			if strings.HasPrefix(k.Kind, "Kind") {
				n++
			}
		}
		if n != 2 {
			t.Fatalf("pipeline=%v: expected 2 composed resources, store has %v", pipeline, w.env.Sim.AllKeys())
		}
		xr := w.env.Sim.Get(w.env.XRKey(xrName))
		if l, _ := verifsim.Nested(xr, "spec", "resourceRefs").([]any); len(l) != 2 {
			t.Fatalf("pipeline=%v: XR refs %v", pipeline, l)
		}
	}
	_ = corev1.Secret{}
	_ = metav1.ObjectMeta{}
}
