//go:build verif

// Package c09 decides property C09: connection details reach only their
// owner's secret, filtered, from the right XR; a claim's secret is an exact copy
// of its bound XR's secret and is made only if the XR controls that secret;
// identical data is never rewritten.
//
// The real XR reconciler (wired like definition.CompositeReconcilerOptions, with
// the XRD's connectionSecretKeys filter) and the real claim reconciler (wired
// like offered.Reconciler, with either composite syncer and the default
// APIConnectionPropagator) run against the simulated API server. Every oracle is
// evaluated over the server's write log of exactly one reconcile.
package c09

import (
	"bytes"
	"context"
	"encoding/base64"
	"encoding/json"
	"fmt"
	"sort"
	"strings"
	"testing"

	corev1 "k8s.io/api/core/v1"
	metav1 "k8s.io/apimachinery/pkg/apis/meta/v1"
	"k8s.io/apimachinery/pkg/apis/meta/v1/unstructured"
	"k8s.io/apimachinery/pkg/runtime"
	"k8s.io/apimachinery/pkg/types"
	utilrand "k8s.io/apimachinery/pkg/util/rand"
	"k8s.io/utils/ptr"
	"pgregory.net/rapid"
	"sigs.k8s.io/controller-runtime/pkg/reconcile"

	"google.golang.org/protobuf/types/known/structpb"

	xpv1 "github.com/crossplane/crossplane-runtime/apis/common/v1"
	"github.com/crossplane/crossplane-runtime/pkg/resource"
	ucomposite "github.com/crossplane/crossplane-runtime/pkg/resource/unstructured/composite"

	fnv1 "github.com/crossplane/crossplane/apis/apiextensions/fn/proto/v1"
	v1 "github.com/crossplane/crossplane/apis/apiextensions/v1"
	"github.com/crossplane/crossplane/internal/controller/apiextensions/claim"
	"github.com/crossplane/crossplane/internal/controller/apiextensions/composite"
	"github.com/crossplane/crossplane/internal/names"
	"github.com/crossplane/crossplane/internal/verifenv"
	"github.com/crossplane/crossplane/internal/verifkit"
	"github.com/crossplane/crossplane/internal/verifsim"
)

const (
	annName  = "crossplane.io/composition-resource-name"
	provNS   = "prov" // namespace of the composed resources' own connection secrets
	xrNS     = "xrns" // namespace of the XRs' connection secrets
	claimNS  = "team" // namespace of the claim and its connection secret
	connType = "connection.crossplane.io/v1alpha1"

	actorXR    = "xr-controller"
	actorClaim = "claim-controller"

	claimName   = "c1"
	claimSecret = "c1-conn"
)

var (
	keyAlphabet = []string{"a", "b", "c", "d"}
	valAlphabet = [][]byte{{}, []byte("v1"), []byte("v2"), []byte("s3cr3t"), {0x00, 0xff}}
)

// ---------------------------------------------------------------------------
// scenario model

type secState int

const (
	stAbsent      secState = iota
	stUnctlConn            // no controller reference, type connection.crossplane.io/v1alpha1
	stUnctlOpaque          // no controller reference, type Opaque
	stOwned                // controlled by the owner in question (XR or claim)
	stOther                // controlled by another UID
)

func (s secState) String() string {
	return [...]string{"absent", "uncontrolled-connection", "uncontrolled-opaque", "owned", "other-controller"}[s]
}

// secretSpec describes a secret somebody other than Crossplane put in place.
type secretSpec struct {
	State secState          `json:"state"`
	Data  map[string][]byte `json:"data,omitempty"`
	// Rel (claim destination only): "" = Data as given, "copy" = the source secret's current data,
	// "super" = the source's data plus Data.
	Rel string `json:"rel,omitempty"`
}

type srcKind int

const (
	srcFixed  srcKind = iota // a constant
	srcTagged                // derived from this XR's name and spec.params.tag
	srcEcho                  // the observed connection detail FromKey of composed resource Res
	srcEchoAll               // every observed connection detail of composed resource Res (as function-patch-and-transform style functions do)
)

// fnDetail is one composite connection detail a scripted function step emits.
type fnDetail struct {
	Key     string  `json:"key"`
	Kind    srcKind `json:"kind"`
	Val     []byte  `json:"val,omitempty"`
	Res     string  `json:"res,omitempty"`
	FromKey string  `json:"fromKey,omitempty"`
	Step    int     `json:"step"`
}

// ptDetail is one connectionDetails entry of a P&T template.
type ptDetail struct {
	Type    string  `json:"type,omitempty"` // "" = inferred
	Name    *string `json:"name,omitempty"`
	FromKey *string `json:"fromKey,omitempty"`
	Path    *string `json:"path,omitempty"`
	Value   *string `json:"value,omitempty"`
}

type resSpec struct {
	Name      string     `json:"name"`
	Kind      string     `json:"kind"`
	SecretRef bool       `json:"secretRef"` // composed resource has its own writeConnectionSecretToRef
	// NS is the composed resource's own metadata.namespace ("" = cluster scoped). RefNS is the namespace its
	// spec.writeConnectionSecretToRef names ("" = provNS); it may equal NS or be ANOTHER namespace.
	NS    string `json:"ns,omitempty"`
	RefNS string `json:"refNS,omitempty"`
	// Decoy, if non-nil, is the data of a foreign-owned secret that has the same NAME as the referenced
	// connection secret but sits in the composed resource's own namespace (only when NS != "" and NS != RefNS).
	Decoy map[string][]byte `json:"decoy,omitempty"`
	Details   []ptDetail `json:"details,omitempty"`
}

type xrSpec struct {
	Name   string     `json:"name"`
	Tag    string     `json:"tag"`
	HasRef bool       `json:"hasRef"`
	Secret string     `json:"secret,omitempty"`
	Pre    secretSpec `json:"pre"`
}

type claimSpec struct {
	HasRef bool       `json:"hasRef"`
	// BoundElsewhere: the XR the claim points at is bound to another claim.
	BoundElsewhere bool `json:"boundElsewhere,omitempty"`
	SSA    bool       `json:"ssa"`
	Pre    secretSpec `json:"pre"`
}

type scenario struct {
	Pipeline  bool       `json:"pipeline"`
	Steps     int        `json:"steps"`
	// CompNS: the Composition sets writeConnectionSecretsToNamespace, so an XR without a secret
	// reference is given one (named after its UID) by the reconciler's configurator.
	CompNS bool `json:"compNS,omitempty"`
	Filter    []string   `json:"filter"`
	Res       []resSpec  `json:"res"`
	FnDetails []fnDetail `json:"fnDetails,omitempty"`
	XRs       []xrSpec   `json:"xrs"`
	Claim     *claimSpec `json:"claim,omitempty"`
	Seed      int64      `json:"seed"`
}

// step is one event of a history.
type step struct {
	Op   string            `json:"op"` // reconcile | claim | provSecret | provStatus | tag | tamper | tamperClaim | ready
	XR   int               `json:"xr,omitempty"`
	Res  int               `json:"res,omitempty"`
	Data map[string][]byte `json:"data,omitempty"`
	Str  string            `json:"str,omitempty"`
	Sec  *secretSpec       `json:"sec,omitempty"`
	// Lag (reconcile, pipeline mode only): the reconciler's cached client lags behind for composed kinds - an
	// object written exactly once is not in the cache yet - while its uncached client reads the live store.
	Lag bool `json:"lag,omitempty"`
}

// foreign values never coincide with a value of this XR's own secrets, the scripted functions or the decoys.
var foreignAlphabet = [][]byte{[]byte("FOREIGN-1"), []byte("FOREIGN-2")}

func genForeignData() *rapid.Generator[map[string][]byte] {
	return rapid.Custom(func(t *rapid.T) map[string][]byte {
		out := map[string][]byte{}
		for _, k := range keyAlphabet {
			if rapid.IntRange(0, 3).Draw(t, "foreign-has-"+k) != 0 {
				out[k] = rapid.SampledFrom(foreignAlphabet).Draw(t, "foreign-val-"+k)
			}
		}
		return out
	})
}

func genData(label string) *rapid.Generator[map[string][]byte] {
	return rapid.Custom(func(t *rapid.T) map[string][]byte {
		out := map[string][]byte{}
		for _, k := range keyAlphabet {
			if rapid.Bool().Draw(t, label+"-has-"+k) {
				out[k] = rapid.SampledFrom(valAlphabet).Draw(t, label+"-val-"+k)
			}
		}
		return out
	})
}

func genSecretSpec(label string) *rapid.Generator[secretSpec] {
	return rapid.Custom(func(t *rapid.T) secretSpec {
		s := secretSpec{State: secState(rapid.IntRange(0, 4).Draw(t, label+"-state"))}
		if s.State != stAbsent {
			s.Data = genData(label).Draw(t, label+"-data")
		}
		return s
	})
}

// decoy values never coincide with a value of the referenced secrets, the scripted functions or the templates.
var decoyAlphabet = [][]byte{[]byte("DECOY-1"), []byte("DECOY-2"), {}}

func genDecoyData(label string) *rapid.Generator[map[string][]byte] {
	return rapid.Custom(func(t *rapid.T) map[string][]byte {
		out := map[string][]byte{}
		for _, k := range keyAlphabet {
			if rapid.IntRange(0, 3).Draw(t, label+"-has-"+k) != 0 {
				out[k] = rapid.SampledFrom(decoyAlphabet).Draw(t, label+"-val-"+k)
			}
		}
		return out
	})
}

func (r resSpec) refNS() string {
	if r.RefNS == "" {
		return provNS
	}
	return r.RefNS
}

// crossNS: a namespaced composed resource whose connection secret reference names another namespace.
func (r resSpec) crossNS() bool { return r.SecretRef && r.NS != "" && r.NS != r.refNS() }

func genFilter() *rapid.Generator[[]string] {
	return rapid.Custom(func(t *rapid.T) []string {
		if rapid.IntRange(0, 3).Draw(t, "filter-empty") == 0 {
			return nil
		}
		var out []string
		for _, k := range append(append([]string{}, keyAlphabet...), "zz") { // "zz" is never produced
			if rapid.Bool().Draw(t, "filter-"+k) {
				out = append(out, k)
			}
		}
		if len(out) == 0 {
			out = []string{rapid.SampledFrom(keyAlphabet).Draw(t, "filter-one")}
		}
		return out
	})
}

var ptPaths = []string{"spec.forProvider.v", "status.atProvider.host", "status.atProvider.port", "status.atProvider", "status.nope", "metadata.name"}

func genPTDetail() *rapid.Generator[ptDetail] {
	return rapid.Custom(func(t *rapid.T) ptDetail {
		d := ptDetail{}
		key := rapid.SampledFrom(keyAlphabet).Draw(t, "d-name")
		explicit := rapid.Bool().Draw(t, "d-explicit-type")
		switch rapid.IntRange(0, 9).Draw(t, "d-kind") {
		case 0, 1, 2, 3: // from the composed resource's connection secret
			d.FromKey = ptr.To(rapid.SampledFrom(keyAlphabet).Draw(t, "d-fromkey"))
			if rapid.Bool().Draw(t, "d-rename") {
				d.Name = ptr.To(key)
			}
			if explicit {
				d.Type = string(v1.ConnectionDetailTypeFromConnectionSecretKey)
			}
		case 4, 5, 6: // from a field path of the composed resource
			d.Path = ptr.To(rapid.SampledFrom(ptPaths).Draw(t, "d-path"))
			d.Name = ptr.To(key)
			if explicit {
				d.Type = string(v1.ConnectionDetailTypeFromFieldPath)
			}
		case 7, 8: // fixed value
			d.Value = ptr.To(rapid.SampledFrom([]string{"", "5432", "fixed"}).Draw(t, "d-value"))
			d.Name = ptr.To(key)
			if explicit {
				d.Type = string(v1.ConnectionDetailTypeFromValue)
			}
		default: // malformed entries the CRD schema admits (nothing but "type" is validated)
			switch rapid.IntRange(0, 3).Draw(t, "d-broken") {
			case 0: // field path without a name
				d.Path = ptr.To("spec.forProvider.v")
			case 1: // explicit type whose source field is missing
				d.Type = string(v1.ConnectionDetailTypeFromValue)
				d.Name = ptr.To(key)
			case 2:
				d.Type = string(v1.ConnectionDetailTypeFromFieldPath)
				d.Name = ptr.To(key)
				d.Value = ptr.To("ignored")
			default: // nothing at all
			}
		}
		return d
	})
}

func genScenario(withClaim bool) *rapid.Generator[scenario] {
	return rapid.Custom(func(t *rapid.T) scenario {
		sc := scenario{Pipeline: rapid.Bool().Draw(t, "pipeline"), Steps: 1, Seed: rapid.Int64Range(1, 1<<40).Draw(t, "nameseed")}
		sc.Filter = genFilter().Draw(t, "filter")
		sc.CompNS = rapid.IntRange(0, 2).Draw(t, "comp-ns") == 0
		nres := rapid.IntRange(1, 2).Draw(t, "nres")
		for i := 0; i < nres; i++ {
			r := resSpec{Name: fmt.Sprintf("r%d", i), Kind: []string{"KindA", "KindB"}[i], SecretRef: rapid.IntRange(0, 4).Draw(t, "secretref") != 0}
			r.NS = rapid.SampledFrom([]string{"", "ns-a", "ns-a", "ns-b"}).Draw(t, "res-ns")
			r.RefNS = rapid.SampledFrom([]string{"", "ns-a", "ns-b", "ns-b"}).Draw(t, "res-refns")
			if r.crossNS() && rapid.Bool().Draw(t, "decoy-pre") {
				r.Decoy = genDecoyData("decoy").Draw(t, "decoy-data")
			}
			if !sc.Pipeline {
				nd := rapid.IntRange(0, 3).Draw(t, "ndetails")
				for j := 0; j < nd; j++ {
					r.Details = append(r.Details, genPTDetail().Draw(t, "detail"))
				}
			}
			sc.Res = append(sc.Res, r)
		}
		if sc.Pipeline {
			sc.Steps = rapid.IntRange(1, 2).Draw(t, "nsteps")
			nd := rapid.IntRange(0, 5).Draw(t, "nfndetails")
			for j := 0; j < nd; j++ {
				d := fnDetail{Key: rapid.SampledFrom(keyAlphabet).Draw(t, "fd-key"), Kind: srcKind(rapid.IntRange(0, 3).Draw(t, "fd-kind")), Step: rapid.IntRange(0, sc.Steps-1).Draw(t, "fd-step")}
				switch d.Kind {
				case srcFixed:
					d.Val = rapid.SampledFrom(valAlphabet).Draw(t, "fd-val")
				case srcEcho:
					d.Res = sc.Res[rapid.IntRange(0, nres-1).Draw(t, "fd-res")].Name
					d.FromKey = rapid.SampledFrom(keyAlphabet).Draw(t, "fd-fromkey")
				case srcEchoAll:
					d.Res = sc.Res[rapid.IntRange(0, nres-1).Draw(t, "fd-res")].Name
				}
				sc.FnDetails = append(sc.FnDetails, d)
			}
		}
		nxr := 1
		if !withClaim {
			nxr = rapid.IntRange(1, 2).Draw(t, "nxr")
		}
		for i := 0; i < nxr; i++ {
			x := xrSpec{Name: fmt.Sprintf("xr%d", i+1), Tag: rapid.SampledFrom([]string{"t1", "t2"}).Draw(t, "tag"), HasRef: rapid.IntRange(0, 5).Draw(t, "hasref") != 0}
			x.Secret = x.Name + "-conn"
			if i == 1 && rapid.IntRange(0, 3).Draw(t, "shared-secret") == 0 {
				x.Secret = sc.XRs[0].Secret // both XRs ask for the same secret
			}
			x.Pre = genSecretSpec("pre").Draw(t, "pre")
			sc.XRs = append(sc.XRs, x)
		}
		if withClaim {
			sc.Claim = &claimSpec{HasRef: rapid.IntRange(0, 7).Draw(t, "claim-hasref") != 0, BoundElsewhere: rapid.IntRange(0, 9).Draw(t, "claim-bound-elsewhere") == 0, SSA: rapid.Bool().Draw(t, "claim-ssa"), Pre: genSecretSpec("cpre").Draw(t, "cpre")}
		}
		return sc
	})
}

func genHistory(sc scenario) *rapid.Generator[[]step] {
	return rapid.Custom(func(t *rapid.T) []step {
		n := rapid.IntRange(2, 10).Draw(t, "nsteps")
		if sc.Claim != nil {
			n = rapid.IntRange(3, 12).Draw(t, "nsteps-claim")
		}
		var out []step
		for i := 0; i < n; i++ {
			st := step{XR: rapid.IntRange(0, len(sc.XRs)-1).Draw(t, "xr")}
			hi := 9
			if sc.Claim != nil {
				hi = 15
			}
			lo := -1
			if sc.Pipeline {
				lo = -3
			}
			c := rapid.IntRange(lo, hi).Draw(t, "op")
			switch {
			case c <= -2:
				// A user edits this XR's spec.resourceRefs to name a composed resource that ANOTHER XR controls
				// (created by a single write, so a lagging cache does not hold it yet); the XR is reconciled next,
				// because the reconciler rewrites the references.
				out = append(out, step{Op: "foreignRef", XR: st.XR, Res: rapid.IntRange(0, len(sc.Res)-1).Draw(t, "res"), Data: genForeignData().Draw(t, "foreign-data")})
				st.Op = "reconcile"
				st.Lag = rapid.IntRange(0, 3).Draw(t, "foreign-lag") != 0
			case c == -1:
				// Somebody else puts (or removes) a same-named secret next to a namespaced composed resource.
				st.Op = "decoy"
				st.Res = rapid.IntRange(0, len(sc.Res)-1).Draw(t, "res")
				if rapid.IntRange(0, 3).Draw(t, "decoy-present") != 0 {
					st.Data = genDecoyData("decoy").Draw(t, "decoy-data")
				}
			case c <= 3:
				st.Op = "reconcile"
				st.Lag = sc.Pipeline && rapid.IntRange(0, 3).Draw(t, "lag") == 0
			case c == 4 || c == 5:
				st.Op = "provSecret"
				st.Res = rapid.IntRange(0, len(sc.Res)-1).Draw(t, "res")
				st.Data = genData("prov").Draw(t, "provdata")
			case c == 6:
				st.Op = "provStatus"
				st.Res = rapid.IntRange(0, len(sc.Res)-1).Draw(t, "res")
				st.Str = rapid.SampledFrom([]string{"h1", "h2"}).Draw(t, "host")
			case c == 7:
				st.Op = "tag"
				st.Str = rapid.SampledFrom([]string{"t1", "t2", "t3"}).Draw(t, "newtag")
			case c == 8 || c == 9:
				st.Op = "tamper"
				s := genSecretSpec("tamper").Draw(t, "tamper")
				st.Sec = &s
			case c <= 12:
				if rapid.IntRange(0, 2).Draw(t, "ready-first") != 0 {
					out = append(out, step{Op: "ready", XR: st.XR})
				}
				st.Op = "claim"
			case c == 13:
				st.Op = "ready"
			default:
				st.Op = "tamperClaim"
				s := genSecretSpec("ctamper").Draw(t, "ctamper")
				s.Rel = rapid.SampledFrom([]string{"", "", "copy", "super"}).Draw(t, "crel")
				st.Sec = &s
			}
			out = append(out, st)
		}
		return out
	})
}

// ---------------------------------------------------------------------------
// world

type world struct {
	env  *verifenv.XREnv
	sc   scenario
	implicit map[string]bool // XRs whose secret reference comes from the Composition
	tags map[string]string // current spec.params.tag per XR
	uids map[string]string // XR name -> UID
	fail func(format string, a ...any)

	claimUID string

	// what the scripted pipeline returned for each XR in the current reconcile
	produced     map[string]map[string][]byte
	producedStep map[string]int
	fnFindings   []string
}

func secretKey(ns, name string) verifsim.Key {
	return verifsim.Key{Group: "", Kind: "Secret", Namespace: ns, Name: name}
}

func newWorld(sc scenario, fail func(string, ...any)) *world {
	utilrand.Seed(sc.Seed)
	env := verifenv.NewXREnv()
	env.Keys = sc.Filter
	w := &world{env: env, sc: sc, implicit: map[string]bool{}, tags: map[string]string{}, uids: map[string]string{}, fail: fail, produced: map[string]map[string][]byte{}, producedStep: map[string]int{}}
	env.Runner = w.runner()
	env.InstallComposition(sc.composition(), 1)
	w.sc.XRs = append([]xrSpec{}, sc.XRs...)
	for i, x := range sc.XRs {
		xr := env.NewXR(x.Name, "comp")
		_ = unstructured.SetNestedField(xr.Object, x.Tag, "spec", "params", "tag")
		for _, r := range sc.Res {
			if r.NS != "" {
				_ = unstructured.SetNestedField(xr.Object, r.NS, "spec", "params", "ns_"+r.Name)
			}
		}
		if x.HasRef {
			xr.SetWriteConnectionSecretToReference(&xpv1.SecretReference{Name: x.Secret, Namespace: xrNS})
		}
		if sc.Claim != nil {
			cn := claimName
			if sc.Claim.BoundElsewhere {
				cn = "c2"
			}
			_ = unstructured.SetNestedMap(xr.Object, map[string]any{"apiVersion": "example.org/v1", "kind": "Thing", "namespace": claimNS, "name": cn}, "spec", "claimRef")
		}
		env.Sim.MustCreate("user", xr)
		w.uids[x.Name] = string(xr.GetUID())
		w.tags[x.Name] = x.Tag
		if !x.HasRef && sc.CompNS {
			// The composition asks on the XR's behalf: the secret is <namespace>/<XR UID>.
			w.sc.XRs[i].HasRef, w.sc.XRs[i].Secret = true, w.uids[x.Name]
			w.implicit[x.Name] = true
		}
	}
	if sc.Claim != nil {
		spec := map[string]any{
			"compositionRef": map[string]any{"name": "comp"},
			"resourceRef":    map[string]any{"apiVersion": "example.org/v1", "kind": "XThing", "name": sc.XRs[0].Name},
			"params":         map[string]any{"tag": sc.XRs[0].Tag},
		}
		for _, r := range sc.Res {
			if r.NS != "" {
				spec["params"].(map[string]any)["ns_"+r.Name] = r.NS
			}
		}
		if sc.Claim.HasRef {
			spec["writeConnectionSecretToRef"] = map[string]any{"name": claimSecret}
		}
		cm := verifsim.U(verifsim.Obj{"apiVersion": "example.org/v1", "kind": "Thing", "metadata": map[string]any{"namespace": claimNS, "name": claimName}, "spec": spec})
		env.Sim.MustCreate("user", cm)
		w.claimUID = string(cm.GetUID())
	}
	// Pre-existing secrets are put in place after the owners exist so that "owned" can carry their UIDs.
	for i := range w.sc.XRs {
		w.putXRSecret(i, w.sc.XRs[i].Pre)
		for j, r := range sc.Res {
			if r.Decoy != nil {
				w.putDecoy(i, j, r.Decoy)
			}
		}
	}
	if sc.Claim != nil {
		w.putClaimSecret(sc.Claim.Pre)
	}
	return w
}

// otherUIDFor returns the UID of "another" controller: the other XR if there is one, else a foreign UID.
func (w *world) otherUIDFor(i int) (string, string) {
	if len(w.sc.XRs) > 1 {
		o := w.sc.XRs[1-i]
		return o.Name, w.uids[o.Name]
	}
	return "someone-else", "uid-foreign"
}

func (w *world) putSecret(ns, name string, s secretSpec, ownerKind, ownerName, ownerUID, otherName, otherUID string) {
	c := w.env.Sim.Client("outsider")
	ctx := context.Background()
	cur := &corev1.Secret{}
	if err := c.Get(ctx, types.NamespacedName{Namespace: ns, Name: name}, cur); err == nil {
		if err := c.Delete(ctx, cur); err != nil {
			panic(err)
		}
	}
	if s.State == stAbsent {
		return
	}
	sec := &corev1.Secret{ObjectMeta: metav1.ObjectMeta{Namespace: ns, Name: name}, Type: corev1.SecretType(connType), Data: map[string][]byte{}}
	for k, v := range s.Data {
		sec.Data[k] = append([]byte{}, v...)
	}
	switch s.State {
	case stUnctlOpaque:
		sec.Type = corev1.SecretTypeOpaque
	case stOwned:
		sec.OwnerReferences = []metav1.OwnerReference{{APIVersion: "example.org/v1", Kind: ownerKind, Name: ownerName, UID: types.UID(ownerUID), Controller: ptr.To(true), BlockOwnerDeletion: ptr.To(true)}}
	case stOther:
		sec.OwnerReferences = []metav1.OwnerReference{{APIVersion: "example.org/v1", Kind: ownerKind, Name: otherName, UID: types.UID(otherUID), Controller: ptr.To(true), BlockOwnerDeletion: ptr.To(true)}}
		if len(s.Data)%2 == 1 {
			sec.Type = corev1.SecretTypeOpaque
		}
	}
	if err := c.Create(ctx, sec); err != nil {
		panic(err)
	}
}

// putDecoy puts (data != nil) or removes a foreign-owned secret named like the composed resource's
// connection secret into the composed resource's OWN namespace. No-op unless the reference is cross-namespace.
func (w *world) putDecoy(xr, res int, data map[string][]byte) {
	r := w.sc.Res[res]
	if !r.crossNS() {
		return
	}
	s := secretSpec{State: stAbsent}
	if data != nil {
		s = secretSpec{State: stOther, Data: data}
	}
	w.putSecret(r.NS, composedSecretName(w.sc.XRs[xr].Name, r.Name), s, "Decoy", "", "", "decoy-owner", "uid-decoy")
}

func (w *world) putXRSecret(i int, s secretSpec) {
	x := w.sc.XRs[i]
	on, ou := w.otherUIDFor(i)
	w.putSecret(xrNS, x.Secret, s, "XThing", x.Name, w.uids[x.Name], on, ou)
}

func (w *world) putClaimSecret(s secretSpec) {
	src := dataOf(w.env.Sim.Get(secretKey(xrNS, w.sc.XRs[0].Secret)))
	switch s.Rel {
	case "copy":
		s.Data = src
	case "super":
		d := map[string][]byte{}
		for k, v := range s.Data {
			d[k] = v
		}
		for k, v := range src {
			d[k] = v
		}
		s.Data = d
	}
	w.putSecret(claimNS, claimSecret, s, "Thing", claimName, w.claimUID, "c2", "uid-other-claim")
}

// composition builds the Composition of the scenario.
func (sc scenario) composition() *v1.Composition {
	c := &v1.Composition{}
	c.SetName("comp")
	c.Spec.CompositeTypeRef = v1.TypeReference{APIVersion: "example.org/v1", Kind: "XThing"}
	if sc.CompNS {
		c.Spec.WriteConnectionSecretsToNamespace = ptr.To(xrNS)
	}
	if sc.Pipeline {
		c.Spec.Mode = ptr.To(v1.CompositionModePipeline)
		for i := 0; i < sc.Steps; i++ {
			c.Spec.Pipeline = append(c.Spec.Pipeline, v1.PipelineStep{Step: fmt.Sprintf("step-%d", i), FunctionRef: v1.FunctionReference{Name: fmt.Sprintf("fn-%d", i)}})
		}
		return c
	}
	c.Spec.Mode = ptr.To(v1.CompositionModeResources)
	for _, r := range sc.Res {
		spec := map[string]any{"forProvider": map[string]any{"v": "base"}}
		if r.SecretRef {
			spec["writeConnectionSecretToRef"] = map[string]any{"namespace": r.refNS()}
		}
		base, _ := json.Marshal(map[string]any{"apiVersion": "example.org/v1", "kind": r.Kind, "spec": spec})
		ct := v1.ComposedTemplate{Name: ptr.To(r.Name), Base: runtime.RawExtension{Raw: base}}
		if r.NS != "" {
			// RenderFromJSON resets the namespace of a template base, so a namespaced composed resource
			// gets its namespace the way real Compositions do it: a patch from the XR.
			ct.Patches = append(ct.Patches, v1.Patch{Type: v1.PatchTypeFromCompositeFieldPath, FromFieldPath: ptr.To("spec.params.ns_" + r.Name), ToFieldPath: ptr.To("metadata.namespace")})
		}
		ct.Patches = append(ct.Patches, v1.Patch{Type: v1.PatchTypeFromCompositeFieldPath, FromFieldPath: ptr.To("spec.params.tag"), ToFieldPath: ptr.To("spec.forProvider.v")})
		if r.SecretRef {
			ct.Patches = append(ct.Patches, v1.Patch{
				Type: v1.PatchTypeFromCompositeFieldPath, FromFieldPath: ptr.To("metadata.name"), ToFieldPath: ptr.To("spec.writeConnectionSecretToRef.name"),
				Transforms: []v1.Transform{{Type: v1.TransformTypeString, String: &v1.StringTransform{Type: v1.StringTransformTypeFormat, Format: ptr.To("%s-" + r.Name)}}},
			})
		}
		for _, d := range r.Details {
			cd := v1.ConnectionDetail{Name: d.Name, FromConnectionSecretKey: d.FromKey, FromFieldPath: d.Path, Value: d.Value}
			if d.Type != "" {
				cd.Type = ptr.To(v1.ConnectionDetailType(d.Type))
			}
			ct.ConnectionDetails = append(ct.ConnectionDetails, cd)
		}
		c.Spec.Resources = append(c.Spec.Resources, ct)
	}
	return c
}

func composedSecretName(xr, res string) string { return xr + "-" + res }

func taggedValue(xr, tag, key string) []byte { return []byte(tag + ":" + xr + ":" + key) }

// runner is the scripted function pipeline. Composite connection details are a
// deterministic function of the scenario, the XR's tag and the observed
// composed resources' connection details.
func (w *world) runner() composite.FunctionRunner {
	return composite.FunctionRunnerFn(func(_ context.Context, name string, req *fnv1.RunFunctionRequest) (*fnv1.RunFunctionResponse, error) {
		var stepIdx int
		fmt.Sscanf(name, "fn-%d", &stepIdx)
		oxr := req.GetObserved().GetComposite().GetResource().AsMap()
		xrName, _ := verifsim.Nested(oxr, "metadata", "name").(string)
		tag, _ := verifsim.Nested(oxr, "spec", "params", "tag").(string)
		d := req.GetDesired()
		if d == nil {
			d = &fnv1.State{}
		}
		if d.Resources == nil {
			d.Resources = map[string]*fnv1.Resource{}
		}
		obs := req.GetObserved().GetResources()
		if stepIdx == 0 {
			for _, r := range w.sc.Res {
				spec := map[string]any{"forProvider": map[string]any{"v": tag}}
				if r.SecretRef {
					spec["writeConnectionSecretToRef"] = map[string]any{"namespace": r.refNS(), "name": composedSecretName(xrName, r.Name)}
				}
				res := map[string]any{"apiVersion": "example.org/v1", "kind": r.Kind, "spec": spec}
				if r.NS != "" {
					res["metadata"] = map[string]any{"namespace": r.NS}
				}
				s, err := structpb.NewStruct(res)
				if err != nil {
					return nil, err
				}
				ready := fnv1.Ready_READY_FALSE
				if _, ok := obs[r.Name]; ok {
					ready = fnv1.Ready_READY_TRUE
				}
				d.Resources[r.Name] = &fnv1.Resource{Resource: s, Ready: ready}
			}
			// "From the right XR", input side: the observed connection details of each composed
			// resource are those of this XR's composed resource.
			for _, r := range w.sc.Res {
				o, ok := obs[r.Name]
				if !ok {
					continue
				}
				if c := verifsim.ControllerUID(o.GetResource().AsMap()); c != "" && c != w.uids[xrName] {
					on, _ := verifsim.Nested(o.GetResource().AsMap(), "metadata", "name").(string)
					w.fnFindings = append(w.fnFindings, fmt.Sprintf("function of XR %s (uid %s) was handed composed resource %q = %s %q, which is controlled by another UID %q, with connection details %s", xrName, w.uids[xrName], r.Name, r.Kind, on, c, fmtData(o.GetConnectionDetails())))
				}
				var want map[string][]byte
				if r.SecretRef {
					want = dataOf(w.env.Sim.Get(secretKey(r.refNS(), composedSecretName(xrName, r.Name))))
				}
				if !dataEqual(o.GetConnectionDetails(), want) {
					w.fnFindings = append(w.fnFindings, fmt.Sprintf("function of XR %s observed connection details %s for composed resource %q (namespace %q), but the connection secret it references, %s/%s, holds %s", xrName, fmtData(o.GetConnectionDetails()), r.Name, r.NS, r.refNS(), composedSecretName(xrName, r.Name), fmtData(want)))
				}
			}
		}
		if d.Composite == nil {
			d.Composite = &fnv1.Resource{}
		}
		if d.Composite.ConnectionDetails == nil {
			d.Composite.ConnectionDetails = map[string][]byte{}
		}
		for _, fd := range w.sc.FnDetails {
			if fd.Step != stepIdx {
				continue
			}
			switch fd.Kind {
			case srcFixed:
				d.Composite.ConnectionDetails[fd.Key] = append([]byte{}, fd.Val...)
			case srcTagged:
				d.Composite.ConnectionDetails[fd.Key] = taggedValue(xrName, tag, fd.Key)
			case srcEcho:
				if o, ok := obs[fd.Res]; ok {
					if v, ok := o.GetConnectionDetails()[fd.FromKey]; ok {
						d.Composite.ConnectionDetails[fd.Key] = append([]byte{}, v...)
					}
				}
			case srcEchoAll:
				if o, ok := obs[fd.Res]; ok {
					for k, v := range o.GetConnectionDetails() {
						d.Composite.ConnectionDetails[k] = append([]byte{}, v...)
					}
				}
			}
		}
		w.produced[xrName] = cloneData(d.Composite.ConnectionDetails)
		w.producedStep[xrName] = stepIdx
		return &fnv1.RunFunctionResponse{Desired: d, Context: req.GetContext()}, nil
	})
}

// ---------------------------------------------------------------------------
// data helpers

func dataOf(o verifsim.Obj) map[string][]byte {
	if o == nil {
		return nil
	}
	m, _ := o["data"].(map[string]any)
	out := map[string][]byte{}
	for k, v := range m {
		s, _ := v.(string)
		b, err := base64.StdEncoding.DecodeString(s)
		if err != nil {
			panic(fmt.Sprintf("secret data %q is not base64: %v", k, err))
		}
		out[k] = b
	}
	return out
}

func cloneData(m map[string][]byte) map[string][]byte {
	out := map[string][]byte{}
	for k, v := range m {
		out[k] = append([]byte{}, v...)
	}
	return out
}

// dataEqual compares secret data; nil and empty maps, and nil and empty values, are equal.
func dataEqual(a, b map[string][]byte) bool {
	if len(a) != len(b) {
		return false
	}
	for k, v := range a {
		w, ok := b[k]
		if !ok || !bytes.Equal(v, w) {
			return false
		}
	}
	return true
}

func fmtData(m map[string][]byte) string {
	ks := make([]string, 0, len(m))
	for k := range m {
		ks = append(ks, k)
	}
	sort.Strings(ks)
	var sb strings.Builder
	sb.WriteByte('{')
	for i, k := range ks {
		if i > 0 {
			sb.WriteByte(' ')
		}
		fmt.Fprintf(&sb, "%s=%q", k, m[k])
	}
	sb.WriteByte('}')
	return sb.String()
}

func secType(o verifsim.Obj) string { s, _ := o["type"].(string); return s }

func rvOf(o verifsim.Obj) string { return verifsim.MetaString(o, "resourceVersion") }

// controllableBy is the contract of resource.ConnectionSecretMustBeControllableBy (and of "create
// if absent"): absent; or controlled by uid; or without controller and of the connection type.
func controllableBy(o verifsim.Obj, uid string) bool {
	if o == nil {
		return true
	}
	c := verifsim.ControllerUID(o)
	if c == "" {
		return secType(o) == connType
	}
	return c == uid
}

func lookupPath(o verifsim.Obj, path string) (any, bool) {
	var cur any = o
	for _, seg := range strings.Split(path, ".") {
		m, ok := cur.(map[string]any)
		if !ok {
			return nil, false
		}
		cur, ok = m[seg]
		if !ok {
			return nil, false
		}
	}
	return cur, true
}

// ---------------------------------------------------------------------------
// reference: what the composition produces for one XR

type product struct {
	Valid    bool              // the composition ran to completion and produced details
	Details  map[string][]byte // key -> value
	Optional map[string]bool   // keys whose presence the contract leaves open (empty source value)
}

// composedKey returns the store key of the composed resource res of the XR.
func (w *world) composedKey(xrName, res string) verifsim.Key {
	for k, o := range w.env.Sim.State() {
		if strings.HasPrefix(k.Kind, "Kind") && verifsim.Annotations(o)[annName] == res && verifsim.ControllerUID(o) == w.uids[xrName] {
			return k
		}
	}
	return verifsim.Key{}
}

// expectedPT computes, from the templates and the store, the XR connection details the P&T
// composition yields: templates in order, entries in order, later entries win.
func (w *world) expectedPT(xrName string) product {
	p := product{Valid: true, Details: map[string][]byte{}, Optional: map[string]bool{}}
	st := w.env.Sim.State()
	for _, r := range w.sc.Res {
		var cd verifsim.Obj
		for k, o := range st {
			if k.Kind == r.Kind && verifsim.Annotations(o)[annName] == r.Name && verifsim.ControllerUID(o) == w.uids[xrName] {
				cd = o
			}
		}
		if cd == nil {
			return product{} // the composed resource does not exist: the composition cannot have completed
		}
		var conn map[string][]byte
		if sn, _ := verifsim.Nested(cd, "spec", "writeConnectionSecretToRef", "name").(string); sn != "" {
			ns, _ := verifsim.Nested(cd, "spec", "writeConnectionSecretToRef", "namespace").(string)
			conn = dataOf(st[secretKey(ns, sn)])
		}
		for _, d := range r.Details {
			// Type: explicit, else inferred in the documented order of precedence value > secret key > field path,
			// defaulting to FromConnectionSecretKey.
			tp := d.Type
			if tp == "" {
				switch {
				case d.Value != nil:
					tp = "FromValue"
				case d.FromKey != nil:
					tp = "FromConnectionSecretKey"
				case d.Path != nil:
					tp = "FromFieldPath"
				default:
					tp = "FromConnectionSecretKey"
				}
			}
			name := ""
			switch {
			case d.Name != nil:
				name = *d.Name
			case tp == "FromConnectionSecretKey" && d.FromKey != nil:
				name = *d.FromKey
			}
			if name == "" {
				return product{} // "connection detail is missing name": the composition fails
			}
			switch tp {
			case "FromValue":
				if d.Value == nil {
					return product{}
				}
				p.Details[name] = []byte(*d.Value)
				delete(p.Optional, name)
			case "FromConnectionSecretKey":
				if d.FromKey == nil {
					return product{}
				}
				v, ok := conn[*d.FromKey]
				if !ok {
					continue
				}
				if len(v) == 0 {
					// An empty value in the composed resource's secret: "not yet written" and "written, empty"
					// are not distinguished by the contract. Either outcome is accepted.
					if _, had := p.Details[name]; had {
						p.Optional[name] = true // may or may not have been overridden: do not judge this key's value
						p.Details[name] = nil
						continue
					}
					p.Details[name] = []byte{}
					p.Optional[name] = true
					continue
				}
				p.Details[name] = v
				delete(p.Optional, name)
			case "FromFieldPath":
				if d.Path == nil {
					return product{}
				}
				v, ok := lookupPath(cd, *d.Path)
				if !ok {
					continue
				}
				if s, isStr := v.(string); isStr {
					p.Details[name] = []byte(s)
				} else {
					b, err := json.Marshal(v)
					if err != nil {
						continue
					}
					p.Details[name] = b
				}
				delete(p.Optional, name)
			}
		}
	}
	return p
}

func (w *world) expectedPipeline(xrName string) product {
	d, ok := w.produced[xrName]
	if !ok || w.producedStep[xrName] != w.sc.Steps-1 {
		return product{}
	}
	return product{Valid: true, Details: d, Optional: map[string]bool{}}
}

func (w *world) allowed(k string) bool {
	if len(w.sc.Filter) == 0 {
		return true
	}
	for _, f := range w.sc.Filter {
		if f == k {
			return true
		}
	}
	return false
}

// ---------------------------------------------------------------------------
// XR reconcile + oracle

type xrOutcome struct {
	nontrivial bool
	wrote      bool
}

func isComposedKind(k verifsim.Key) bool { return k.Group == "example.org" && strings.HasPrefix(k.Kind, "Kind") }

// foreignRefs counts the XR's stored resource references that name a live resource controlled by another UID.
func (w *world) foreignRefs(xrName string) int {
	xr := w.env.Sim.Get(w.env.XRKey(xrName))
	l, _ := verifsim.Nested(xr, "spec", "resourceRefs").([]any)
	n := 0
	for _, e := range l {
		m, _ := e.(map[string]any)
		kind, _ := m["kind"].(string)
		name, _ := m["name"].(string)
		ns, _ := m["namespace"].(string)
		o := w.env.Sim.Get(verifsim.Key{Group: "example.org", Kind: kind, Namespace: ns, Name: name})
		if c := verifsim.ControllerUID(o); o != nil && c != "" && c != w.uids[xrName] {
			n++
		}
	}
	return n
}

func (w *world) reconcileXR(i int, lag bool, rec *verifkit.Recorder, ctx string) xrOutcome {
	x := w.sc.XRs[i]
	key := secretKey(xrNS, x.Secret)
	before := w.env.Sim.Get(key)
	logFrom := w.env.Sim.LogLen()
	delete(w.produced, x.Name)
	delete(w.producedStep, x.Name)
	w.fnFindings = nil
	w.env.Recorder.Reset()
	foreign := w.foreignRefs(x.Name)
	run := w.env.Sim.NewRun(actorXR, nil)
	var rerr error
	if lag {
		cached := run.StaleClient(func(k verifsim.Key) int {
			if isComposedKind(k) {
				return verifsim.LagHideNew
			}
			return 0
		})
		_, rerr = w.env.ReconcileWith(cached, run.Client(), x.Name)
		rec.Label("xr:cache-lag")
	} else {
		_, rerr = w.env.Reconcile(run, x.Name)
	}
	switch {
	case foreign > 0 && lag:
		rec.Label("xr:foreign-controlled-ref+cache-miss")
	case foreign > 0:
		rec.Label("xr:foreign-controlled-ref+cache-hit")
	}
	composeFailed := false
	for _, e := range w.env.Recorder.Warnings() {
		if strings.HasPrefix(e.Message, "cannot compose resources") {
			composeFailed = true // nothing is published by a reconcile whose composition failed
		}
	}
	after := w.env.Sim.Get(key)
	for _, f := range w.fnFindings {
		w.fail("%s: %s", ctx, f)
	}

	var prod product
	if w.sc.Pipeline {
		prod = w.expectedPipeline(x.Name)
	} else {
		prod = w.expectedPT(x.Name)
	}
	uid := w.uids[x.Name]
	out := xrOutcome{}
	requests := 0
	conflict := false
	for _, wr := range w.env.Sim.Log()[logFrom:] {
		if wr.Actor == actorXR && strings.HasPrefix(wr.Err, "409") {
			conflict = true // the reconciler legitimately stops early on a conflict
		}
		if wr.Actor != actorXR || wr.Key.Group != "" || wr.Key.Kind != "Secret" || wr.DryRun {
			continue
		}
		if !x.HasRef {
			w.fail("%s: XR %s has no writeConnectionSecretToRef, but its reconcile issued %s on secret %s (write #%d)", ctx, x.Name, wr.Verb, wr.Key, wr.Seq)
		}
		if wr.Key != key {
			w.fail("%s: XR %s (secret %s) issued %s on another secret %s (write #%d)", ctx, x.Name, key, wr.Verb, wr.Key, wr.Seq)
		}
		requests++
		if wr.Err != "" || !wr.Changed {
			continue
		}
		out.wrote = true
		if !controllableBy(wr.Before, uid) {
			w.fail("%s: XR %s (uid %s) modified secret %s which it may not control (controller %q, type %q) (write #%d)", ctx, x.Name, uid, wr.Key, verifsim.ControllerUID(wr.Before), secType(wr.Before), wr.Seq)
		}
		if wr.After == nil {
			w.fail("%s: XR reconcile removed secret %s", ctx, wr.Key)
		}
		if c := verifsim.ControllerUID(wr.After); c != uid {
			w.fail("%s: secret %s written for XR %s (uid %s) is controlled by %q afterwards", ctx, wr.Key, x.Name, uid, c)
		}
		bd, ad := dataOf(wr.Before), dataOf(wr.After)
		for k, v := range ad {
			if old, ok := bd[k]; ok && bytes.Equal(old, v) {
				continue // not written by this request
			}
			if !w.allowed(k) {
				w.fail("%s: XR %s wrote key %q=%q to %s, which the XRD's connectionSecretKeys %v do not allow (write #%d; produced %s)", ctx, x.Name, k, v, wr.Key, w.sc.Filter, wr.Seq, fmtData(prod.Details))
			}
			if !prod.Valid {
				w.fail("%s: XR %s wrote key %q=%q to %s although the composition did not complete for it in this reconcile (write #%d)", ctx, x.Name, k, v, wr.Key, wr.Seq)
			}
			ev, ok := prod.Details[k]
			if !ok {
				w.fail("%s: XR %s wrote key %q=%q to %s, which the composition did not produce for this XR in this reconcile (produced %s) (write #%d)", ctx, x.Name, k, v, wr.Key, fmtData(prod.Details), wr.Seq)
			}
			if prod.Optional[k] && ev == nil {
				continue
			}
			if !bytes.Equal(ev, v) {
				w.fail("%s: XR %s wrote %q=%q to %s but the composition produced %q for this XR in this reconcile (write #%d)", ctx, x.Name, k, v, wr.Key, ev, wr.Seq)
			}
		}
	}

	// What would be written: the produced details the filter allows.
	filtered := map[string][]byte{}
	ambiguous := false
	for k, v := range prod.Details {
		if w.allowed(k) {
			filtered[k] = v
			if prod.Optional[k] {
				ambiguous = true
			}
		}
	}
	if x.HasRef && prod.Valid && !ambiguous {
		// Identical data is never rewritten.
		if before != nil && dataEqual(dataOf(before), filtered) {
			rec.Label("xr:identical-data")
			if requests != 0 || rvOf(after) != rvOf(before) {
				w.fail("%s: secret %s already held exactly the data to publish %s, yet the reconcile of XR %s issued %d write request(s) on it (resourceVersion %s -> %s)", ctx, key, fmtData(filtered), x.Name, requests, rvOf(before), rvOf(after))
			}
		}
		// All keys when the XRD lists none.
		if len(w.sc.Filter) == 0 && controllableBy(before, uid) && rerr == nil && !conflict && !composeFailed {
			ad := dataOf(after)
			for k, v := range filtered {
				if got, ok := ad[k]; !ok || !bytes.Equal(got, v) {
					w.fail("%s: the XRD lists no connectionSecretKeys, the composition produced %s for XR %s, and secret %s is controllable, but after the reconcile it holds %s (key %q missing or different; events %v)", ctx, fmtData(filtered), x.Name, key, fmtData(ad), k, w.env.Recorder.Warnings())
				}
			}
		}
	}
	if w.implicit[x.Name] {
		rec.Label("xr:ref-from-composition")
	}
	if !x.HasRef {
		rec.Label("xr:no-ref")
	} else {
		rec.Labelf("xr:dest=%s", stateOf(before, uid))
	}
	if out.wrote {
		rec.Label("xr:wrote")
	}
	crossDecoy := false
	for _, r := range w.sc.Res {
		switch {
		case r.NS == "":
			rec.Label("cd:cluster-scoped")
		case !r.SecretRef:
			rec.Label("cd:namespaced-no-secret-ref")
		case !r.crossNS():
			rec.Label("cd:namespaced-same-ns-secret-ref")
		default:
			real := w.env.Sim.Get(secretKey(r.refNS(), composedSecretName(x.Name, r.Name)))
			decoy := w.env.Sim.Get(secretKey(r.NS, composedSecretName(x.Name, r.Name)))
			l := "cd:namespaced-cross-ns-secret-ref"
			if decoy != nil {
				l += "+decoy-present"
				crossDecoy = true
			} else {
				l += "+decoy-absent"
			}
			if real != nil {
				l += "+referenced-present"
			} else {
				l += "+referenced-absent"
			}
			rec.Label(l)
		}
	}
	if crossDecoy && out.wrote {
		rec.Label("xr:wrote-with-cross-ns-decoy-present")
	}
	excl := false
	for k := range prod.Details {
		if !w.allowed(k) {
			excl = true
		}
	}
	if excl {
		rec.Label("xr:filter-excludes-produced-key")
	}
	out.nontrivial = x.HasRef && prod.Valid && (excl || before != nil)
	return out
}

func stateOf(o verifsim.Obj, uid string) string {
	switch c := verifsim.ControllerUID(o); {
	case o == nil:
		return "absent"
	case c == uid:
		return "owned"
	case c != "":
		return "other-controller"
	case secType(o) == connType:
		return "uncontrolled-connection"
	default:
		return "uncontrolled-" + secType(o)
	}
}

// ---------------------------------------------------------------------------
// claim reconcile + oracle

func (w *world) claimReconciler(c *verifsim.Client) *claim.Reconciler {
	o := []claim.ReconcilerOption{claim.WithRecorder(w.env.Recorder)}
	if w.sc.Claim.SSA {
		o = append(o,
			claim.WithCompositeSyncer(claim.NewServerSideCompositeSyncer(c, names.NewNameGenerator(c))),
			claim.WithManagedFieldsUpgrader(claim.NewPatchingManagedFieldsUpgrader(c)))
	}
	return claim.NewReconciler(c, resource.CompositeClaimKind(verifenv.ClaimGVKDefault), resource.CompositeKind(verifenv.XRGVKDefault), o...)
}

func condTrue(o verifsim.Obj, tp string) bool {
	l, _ := verifsim.Nested(o, "status", "conditions").([]any)
	for _, e := range l {
		if m, ok := e.(map[string]any); ok && m["type"] == tp {
			return m["status"] == "True"
		}
	}
	return false
}

func (w *world) reconcileClaim(rec *verifkit.Recorder, ctx string) bool {
	x := w.sc.XRs[0]
	xrBefore := w.env.Sim.Get(w.env.XRKey(x.Name))
	// The XR's secret reference as stored (a reference given by the Composition appears with the first XR reconcile).
	xrRefName, _ := verifsim.Nested(xrBefore, "spec", "writeConnectionSecretToRef", "name").(string)
	xrRefNS, _ := verifsim.Nested(xrBefore, "spec", "writeConnectionSecretToRef", "namespace").(string)
	xrHasRef := xrRefName != ""
	srcKey, dstKey := secretKey(xrRefNS, xrRefName), secretKey(claimNS, claimSecret)
	var src verifsim.Obj
	if xrHasRef {
		src = w.env.Sim.Get(srcKey)
	}
	dst := w.env.Sim.Get(dstKey)
	logFrom := w.env.Sim.LogLen()
	w.env.Recorder.Reset()
	run := w.env.Sim.NewRun(actorClaim, nil)
	res, rerr := w.claimReconciler(run.Client()).Reconcile(context.Background(), reconcile.Request{NamespacedName: types.NamespacedName{Namespace: claimNS, Name: claimName}})
	dstAfter := w.env.Sim.Get(dstKey)
	cmAfter := w.env.Sim.Get(verifsim.Key{Group: "example.org", Kind: "Thing", Namespace: claimNS, Name: claimName})

	srcOwned := src != nil && verifsim.ControllerUID(src) == w.uids[x.Name]
	// The "only if" side: both ends ask for a secret, the source is controlled by the bound XR,
	// the destination is controllable by the claim.
	mayWrite := xrHasRef && w.sc.Claim.HasRef && srcOwned && controllableBy(dst, w.claimUID) && !w.sc.Claim.BoundElsewhere
	sd := dataOf(src)
	requests, wrote := 0, false
	for _, wr := range w.env.Sim.Log()[logFrom:] {
		if wr.Actor != actorClaim || wr.Key.Group != "" || wr.Key.Kind != "Secret" || wr.DryRun {
			continue
		}
		if wr.Key != dstKey {
			w.fail("%s: claim reconcile issued %s on secret %s, which is not the claim's connection secret %s (write #%d)", ctx, wr.Verb, wr.Key, dstKey, wr.Seq)
		}
		if !w.sc.Claim.HasRef {
			w.fail("%s: the claim has no writeConnectionSecretToRef, but its reconcile issued %s on secret %s", ctx, wr.Verb, wr.Key)
		}
		requests++
		if wr.Err != "" || !wr.Changed {
			continue
		}
		wrote = true
		if !srcOwned {
			w.fail("%s: claim secret %s was written (write #%d) although the XR's secret %s is not controlled by XR %s (uid %s): state %s, controller %q", ctx, dstKey, wr.Seq, srcKey, x.Name, w.uids[x.Name], stateOf(src, w.uids[x.Name]), verifsim.ControllerUID(src))
		}
		if !controllableBy(wr.Before, w.claimUID) {
			w.fail("%s: claim (uid %s) modified secret %s which it may not control (controller %q, type %q) (write #%d)", ctx, w.claimUID, dstKey, verifsim.ControllerUID(wr.Before), secType(wr.Before), wr.Seq)
		}
		if !mayWrite {
			w.fail("%s: claim secret written although propagation is not permitted (xrHasRef=%v claimHasRef=%v srcOwned=%v dst=%s xrBoundToAnotherClaim=%v)", ctx, xrHasRef, w.sc.Claim.HasRef, srcOwned, stateOf(dst, w.claimUID), w.sc.Claim.BoundElsewhere)
		}
		if wr.After == nil {
			w.fail("%s: claim reconcile removed secret %s", ctx, dstKey)
		}
		if c := verifsim.ControllerUID(wr.After); c != w.claimUID {
			w.fail("%s: claim secret %s is controlled by %q after being written for claim uid %s", ctx, dstKey, c, w.claimUID)
		}
		if ad := dataOf(wr.After); !dataEqual(ad, sd) {
			w.fail("%s: claim secret %s was written with %s, which is not an exact copy of XR secret %s %s (write #%d)", ctx, dstKey, fmtData(ad), srcKey, fmtData(sd), wr.Seq)
		}
	}
	if mayWrite && dst != nil && dataEqual(dataOf(dst), sd) {
		rec.Label("claim:identical-data")
		if requests != 0 || rvOf(dstAfter) != rvOf(dst) {
			w.fail("%s: claim secret %s already held exactly the XR secret's data %s, yet the claim reconcile issued %d write request(s) on it (resourceVersion %s -> %s)", ctx, dstKey, fmtData(sd), requests, rvOf(dst), rvOf(dstAfter))
		}
	}
	// A claim that reports Ready=True in this reconcile has propagated: its secret is an exact copy.
	ready := condTrue(xrBefore, "Ready")
	if rerr == nil && !res.Requeue && mayWrite && ready && condTrue(cmAfter, "Ready") {
		if !dataEqual(dataOf(dstAfter), sd) {
			w.fail("%s: claim is Ready but its secret %s holds %s, not a copy of XR secret %s %s", ctx, dstKey, fmtData(dataOf(dstAfter)), srcKey, fmtData(sd))
		}
	}
	switch {
	case w.sc.Claim.BoundElsewhere:
		rec.Label("claim:xr-bound-to-another-claim")
	case !ready:
		rec.Label("claim:xr-not-ready")
	case !xrHasRef || !w.sc.Claim.HasRef:
		rec.Label("claim:no-ref")
	default:
		rec.Labelf("claim:src=%s", stateOf(src, w.uids[x.Name]))
		rec.Labelf("claim:dst=%s", stateOf(dst, w.claimUID))
	}
	if wrote {
		rec.Label("claim:wrote")
	}
	return ready && xrHasRef && w.sc.Claim.HasRef && !w.sc.Claim.BoundElsewhere && (src == nil || !srcOwned || dst != nil)
}

// ---------------------------------------------------------------------------
// environment steps

func (w *world) apply(st step) {
	c := w.env.Sim.Client("env")
	ctx := context.Background()
	x := w.sc.XRs[st.XR]
	switch st.Op {
	case "provSecret":
		r := w.sc.Res[st.Res]
		w.putSecret(r.refNS(), composedSecretName(x.Name, r.Name), secretSpec{State: stUnctlConn, Data: st.Data}, "", "", "", "", "")
	case "decoy":
		w.putDecoy(st.XR, st.Res, st.Data)
	case "foreignRef":
		r := w.sc.Res[st.Res]
		name := "foreign-" + x.Name + "-" + r.Name
		fk := verifsim.Key{Group: "example.org", Kind: r.Kind, Namespace: r.NS, Name: name}
		if w.env.Sim.Get(fk) == nil {
			// The other XR's composed resource and its connection secret. ONE write creates the resource.
			on, ou := w.otherUIDFor(st.XR)
			md := map[string]any{"name": name, "annotations": map[string]any{annName: r.Name},
				"ownerReferences": []any{map[string]any{"apiVersion": "example.org/v1", "kind": "XThing", "name": on, "uid": ou, "controller": true, "blockOwnerDeletion": true}}}
			if r.NS != "" {
				md["namespace"] = r.NS
			}
			fo := verifsim.U(verifsim.Obj{"apiVersion": "example.org/v1", "kind": r.Kind, "metadata": md, "spec": map[string]any{
				"forProvider":                map[string]any{"v": "foreign"},
				"writeConnectionSecretToRef": map[string]any{"namespace": r.refNS(), "name": name + "-conn"},
			}})
			if err := w.env.Sim.Client("other-xr-controller").Create(ctx, fo); err != nil {
				panic(err)
			}
			w.putSecret(r.refNS(), name+"-conn", secretSpec{State: stUnctlConn, Data: st.Data}, "", "", "", "", "")
		}
		xr := verifsim.U(w.env.Sim.Get(w.env.XRKey(x.Name)))
		refs, _, _ := unstructured.NestedSlice(xr.Object, "spec", "resourceRefs")
		ref := map[string]any{"apiVersion": "example.org/v1", "kind": r.Kind, "name": name}
		if r.NS != "" {
			ref["namespace"] = r.NS
		}
		_ = unstructured.SetNestedSlice(xr.Object, append(refs, ref), "spec", "resourceRefs")
		if err := w.env.Sim.Client("user").Update(ctx, xr); err != nil {
			panic(err)
		}
	case "provStatus":
		r := w.sc.Res[st.Res]
		for _, k := range w.env.Sim.AllKeys() {
			o := w.env.Sim.Get(k)
			if k.Kind != r.Kind || verifsim.Annotations(o)[annName] != r.Name || verifsim.ControllerUID(o) != w.uids[x.Name] {
				continue
			}
			u := verifsim.U(o)
			_ = unstructured.SetNestedMap(u.Object, map[string]any{"host": st.Str, "port": int64(5432)}, "status", "atProvider")
			_ = unstructured.SetNestedSlice(u.Object, []any{map[string]any{"type": "Ready", "status": "True", "reason": "Available", "lastTransitionTime": "2024-01-01T00:00:00Z"}}, "status", "conditions")
			if err := c.Status().Update(ctx, u); err != nil {
				panic(err)
			}
		}
	case "tag":
		w.tags[x.Name] = st.Str
		if w.sc.Claim != nil {
			cm := verifsim.U(w.env.Sim.Get(verifsim.Key{Group: "example.org", Kind: "Thing", Namespace: claimNS, Name: claimName}))
			_ = unstructured.SetNestedField(cm.Object, st.Str, "spec", "params", "tag")
			if err := c.Update(ctx, cm); err != nil {
				panic(err)
			}
		}
		xr := verifsim.U(w.env.Sim.Get(w.env.XRKey(x.Name)))
		_ = unstructured.SetNestedField(xr.Object, st.Str, "spec", "params", "tag")
		if err := c.Update(ctx, xr); err != nil {
			panic(err)
		}
	case "tamper":
		w.putXRSecret(st.XR, *st.Sec)
	case "tamperClaim":
		w.putClaimSecret(*st.Sec)
	case "ready":
		// The state the XR controller leaves behind once everything composed is ready.
		xr := ucomposite.New(ucomposite.WithGroupVersionKind(w.env.XRGVK))
		if err := c.Get(ctx, types.NamespacedName{Name: x.Name}, xr); err != nil {
			panic(err)
		}
		xr.SetConditions(xpv1.Available(), xpv1.ReconcileSuccess())
		if err := c.Status().Update(ctx, xr); err != nil {
			panic(err)
		}
	}
}

func (w *world) run(hist []step, rec *verifkit.Recorder) (nontrivial bool) {
	for i, st := range hist {
		ctx := fmt.Sprintf("step %d %s", i, verifkit.JSON(st))
		switch st.Op {
		case "reconcile":
			if o := w.reconcileXR(st.XR, st.Lag && w.sc.Pipeline, rec, ctx); o.nontrivial {
				nontrivial = true
			}
		case "claim":
			if w.sc.Claim != nil && w.reconcileClaim(rec, ctx) {
				nontrivial = true
			}
		default:
			w.apply(st)
		}
	}
	return nontrivial
}

// ---------------------------------------------------------------------------
// properties

const ruleXR = "scenario = 1-2 XRs (with/without writeConnectionSecretToRef, optionally the same secret name) + XRD key filter + Composition (1-2 scripted function steps returning composite connection details, or P&T templates with connectionDetails of every type incl. malformed ones) + composed resources that are cluster-scoped or namespaced (ns-a/ns-b) with a connection secret reference into the same or ANOTHER namespace, and a same-named foreign secret (decoy) in the composed resource's own namespace present or absent + pre-existing secret state at the XR's secret name; history = XR reconciles (pipeline mode: optionally with a cached client that lags for composed kinds - objects written once are hidden - and a live uncached client) interleaved with a user editing the XR's resourceRefs to name a composed resource controlled by ANOTHER XR (created by a single write, with its own connection secret of distinctive values), decoy appearance/removal, provider writes of composed resources' secrets/status, tag changes and outside replacement of the XR secret; every Secret write request in the server's log of each reconcile is judged. Non-trivial = a reconcile of an XR with a secret ref whose composition completed and (the filter excludes a produced key or a secret already exists at the destination)"

func TestVerifC09XR(t *testing.T) {
	rec := verifkit.New(t, "C09", ruleXR)
	rapid.Check(t, func(t *rapid.T) {
		sc := genScenario(false).Draw(t, "scenario")
		hist := genHistory(sc).Draw(t, "history")
		rec.Eval()
		rec.Labelf("pipeline=%v", sc.Pipeline)
		rec.Labelf("filter-empty=%v", len(sc.Filter) == 0)
		w := newWorld(sc, func(f string, a ...any) { t.Fatalf(f, a...) })
		if w.run(hist, rec) {
			rec.NonTrivial(verifkit.JSON(sc)+verifkit.JSON(hist), func() any { return map[string]any{"scenario": sc, "history": hist} })
		}
	})
}

const ruleClaim = "scenario = a claim bound to an XR (each with/without writeConnectionSecretToRef; client-side or server-side composite syncer) + filter + Composition + pre-existing secrets at the XR's and the claim's secret names in {absent, uncontrolled connection-type, uncontrolled Opaque, owned, controlled by another UID}; history = XR reconciles, claim reconciles, provider steps, outside replacement of either secret (claim secret data: random / copy of the XR secret / superset), XR readiness. Non-trivial = a claim reconcile that reaches propagation (XR Ready, both refs) with the source not owned by the XR or a secret already present at the destination"

func TestVerifC09Claim(t *testing.T) {
	rec := verifkit.New(t, "C09", ruleClaim)
	rapid.Check(t, func(t *rapid.T) {
		sc := genScenario(true).Draw(t, "scenario")
		hist := genHistory(sc).Draw(t, "history")
		rec.Eval()
		rec.Labelf("claim-ssa=%v", sc.Claim.SSA)
		w := newWorld(sc, func(f string, a ...any) { t.Fatalf(f, a...) })
		if w.run(hist, rec) {
			rec.NonTrivial(verifkit.JSON(sc)+verifkit.JSON(hist), func() any { return map[string]any{"scenario": sc, "history": hist} })
		}
	})
}

// ---------------------------------------------------------------------------
// pinned rows: hand-written scenarios that go through the same oracles and
// additionally state the expected end state, so that a vacuously quiet harness
// (nothing published, nothing propagated) cannot pass.

func rc(xr int) step { return step{Op: "reconcile", XR: xr} }

func TestVerifC09Pinned(t *testing.T) {
	rec := verifkit.New(t, "C09", "pinned rows")
	pipe := func(filter []string, xr xrSpec, cl *claimSpec) scenario {
		return scenario{
			Pipeline: true, Steps: 2, Filter: filter, Seed: 11,
			Res:       []resSpec{{Name: "r0", Kind: "KindA", SecretRef: true}},
			FnDetails: []fnDetail{{Key: "a", Kind: srcTagged, Step: 0}, {Key: "b", Kind: srcFixed, Val: []byte("v1"), Step: 1}, {Key: "c", Kind: srcEcho, Res: "r0", FromKey: "d", Step: 1}},
			XRs:       []xrSpec{xr}, Claim: cl,
		}
	}
	xr1 := func(hasRef bool, pre secretSpec) xrSpec {
		return xrSpec{Name: "xr1", Tag: "t1", HasRef: hasRef, Secret: "xr1-conn", Pre: pre}
	}
	xrKey, clKey := secretKey(xrNS, "xr1-conn"), secretKey(claimNS, claimSecret)
	wantData := func(t *testing.T, w *world, k verifsim.Key, want map[string][]byte, ctl string) {
		t.Helper()
		o := w.env.Sim.Get(k)
		if want == nil {
			if o != nil {
				t.Fatalf("secret %s exists (%s) but must not", k, fmtData(dataOf(o)))
			}
			return
		}
		if o == nil || !dataEqual(dataOf(o), want) || verifsim.ControllerUID(o) != ctl {
			t.Fatalf("secret %s: want data %s controlled by %q, got %s controlled by %q (exists=%v)", k, fmtData(want), ctl, fmtData(dataOf(o)), verifsim.ControllerUID(o), o != nil)
		}
	}
	rows := []struct {
		name   string
		sc     scenario
		hist   []step
		expect func(t *testing.T, w *world)
	}{
		{"pipeline-filter-a", pipe([]string{"a", "zz"}, xr1(true, secretSpec{}), nil), []step{rc(0), rc(0), rc(0)}, func(t *testing.T, w *world) {
			wantData(t, w, xrKey, map[string][]byte{"a": taggedValue("xr1", "t1", "a")}, w.uids["xr1"])
		}},
		{"pipeline-no-filter-echo", pipe(nil, xr1(true, secretSpec{}), nil), []step{{Op: "provSecret", Data: map[string][]byte{"d": []byte("s3cr3t"), "a": []byte("no")}}, rc(0), rc(0)}, func(t *testing.T, w *world) {
			wantData(t, w, xrKey, map[string][]byte{"a": taggedValue("xr1", "t1", "a"), "b": []byte("v1"), "c": []byte("s3cr3t")}, w.uids["xr1"])
		}},
		{"no-ref", pipe(nil, xr1(false, secretSpec{}), nil), []step{rc(0), rc(0)}, func(t *testing.T, w *world) { wantData(t, w, xrKey, nil, "") }},
		{"dest-other-controller", pipe(nil, xr1(true, secretSpec{State: stOther, Data: map[string][]byte{"b": []byte("v2")}}), nil), []step{rc(0), rc(0)}, func(t *testing.T, w *world) {
			wantData(t, w, xrKey, map[string][]byte{"b": []byte("v2")}, "uid-foreign")
		}},
		{"dest-uncontrolled-opaque", pipe(nil, xr1(true, secretSpec{State: stUnctlOpaque, Data: map[string][]byte{"b": []byte("v2")}}), nil), []step{rc(0), rc(0)}, func(t *testing.T, w *world) {
			wantData(t, w, xrKey, map[string][]byte{"b": []byte("v2")}, "")
		}},
		{"dest-uncontrolled-connection-adopted", pipe([]string{"a"}, xr1(true, secretSpec{State: stUnctlConn, Data: map[string][]byte{"d": []byte("v2")}}), nil), []step{rc(0), rc(0)}, func(t *testing.T, w *world) {
			wantData(t, w, xrKey, map[string][]byte{"d": []byte("v2"), "a": taggedValue("xr1", "t1", "a")}, w.uids["xr1"])
		}},
		{"pt-extraction", scenario{Filter: nil, Seed: 5, Steps: 1, XRs: []xrSpec{xr1(true, secretSpec{})}, Res: []resSpec{{Name: "r0", Kind: "KindA", SecretRef: true, Details: []ptDetail{
			{FromKey: ptr.To("a")}, {FromKey: ptr.To("b"), Name: ptr.To("c")}, {Path: ptr.To("spec.forProvider.v"), Name: ptr.To("d")}, {Path: ptr.To("status.nope"), Name: ptr.To("b")}, {Value: ptr.To("5432"), Name: ptr.To("b"), Type: "FromValue"},
		}}}}, []step{rc(0), {Op: "provSecret", Data: map[string][]byte{"a": []byte("v1"), "b": []byte("v2")}}, rc(0), rc(0)}, func(t *testing.T, w *world) {
			wantData(t, w, xrKey, map[string][]byte{"a": []byte("v1"), "c": []byte("v2"), "d": []byte("t1"), "b": []byte("5432")}, w.uids["xr1"])
		}},
		{"pt-malformed-detail-publishes-nothing", scenario{Filter: nil, Seed: 5, Steps: 1, XRs: []xrSpec{xr1(true, secretSpec{})}, Res: []resSpec{{Name: "r0", Kind: "KindA", Details: []ptDetail{
			{Value: ptr.To("x"), Name: ptr.To("a")}, {Path: ptr.To("spec.forProvider.v")},
		}}}}, []step{rc(0), rc(0)}, func(t *testing.T, w *world) { wantData(t, w, xrKey, nil, "") }},
		{"claim-copy", pipe([]string{"a"}, xr1(true, secretSpec{}), &claimSpec{HasRef: true}), []step{rc(0), rc(0), {Op: "claim"}, {Op: "claim"}}, func(t *testing.T, w *world) {
			wantData(t, w, clKey, map[string][]byte{"a": taggedValue("xr1", "t1", "a")}, w.claimUID)
		}},
		{"claim-copy-ssa-overwrites-owned", pipe(nil, xr1(true, secretSpec{}), &claimSpec{HasRef: true, SSA: true, Pre: secretSpec{State: stOwned, Data: map[string][]byte{"zz": []byte("old")}}}), []step{rc(0), rc(0), {Op: "claim"}, {Op: "claim"}}, func(t *testing.T, w *world) {
			wantData(t, w, clKey, map[string][]byte{"a": taggedValue("xr1", "t1", "a"), "b": []byte("v1")}, w.claimUID)
		}},
		{"claim-source-not-owned", pipe(nil, xr1(true, secretSpec{}), &claimSpec{HasRef: true}), []step{rc(0), rc(0), {Op: "tamper", Sec: &secretSpec{State: stOther, Data: map[string][]byte{"a": []byte("s3cr3t")}}}, {Op: "ready"}, {Op: "claim"}}, func(t *testing.T, w *world) {
			wantData(t, w, clKey, nil, "")
		}},
		{"claim-source-uncontrolled", pipe(nil, xr1(true, secretSpec{}), &claimSpec{HasRef: true}), []step{rc(0), rc(0), {Op: "tamper", Sec: &secretSpec{State: stUnctlConn, Data: map[string][]byte{"a": []byte("s3cr3t")}}}, {Op: "ready"}, {Op: "claim"}}, func(t *testing.T, w *world) {
			wantData(t, w, clKey, nil, "")
		}},
		{"claim-dest-opaque", pipe(nil, xr1(true, secretSpec{}), &claimSpec{HasRef: true, Pre: secretSpec{State: stUnctlOpaque, Data: map[string][]byte{"d": []byte("mine")}}}), []step{rc(0), rc(0), {Op: "claim"}}, func(t *testing.T, w *world) {
			wantData(t, w, clKey, map[string][]byte{"d": []byte("mine")}, "")
		}},
		{"claim-xr-bound-elsewhere", pipe(nil, xr1(true, secretSpec{}), &claimSpec{HasRef: true, BoundElsewhere: true}), []step{rc(0), rc(0), {Op: "claim"}}, func(t *testing.T, w *world) {
			wantData(t, w, clKey, nil, "")
		}},
	}
	// Namespaced composed resources whose secret reference names ANOTHER namespace, with a same-named
	// foreign secret (decoy) next to the composed resource: only the REFERENCED secret's values may flow.
	nsPipe := func(decoy map[string][]byte, cl *claimSpec) scenario {
		sc := pipe(nil, xr1(true, secretSpec{}), cl)
		sc.Res = []resSpec{{Name: "r0", Kind: "KindA", SecretRef: true, NS: "ns-a", RefNS: "ns-b", Decoy: decoy}}
		return sc
	}
	dec := map[string][]byte{"a": []byte("DECOY-1"), "d": []byte("DECOY-2")}
	rows = append(rows, []struct {
		name   string
		sc     scenario
		hist   []step
		expect func(t *testing.T, w *world)
	}{
		{"pt-cross-namespace-ref-with-decoy", scenario{Seed: 5, Steps: 1, XRs: []xrSpec{xr1(true, secretSpec{})}, Res: []resSpec{{Name: "r0", Kind: "KindA", SecretRef: true, NS: "ns-a", RefNS: "ns-b", Decoy: dec, Details: []ptDetail{
			{FromKey: ptr.To("a")}, {FromKey: ptr.To("d"), Name: ptr.To("c")},
		}}}}, []step{rc(0), {Op: "provSecret", Data: map[string][]byte{"a": []byte("v1")}}, rc(0), rc(0)}, func(t *testing.T, w *world) {
			wantData(t, w, xrKey, map[string][]byte{"a": []byte("v1")}, w.uids["xr1"])
			if k := w.composedKey("xr1", "r0"); k.Namespace != "ns-a" {
				t.Fatalf("composed resource is %s, want it in namespace ns-a", k)
			}
		}},
		{"pt-cross-namespace-ref-decoy-only", scenario{Seed: 5, Steps: 1, XRs: []xrSpec{xr1(true, secretSpec{})}, Res: []resSpec{{Name: "r0", Kind: "KindA", SecretRef: true, NS: "ns-b", RefNS: "", Decoy: dec, Details: []ptDetail{
			{FromKey: ptr.To("a")}, {Value: ptr.To("fixed"), Name: ptr.To("b")},
		}}}}, []step{rc(0), rc(0)}, func(t *testing.T, w *world) {
			wantData(t, w, xrKey, map[string][]byte{"b": []byte("fixed")}, w.uids["xr1"])
		}},
		{"pipeline-cross-namespace-ref-with-decoy-to-claim", nsPipe(dec, &claimSpec{HasRef: true}), []step{{Op: "provSecret", Data: map[string][]byte{"d": []byte("s3cr3t")}}, rc(0), rc(0), {Op: "claim"}}, func(t *testing.T, w *world) {
			want := map[string][]byte{"a": taggedValue("xr1", "t1", "a"), "b": []byte("v1"), "c": []byte("s3cr3t")}
			wantData(t, w, xrKey, want, w.uids["xr1"])
			wantData(t, w, clKey, want, w.claimUID)
			if k := w.composedKey("xr1", "r0"); k.Namespace != "ns-a" {
				t.Fatalf("composed resource is %s, want it in namespace ns-a", k)
			}
		}},
		{"pipeline-cross-namespace-ref-decoy-appears-later", nsPipe(nil, nil), []step{{Op: "provSecret", Data: map[string][]byte{"d": []byte("s3cr3t")}}, rc(0), rc(0), {Op: "decoy", Data: dec}, {Op: "tag", Str: "t2"}, rc(0)}, func(t *testing.T, w *world) {
			wantData(t, w, xrKey, map[string][]byte{"a": taggedValue("xr1", "t2", "a"), "b": []byte("v1"), "c": []byte("s3cr3t")}, w.uids["xr1"])
		}},
	}...)
	// This XR's references name a resource another XR controls; the lagging cache does not hold it yet.
	foreign := map[string][]byte{"d": []byte("FOREIGN-1"), "a": []byte("FOREIGN-2")}
	echoAll := func() scenario {
		sc := pipe(nil, xr1(true, secretSpec{}), nil)
		sc.FnDetails = append(sc.FnDetails, fnDetail{Key: "x", Kind: srcEchoAll, Res: "r0", Step: 0})
		return sc
	}
	rows = append(rows, []struct {
		name   string
		sc     scenario
		hist   []step
		expect func(t *testing.T, w *world)
	}{
		{"foreign-ref-cache-miss-own-resource-exists", echoAll(), []step{{Op: "provSecret", Data: map[string][]byte{"d": []byte("s3cr3t")}}, rc(0), rc(0), {Op: "foreignRef", Data: foreign}, {Op: "reconcile", Lag: true}, {Op: "tag", Str: "t2"}, {Op: "foreignRef", Data: foreign}, {Op: "reconcile", Lag: true}}, func(t *testing.T, w *world) {
			wantData(t, w, xrKey, map[string][]byte{"a": taggedValue("xr1", "t2", "a"), "b": []byte("v1"), "c": []byte("s3cr3t"), "d": []byte("s3cr3t")}, w.uids["xr1"])
		}},
		{"foreign-ref-cache-miss-before-own-resource", echoAll(), []step{{Op: "foreignRef", Data: foreign}, {Op: "reconcile", Lag: true}}, func(t *testing.T, w *world) {
			wantData(t, w, xrKey, map[string][]byte{"a": taggedValue("xr1", "t1", "a"), "b": []byte("v1")}, w.uids["xr1"])
		}},
		{"foreign-ref-cache-hit", echoAll(), []step{{Op: "foreignRef", Data: foreign}, rc(0)}, func(t *testing.T, w *world) {
			wantData(t, w, xrKey, map[string][]byte{"a": taggedValue("xr1", "t1", "a"), "b": []byte("v1")}, w.uids["xr1"])
		}},
	}...)
	for _, row := range rows {
		t.Run(row.name, func(t *testing.T) {
			rec.Eval()
			w := newWorld(row.sc, func(f string, a ...any) { t.Fatalf(f, a...) })
			w.run(row.hist, rec)
			row.expect(t, w)
		})
	}
}
