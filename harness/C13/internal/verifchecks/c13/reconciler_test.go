//go:build verif

package c13

import (
	"context"
	"fmt"
	"sort"
	"strings"
	"testing"

	"google.golang.org/protobuf/types/known/structpb"
	"k8s.io/apimachinery/pkg/apis/meta/v1/unstructured"
	"k8s.io/apimachinery/pkg/types"
	"k8s.io/utils/ptr"
	"pgregory.net/rapid"
	"sigs.k8s.io/controller-runtime/pkg/reconcile"

	"github.com/crossplane/crossplane-runtime/pkg/resource"

	fnv1 "github.com/crossplane/crossplane/apis/apiextensions/fn/proto/v1"
	v1 "github.com/crossplane/crossplane/apis/apiextensions/v1"
	"github.com/crossplane/crossplane/internal/controller/apiextensions/composite"
	"github.com/crossplane/crossplane/internal/controller/apiextensions/composite/watch"
	"github.com/crossplane/crossplane/internal/engine"
	"github.com/crossplane/crossplane/internal/verifenv"
	"github.com/crossplane/crossplane/internal/verifkit"
	"github.com/crossplane/crossplane/internal/verifsim"
)

// ---------------------------------------------------------------------------
// (4) the start requests come from the XR reconciler
//
// "A watch lost with its informer is re-established by the next start request": the start requests for
// composed-resource watches are issued by the XR reconciler (composite/reconciler.go, an anchor of this
// property), once per successful reconcile, for every kind the XR references. This test runs the real XR
// reconciler (one instance per controller start, as the definition controller builds it) against the real
// engine, watch garbage collector and InformerTrackingCache on the recording informers.

const rcCtrl = "xr"

// kindsRunner composes one resource per key of the XR's spec.params.kinds.
func kindsRunner() composite.FunctionRunner {
	return composite.FunctionRunnerFn(func(_ context.Context, _ string, req *fnv1.RunFunctionRequest) (*fnv1.RunFunctionResponse, error) {
		d := req.GetDesired()
		if d == nil {
			d = &fnv1.State{}
		}
		if d.Resources == nil {
			d.Resources = map[string]*fnv1.Resource{}
		}
		xr := req.GetObserved().GetComposite().GetResource()
		name := xr.GetFields()["metadata"].GetStructValue().GetFields()["name"].GetStringValue()
		kinds := xr.GetFields()["spec"].GetStructValue().GetFields()["params"].GetStructValue().GetFields()["kinds"].GetStructValue().GetFields()
		for k := range kinds {
			s, err := structpb.NewStruct(map[string]any{"apiVersion": "example.org/v1", "kind": k, "metadata": map[string]any{"name": name + "-" + strings.ToLower(k)}, "spec": map[string]any{"v": "x"}})
			if err != nil {
				return nil, err
			}
			d.Resources["res-"+k] = &fnv1.Resource{Resource: s, Ready: fnv1.Ready_READY_TRUE}
		}
		return &fnv1.RunFunctionResponse{Desired: d, Context: req.GetContext()}, nil
	})
}

type rcOp struct {
	Kind  string   `json:"op"`
	XR    string   `json:"xr,omitempty"`
	Kinds []string `json:"kinds,omitempty"`
	GVK   string   `json:"gvk,omitempty"`
}

func (o rcOp) String() string {
	switch o.Kind {
	case "reconcile":
		return "reconcile(" + o.XR + ")"
	case "setkinds":
		return fmt.Sprintf("setkinds(%s,%v)", o.XR, o.Kinds)
	case "gc", "restart":
		return o.Kind
	}
	return o.Kind + "(" + o.GVK + ")"
}

func genRcOp() *rapid.Generator[rcOp] {
	return rapid.Custom(func(t *rapid.T) rcOp {
		o := rcOp{Kind: rapid.SampledFrom([]string{"reconcile", "reconcile", "reconcile", "reconcile", "setkinds", "gc", "gc", "removeinformer", "stopwatches", "failget", "restart"}).Draw(t, "op")}
		switch o.Kind {
		case "reconcile":
			o.XR = rapid.SampledFrom([]string{"xr1", "xr2"}).Draw(t, "xr")
		case "setkinds":
			o.XR = rapid.SampledFrom([]string{"xr1", "xr2"}).Draw(t, "xr")
			o.Kinds = rapid.SliceOfNDistinct(rapid.SampledFrom(composedKinds), 0, 3, rapid.ID[string]).Draw(t, "kinds")
			sort.Strings(o.Kinds)
		case "removeinformer", "stopwatches", "failget":
			o.GVK = rapid.SampledFrom(composedKinds).Draw(t, "kind")
		}
		return o
	})
}

func setKinds(env *verifenv.XREnv, name string, kinds []string) {
	c := env.Sim.Client("user")
	xr := verifenv.NewUnstructuredXR(env.XRGVK, name)
	if err := c.Get(context.Background(), types.NamespacedName{Name: name}, xr); err != nil {
		panic(err)
	}
	m := map[string]any{}
	for _, k := range kinds {
		m[k] = "1"
	}
	_ = unstructured.SetNestedMap(xr.Object, m, "spec", "params", "kinds")
	if err := c.Update(context.Background(), xr); err != nil {
		panic(err)
	}
}

// liveComposedHandlers counts the live registrations on the informer of a composed kind that answer for the
// XR controller's composed-resource handler.
func (w *world) liveComposedHandlers(kind string) int {
	inf := w.cache.informer(gvk(kind))
	if inf == nil {
		return 0
	}
	n := 0
	for _, r := range inf.live() {
		w.hits.mu.Lock()
		w.hits.hits = nil
		w.hits.mu.Unlock()
		probe := &unstructured.Unstructured{}
		probe.SetGroupVersionKind(gvk(kind))
		probe.SetName("probe")
		r.handler.OnAdd(probe, false)
		w.hits.mu.Lock()
		for _, id := range w.hits.hits {
			if id.Controller == rcCtrl && id.Type == engine.WatchTypeComposedResource {
				n++
			}
		}
		w.hits.mu.Unlock()
	}
	return n
}

func TestVerifC13ReconcilerWatches(t *testing.T) {
	rec := verifkit.New(t, "C13", "real XR reconciler (one instance per controller start) + real engine + watch GC on recording informers: op sequences over 2 XRs (reconcile, user changes the composed kinds, watch GC, informer removal, StopWatches, one failing informer start, controller restart); oracle: after every successful reconcile of an XR that is Synced, every kind in its stored spec.resourceRefs has a listed composed-resource watch with exactly one live event handler (unless an informer start was made to fail in this reconcile: StartWatches stops at the first failure), and never more than one; non-trivial = a reconcile after a watch of a still-referenced kind was lost (GC, informer removal or StopWatches); distinct=(ops)")
	rapid.Check(t, func(t *rapid.T) {
		env := verifenv.NewXREnv()
		env.Runner = kindsRunner()
		w := newWorldOn(env.Sim)
		defer w.cleanup()
		ctx := context.Background()
		defer func() {
			w.cache.mu.Lock()
			w.cache.failGet = nil
			w.cache.failRemove = nil
			w.cache.mu.Unlock()
			_ = w.eng.Stop(ctx, rcCtrl)
		}()
		comp := &v1.Composition{}
		comp.SetName("comp")
		comp.Spec.CompositeTypeRef = v1.TypeReference{APIVersion: "example.org/v1", Kind: "XThing"}
		comp.Spec.Mode = ptr.To(v1.CompositionModePipeline)
		comp.Spec.Pipeline = []v1.PipelineStep{{Step: "compose", FunctionRef: v1.FunctionReference{Name: "fn"}}}
		env.InstallComposition(comp, 1)
		for _, n := range []string{"xr1", "xr2"} {
			xr := env.NewXR(n, "comp")
			m := map[string]any{}
			for _, k := range rapid.SliceOfNDistinct(rapid.SampledFrom(composedKinds), 0, 2, rapid.ID[string]).Draw(t, "initkinds") {
				m[k] = "1"
			}
			_ = unstructured.SetNestedMap(xr.Object, m, "spec", "params", "kinds")
			env.Sim.MustCreate("user", xr)
		}
		rec.Eval()
		h := &idHandler{id: handlerID{Controller: rcCtrl, Type: engine.WatchTypeComposedResource}, log: w.hits}
		env.Options = []composite.ReconcilerOption{composite.WithWatchStarter(rcCtrl, h, w.eng)}
		cl := env.Sim.Client("xr-controller")
		if err := w.eng.Start(rcCtrl, engine.WithNewControllerFn(w.newControllerFn)); err != nil {
			t.Fatal(err)
		}
		r := env.Reconciler(cl, cl)
		gc := watch.NewGarbageCollector(rcCtrl, resource.CompositeKind(env.XRGVK), w.eng)
		var hist []string
		lost := map[string]bool{} // kinds whose watch was taken away at some point
		interesting := false
		failArmed := map[string]bool{}
		n := rapid.IntRange(3, 16).Draw(t, "nops")
		for i := 0; i < n; i++ {
			o := genRcOp().Draw(t, "op")
			res := ""
			switch o.Kind {
			case "setkinds":
				setKinds(env, o.XR, o.Kinds)
			case "gc":
				before, _ := w.listed(rcCtrl)
				res = fmt.Sprint(gc.GarbageCollectWatchesNow(ctx))
				after, _ := w.listed(rcCtrl)
				for s := range before {
					if !after[s] {
						lost[s.GVK.Kind] = true
					}
				}
			case "removeinformer":
				if l, _ := w.listed(rcCtrl); l[watchSpec{engine.WatchTypeComposedResource, gvk(o.GVK)}] {
					lost[o.GVK] = true
				}
				w.mu.Lock()
				w.removed[gvk(o.GVK)] = true
				w.mu.Unlock()
				res = fmt.Sprint(w.infs.RemoveInformer(ctx, w.kindObj(gvk(o.GVK))))
			case "stopwatches":
				nstopped, err := w.eng.StopWatches(ctx, rcCtrl, engine.WatchID{Type: engine.WatchTypeComposedResource, GVK: gvk(o.GVK)})
				if nstopped > 0 {
					lost[o.GVK] = true
				}
				res = fmt.Sprint(nstopped, err)
			case "failget":
				w.cache.mu.Lock()
				w.cache.failGet[gvk(o.GVK)] = 1
				w.cache.mu.Unlock()
				failArmed[o.GVK] = true
			case "restart":
				// the definition controller stops the controller and, on the next start, builds a new reconciler
				res = fmt.Sprint(w.eng.Stop(ctx, rcCtrl))
				if err := w.eng.Start(rcCtrl, engine.WithNewControllerFn(w.newControllerFn)); err != nil {
					t.Fatalf("restart: %v; history %v", err, hist)
				}
				r = env.Reconciler(cl, cl)
			case "reconcile":
				_, err := r.Reconcile(ctx, reconcile.Request{NamespacedName: types.NamespacedName{Name: o.XR}})
				res = fmt.Sprint(err)
				xr := env.Sim.Get(env.XRKey(o.XR))
				synced := false
				if cs, ok := verifsim.Nested(xr, "status", "conditions").([]any); ok {
					for _, c := range cs {
						if m, ok := c.(map[string]any); ok && m["type"] == "Synced" && m["status"] == "True" {
							synced = true
						}
					}
				}
				// which informer starts were still armed to fail (not consumed) before / consumed by this reconcile
				w.cache.mu.Lock()
				consumed := map[string]bool{}
				for k := range failArmed {
					if w.cache.failGet[gvk(k)] == 0 {
						consumed[k] = true
						delete(failArmed, k)
					}
				}
				w.cache.mu.Unlock()
				if err == nil && synced && len(consumed) > 0 {
					// StartWatches stops at the first watch it cannot start, so one failing informer start makes the
					// whole request of this reconcile fail (the reconciler logs that and relies on polling).
					rec.Label("reconciler:informer-start-failed-in-this-reconcile")
				} else if err == nil && synced {
					listed, _ := w.listed(rcCtrl)
					kinds := map[string]bool{}
					if l, ok := verifsim.Nested(xr, "spec", "resourceRefs").([]any); ok {
						for _, e := range l {
							if m, ok := e.(map[string]any); ok {
								kinds[fmt.Sprint(m["kind"])] = true
							}
						}
					}
					for k := range kinds {
						if lost[k] {
							interesting = true
							rec.Label("reconciler:reconcile-after-watch-of-referenced-kind-was-lost")
							delete(lost, k)
						}
						if !listed[watchSpec{engine.WatchTypeComposedResource, gvk(k)}] {
							t.Fatalf("XR %s is Synced and references kind %s, but after its reconcile the engine lists no composed-resource watch for that kind (listed %v): the reconciler did not ask for it again; history %v", o.XR, k, sortedSpecs(listed), append(hist, o.String()+"="+res))
						}
						if c := w.liveComposedHandlers(k); c != 1 {
							t.Fatalf("XR %s is Synced and references kind %s, but after its reconcile that kind's informer has %d live composed-resource handlers of the controller, want exactly 1; history %v", o.XR, k, c, append(hist, o.String()+"="+res))
						}
					}
				}
			}
			hist = append(hist, o.String()+"="+res)
			for _, k := range composedKinds {
				if c := w.liveComposedHandlers(k); c > 1 {
					t.Fatalf("%d live composed-resource handlers for kind %s (at most one live watch per controller, type and kind); history %v", c, k, hist)
				}
			}
		}
		if interesting {
			rec.NonTrivial(strings.Join(hist, ";"), func() any { return hist })
		}
	})
}
