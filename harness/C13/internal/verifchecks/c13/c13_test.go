//go:build verif

// Package c13 decides property C13: the controller engine's dynamic
// controllers and watches stay consistent under any interleaving.
package c13

import (
	"context"
	"fmt"
	"sort"
	"strings"
	"sync"
	"testing"
	"time"

	corev1 "k8s.io/api/core/v1"
	"k8s.io/apimachinery/pkg/apis/meta/v1/unstructured"
	"k8s.io/apimachinery/pkg/runtime/schema"
	"pgregory.net/rapid"
	"sigs.k8s.io/controller-runtime/pkg/client"
	kcontroller "sigs.k8s.io/controller-runtime/pkg/controller"
	"sigs.k8s.io/controller-runtime/pkg/manager"

	"github.com/crossplane/crossplane-runtime/pkg/resource"
	"github.com/crossplane/crossplane-runtime/pkg/resource/unstructured/composite"

	v1 "github.com/crossplane/crossplane/apis/apiextensions/v1"
	"github.com/crossplane/crossplane/internal/controller/apiextensions/composite/watch"
	"github.com/crossplane/crossplane/internal/engine"
	"github.com/crossplane/crossplane/internal/verifkit"
	"github.com/crossplane/crossplane/internal/verifsim"
)

var (
	ctrlNames = []string{"c0", "c1"}
	// PrefixList is an ordinary (non-list) kind whose name happens to end in "List": informer tracking must key
	// it by its real kind (only object LISTS have their "List" suffix trimmed).
	composedKinds = []string{"KindA", "KindB", "PrefixList"}
	revGVK        = v1.CompositionRevisionGroupVersionKind
)

func gvk(kind string) schema.GroupVersionKind {
	return schema.GroupVersionKind{Group: "example.org", Version: "v1", Kind: kind}
}

func xrKind(ctrl string) string    { return "X" + strings.ToUpper(ctrl) }
func claimKind(ctrl string) string { return "Claim" + strings.ToUpper(ctrl) }

// watchSpec names one watch of a controller.
type watchSpec struct {
	Type engine.WatchType
	GVK  schema.GroupVersionKind
}

func (w watchSpec) String() string { return string(w.Type) + ":" + w.GVK.Kind }

// allWatches lists every watch a controller may ask for.
func allWatches(ctrl string) []watchSpec {
	ws := []watchSpec{
		{engine.WatchTypeCompositeResource, gvk(xrKind(ctrl))},
		{engine.WatchTypeCompositionRevision, revGVK},
		{engine.WatchTypeClaim, gvk(claimKind(ctrl))},
	}
	for _, k := range composedKinds {
		ws = append(ws, watchSpec{engine.WatchTypeComposedResource, gvk(k)})
	}
	return ws
}

// world wires the real engine to the fakes.
type world struct {
	sim   *verifsim.Sim
	y     *sched
	cache *fakeCache
	infs  *yieldingInfs
	eng   *engine.ControllerEngine
	hits  *hitLog

	mu         sync.Mutex
	instances_ map[string][]*fakeController
	failNext   map[string]bool
	removed    map[schema.GroupVersionKind]bool // RemoveInformer was issued for this kind at some point
}

func newWorld() *world { return newWorldOn(verifsim.New(verifsim.NewScheme())) }

func newWorldOn(s *verifsim.Sim) *world {
	y := newSched()
	fc := newFakeCache(s.Scheme, y)
	w := &world{sim: s, y: y, cache: fc, hits: &hitLog{}, instances_: map[string][]*fakeController{}, failNext: map[string]bool{}, removed: map[schema.GroupVersionKind]bool{}}
	w.infs = &yieldingInfs{InformerTrackingCache: engine.TrackInformers(fc, s.Scheme), y: y}
	mgr := &fakeManager{scheme: s.Scheme, elected: make(chan struct{})}
	close(mgr.elected)
	c := s.Client("engine")
	w.eng = engine.New(mgr, w.infs, c, c)
	return w
}

func (w *world) newControllerFn(name string, _ manager.Manager, _ kcontroller.Options) (kcontroller.Controller, error) {
	w.y.yield("NewControllerFn " + name)
	w.mu.Lock()
	defer w.mu.Unlock()
	fc := &fakeController{name: name, y: w.y, failing: w.failNext[name], quit: make(chan struct{})}
	w.failNext[name] = false
	w.instances_[name] = append(w.instances_[name], fc)
	return fc, nil
}

func (w *world) kindObj(g schema.GroupVersionKind) client.Object {
	if g == revGVK {
		return &v1.CompositionRevision{}
	}
	u := &unstructured.Unstructured{}
	u.SetGroupVersionKind(g)
	return u
}

func (w *world) watchFor(ctrl string, ws watchSpec) engine.Watch {
	return engine.WatchFor(w.kindObj(ws.GVK), ws.Type, &idHandler{id: handlerID{Controller: ctrl, Type: ws.Type, GVK: ws.GVK}, log: w.hits})
}

// ---------------------------------------------------------------------------
// operations

type op struct {
	Kind    string      `json:"op"`
	Ctrl    string      `json:"ctrl,omitempty"`
	Failing bool        `json:"failing,omitempty"`
	Watches []watchSpec `json:"watches,omitempty"`
	GVK     string      `json:"gvk,omitempty"`
}

func (o op) String() string {
	switch o.Kind {
	case "Start":
		return fmt.Sprintf("Start(%s,failing=%v)", o.Ctrl, o.Failing)
	case "StartWatches", "StopWatches":
		return fmt.Sprintf("%s(%s,%v)", o.Kind, o.Ctrl, o.Watches)
	case "RemoveInformer", "FailGet", "FailRemove":
		return o.Kind + "(" + o.GVK + ")"
	}
	return o.Kind + "(" + o.Ctrl + ")"
}

func genOp(lifecycle bool) *rapid.Generator[op] {
	return rapid.Custom(func(t *rapid.T) op {
		ctrl := rapid.SampledFrom(ctrlNames).Draw(t, "ctrl")
		kinds := []string{"StartWatches", "StartWatches", "StartWatches", "StopWatches", "GetWatches", "IsRunning", "GC", "RemoveInformer", "FailGet", "FailRemove"}
		if lifecycle {
			kinds = append(kinds, "Start", "Start", "Stop")
		}
		o := op{Kind: rapid.SampledFrom(kinds).Draw(t, "op"), Ctrl: ctrl}
		switch o.Kind {
		case "Start":
			o.Failing = rapid.IntRange(0, 5).Draw(t, "failing") == 0
		case "StartWatches", "StopWatches":
			all := allWatches(ctrl)
			n := rapid.IntRange(1, 3).Draw(t, "nw")
			for i := 0; i < n; i++ {
				o.Watches = append(o.Watches, rapid.SampledFrom(all).Draw(t, "w"))
			}
		case "RemoveInformer", "FailGet", "FailRemove":
			o.GVK = rapid.SampledFrom(append(append([]string{}, composedKinds...), xrKind(ctrl))).Draw(t, "rmkind")
		}
		return o
	})
}

// exec runs one operation against the real engine and returns a one-line result.
func (w *world) exec(o op) string {
	ctx := context.Background()
	switch o.Kind {
	case "Start":
		w.mu.Lock()
		w.failNext[o.Ctrl] = o.Failing
		w.mu.Unlock()
		err := w.eng.Start(o.Ctrl, engine.WithNewControllerFn(w.newControllerFn))
		return fmt.Sprint(err)
	case "Stop":
		return fmt.Sprint(w.eng.Stop(ctx, o.Ctrl))
	case "IsRunning":
		return fmt.Sprint(w.eng.IsRunning(o.Ctrl))
	case "StartWatches":
		var ws []engine.Watch
		for _, s := range o.Watches {
			ws = append(ws, w.watchFor(o.Ctrl, s))
		}
		return fmt.Sprint(w.eng.StartWatches(o.Ctrl, ws...))
	case "StopWatches":
		var ids []engine.WatchID
		for _, s := range o.Watches {
			ids = append(ids, engine.WatchID{Type: s.Type, GVK: s.GVK})
		}
		n, err := w.eng.StopWatches(ctx, o.Ctrl, ids...)
		return fmt.Sprint(n, err)
	case "GetWatches":
		ids, err := w.eng.GetWatches(o.Ctrl)
		return fmt.Sprint(len(ids), err)
	case "GC":
		gc := watch.NewGarbageCollector(o.Ctrl, resource.CompositeKind(gvk(xrKind(o.Ctrl))), w.eng)
		return fmt.Sprint(gc.GarbageCollectWatchesNow(ctx))
	case "FailGet":
		w.cache.mu.Lock()
		w.cache.failGet[gvk(o.GVK)] = 1
		w.cache.mu.Unlock()
		return "armed"
	case "FailRemove":
		w.cache.mu.Lock()
		w.cache.failRemove[gvk(o.GVK)] = 1
		w.cache.mu.Unlock()
		return "armed"
	case "RemoveInformer":
		w.mu.Lock()
		w.removed[gvk(o.GVK)] = true
		w.mu.Unlock()
		return fmt.Sprint(w.infs.RemoveInformer(ctx, w.kindObj(gvk(o.GVK))))
	}
	return "?"
}

// cleanup stops every controller so that a finished case leaves no goroutines behind (20 000 cases per shard
// in the thorough tier would otherwise accumulate blocked controller goroutines until the process is killed).
func (w *world) cleanup() {
	w.y.mu.Lock()
	w.y.enabled = false
	w.y.mu.Unlock()
	w.cache.mu.Lock()
	w.cache.failGet = map[schema.GroupVersionKind]int{}
	w.cache.failRemove = map[schema.GroupVersionKind]int{}
	w.cache.mu.Unlock()
	// Bounded: after a detected deadlock the engine's locks are held for good and Stop would hang with them -
	// the failure must still be reported (a hanging cleanup turns a violation into a timeout).
	done := make(chan struct{})
	go func() {
		defer close(done)
		for _, c := range ctrlNames {
			_ = w.eng.Stop(context.Background(), c)
		}
	}()
	select {
	case <-done:
	case <-time.After(3 * time.Second):
	}
	// instances that were created but are no longer tracked by the engine (seeded defects may orphan them)
	w.mu.Lock()
	for _, l := range w.instances_ {
		for _, fc := range l {
			fc.abandon()
		}
	}
	w.mu.Unlock()
}

// seedXRs stores XRs of the controller's kind referencing the given composed kinds.
func (w *world) seedXRs(ctrl string, refs [][]string) {
	for i, kinds := range refs {
		xr := composite.New(composite.WithGroupVersionKind(gvk(xrKind(ctrl))))
		xr.SetName(fmt.Sprintf("%s-xr%d", ctrl, i))
		var rr []corev1.ObjectReference
		for j, k := range kinds {
			rr = append(rr, corev1.ObjectReference{APIVersion: "example.org/v1", Kind: k, Name: fmt.Sprintf("cd%d", j)})
		}
		xr.SetResourceReferences(rr)
		w.sim.MustCreate("setup", xr)
	}
}

// ---------------------------------------------------------------------------
// observations shared by the tests

func (w *world) listed(ctrl string) (map[watchSpec]bool, bool) {
	ids, err := w.eng.GetWatches(ctrl)
	if err != nil {
		return nil, false
	}
	out := map[watchSpec]bool{}
	for _, id := range ids {
		out[watchSpec{id.Type, id.GVK}] = true
	}
	return out, true
}

// instances reports the live (started, context not cancelled) and the pending (created, but the engine's
// goroutine has not called Start yet) controller instances of a name. A pending instance is neither proof of a
// running controller nor of a leaked one: the goroutine may simply not have been scheduled yet.
func (w *world) instances(ctrl string) (alive, pending int) {
	w.mu.Lock()
	defer w.mu.Unlock()
	for _, fc := range w.instances_[ctrl] {
		if fc.failing {
			continue
		}
		fc.mu.Lock()
		started := fc.started
		fc.mu.Unlock()
		switch {
		case !started:
			pending++
		case !fc.cancelled():
			alive++
		}
	}
	return alive, pending
}

// instancesOK is the property's "running exactly from a successful start until its stop" at the level of
// controller instances: a running controller has exactly one live instance, a stopped one has none.
func (w *world) instancesOK(ctrl string, running bool) (bool, int, int) {
	a, p := w.instances(ctrl)
	if running {
		return a <= 1 && a+p >= 1, a, p
	}
	return a == 0, a, p
}

func (w *world) aliveInstances(ctrl string) int { a, _ := w.instances(ctrl); return a }

// settle waits (bounded) for the engine's own goroutines to finish reacting.
func (w *world) settle(cond func() bool) {
	deadline := time.Now().Add(2 * time.Second)
	for time.Now().Before(deadline) {
		if cond() {
			return
		}
		time.Sleep(200 * time.Microsecond)
	}
}

func sortedSpecs(m map[watchSpec]bool) []string {
	var out []string
	for k := range m {
		out = append(out, k.String())
	}
	sort.Strings(out)
	return out
}

// ---------------------------------------------------------------------------
// (1) sequential model-based test: exact oracle from the property text

func TestVerifC13Sequential(t *testing.T) {
	rec := verifkit.New(t, "C13", "single-goroutine op sequences over 2 controllers x 6 watches against an exact model (running set, watch set) and live handler registrations on recording informers; non-trivial = sequence with a Stop or RemoveInformer after a StartWatches; distinct=(ops)")
	rapid.Check(t, func(t *rapid.T) {
		w := newWorld()
		defer w.cleanup()
		for _, c := range ctrlNames {
			w.seedXRs(c, [][]string{{"KindA"}})
		}
		rec.Eval()
		running := map[string]bool{}
		watches := map[string]map[watchSpec]bool{}
		n := rapid.IntRange(1, 14).Draw(t, "nops")
		var hist []string
		interesting, started := false, false
		// One case in six starts with the "informer replaced behind a watch" shape: c0 watches K, K's informer is
		// removed, ANOTHER controller's watch re-creates an informer for K, then c0 asks for its (existing) watch
		// again - "a watch lost with its informer is re-established by the next start request".
		var script []op
		if rapid.IntRange(0, 5).Draw(t, "replaced") == 0 {
			k := rapid.SampledFrom(composedKinds).Draw(t, "rkind")
			ws := []watchSpec{{engine.WatchTypeComposedResource, gvk(k)}}
			script = []op{{Kind: "Start", Ctrl: "c0"}, {Kind: "Start", Ctrl: "c1"}, {Kind: "StartWatches", Ctrl: "c0", Watches: ws},
				{Kind: "RemoveInformer", GVK: k}, {Kind: "StartWatches", Ctrl: "c1", Watches: ws}, {Kind: "StartWatches", Ctrl: "c0", Watches: ws}}
			rec.Label("directed:informer-replaced-behind-a-watch")
		}
		for i := 0; i < n || len(script) > 0; i++ {
			var o op
			if len(script) > 0 {
				o, script = script[0], script[1:]
			} else {
				o = genOp(true).Draw(t, "op")
			}
			if o.Kind == "GC" {
				continue // the collector's semantics are decided by TestVerifC13GC
			}
			o.Failing = false
			// One StartWatches in four is a "flaky start": the informer of its first kind fails once, and the
			// request is retried twice - what a controller whose reconcile failed does on its next reconciles.
			batch := []op{o}
			if o.Kind == "StartWatches" && len(script) == 0 && rapid.IntRange(0, 3).Draw(t, "flaky") == 0 {
				batch = []op{{Kind: "FailGet", Ctrl: o.Ctrl, GVK: o.Watches[0].GVK.Kind}, o, o, o}
				rec.Label("flaky-startwatches-retried")
			}
			for _, o := range batch {
				res := w.exec(o)
				hist = append(hist, o.String()+"="+res)
				switch o.Kind {
				case "Start":
					if !running[o.Ctrl] {
						running[o.Ctrl] = true
						watches[o.Ctrl] = map[watchSpec]bool{}
					}
				case "Stop":
					if running[o.Ctrl] && started {
						interesting = true
					}
					if res != "<nil>" {
						// An injected informer failure made Stop fail half-way: the controller keeps running and which of
						// its watches were already stopped depends on map order. Re-synchronise the model from the engine's
						// own listing; the invariants below (no unlisted live handler, at most one, ...) still bind.
						rec.Label("stop-failed")
						if !w.eng.IsRunning(o.Ctrl) {
							t.Fatalf("Stop(%s) returned %q but the controller is no longer reported running; history %v", o.Ctrl, res, hist)
						}
						l, _ := w.listed(o.Ctrl)
						watches[o.Ctrl] = l
						break
					}
					running[o.Ctrl] = false
					watches[o.Ctrl] = nil
				case "StartWatches":
					if !running[o.Ctrl] {
						if res == "<nil>" {
							t.Fatalf("StartWatches on a controller that is not running succeeded; history %v", hist)
						}
						break
					}
					if res != "<nil>" {
						if !strings.Contains(res, "injected") {
							t.Fatalf("StartWatches failed: %s; history %v", res, hist)
						}
						rec.Label("startwatches-failed")
						l, _ := w.listed(o.Ctrl)
						watches[o.Ctrl] = l
						break
					}
					started = true
					for _, s := range o.Watches {
						watches[o.Ctrl][s] = true
					}
					// "a watch lost with its informer is re-established by the next start request"; "at most one live watch"
					att := attribute(w.cache, w.hits)
					for _, s := range o.Watches {
						if c := att[handlerID{o.Ctrl, s.Type, s.GVK}]; c != 1 {
							if c == 0 && verifkit.OpenFinding("C13", "shared-informer-restart") && w.sharedRestart(o.Ctrl, s) {
								rec.Label("known:shared-informer-restart")
								continue
							}
							t.Fatalf("after StartWatches(%s, %v) the watch %v has %d live event handlers, want exactly 1; history %v", o.Ctrl, o.Watches, s, c, hist)
						}
					}
				case "StopWatches":
					if running[o.Ctrl] {
						if strings.Contains(res, "injected") {
							rec.Label("stopwatches-failed")
							interesting = true
							l, _ := w.listed(o.Ctrl)
							// a watch whose stop failed must still be listed: it is still live
							watches[o.Ctrl] = l
							break
						}
						for _, s := range o.Watches {
							delete(watches[o.Ctrl], s)
						}
					}
				case "RemoveInformer":
					if started {
						interesting = true
					}
				}
				// invariants after every step
				for _, c := range ctrlNames {
					if got := w.eng.IsRunning(c); got != running[c] {
						t.Fatalf("IsRunning(%s)=%v, model says %v; history %v", c, got, running[c], hist)
					}
					l, ok := w.listed(c)
					if ok != running[c] {
						t.Fatalf("GetWatches(%s) ok=%v but running=%v; history %v", c, ok, running[c], hist)
					}
					if ok && fmt.Sprint(sortedSpecs(l)) != fmt.Sprint(sortedSpecs(watches[c])) {
						t.Fatalf("GetWatches(%s)=%v, model says %v; history %v", c, sortedSpecs(l), sortedSpecs(watches[c]), hist)
					}
					w.settle(func() bool {
						a, p := w.instances(c)
						return p == 0 && ((running[c] && a == 1) || (!running[c] && a == 0))
					})
					if ok, a, p := w.instancesOK(c, running[c]); !ok {
						t.Fatalf("controller %s: running=%v but %d live (started, uncancelled) and %d pending controller instances; history %v", c, running[c], a, p, hist)
					}
				}
				att := attribute(w.cache, w.hits)
				for id, c := range att {
					if c > 1 {
						t.Fatalf("%d live event handlers for %v (at most one live watch per controller, type and kind); history %v", c, id, hist)
					}
					if !running[id.Controller] {
						t.Fatalf("controller %s is stopped but still has a live event handler %v; history %v", id.Controller, id, hist)
					}
					if !watches[id.Controller][watchSpec{id.Type, id.GVK}] {
						t.Fatalf("live event handler %v for a watch the engine does not list (leaked); history %v", id, hist)
					}
				}
			}
		}
		if interesting {
			rec.NonTrivial(strings.Join(hist, ";"), func() any { return hist })
		}
	})
}

// sharedRestart recognises known finding shared-informer-restart: the watch is recorded by the engine, its
// informer was removed and has since been re-created by a different watch on the same kind.
func (w *world) sharedRestart(ctrl string, s watchSpec) bool {
	w.mu.Lock()
	defer w.mu.Unlock()
	return w.removed[s.GVK]
}

// ---------------------------------------------------------------------------
// (2) garbage collection semantics

func TestVerifC13GC(t *testing.T) {
	rec := verifkit.New(t, "C13", "generated XR sets with resource references and generated running watch sets; oracle: GarbageCollectWatchesNow stops exactly the composed-resource watches whose kind no XR of that controller references; XR, claim and composition-revision watches stay live; non-trivial = both used and unused composed kinds are watched; distinct=(refs,watches)")
	rapid.Check(t, func(t *rapid.T) {
		w := newWorld()
		defer w.cleanup()
		rec.Eval()
		ctrl := "c0"
		nxr := rapid.IntRange(0, 3).Draw(t, "nxr")
		used := map[string]bool{}
		var refs [][]string
		for i := 0; i < nxr; i++ {
			ks := rapid.SliceOfNDistinct(rapid.SampledFrom(composedKinds), 0, 3, rapid.ID[string]).Draw(t, "refs")
			refs = append(refs, ks)
			for _, k := range ks {
				used[k] = true
			}
		}
		w.seedXRs(ctrl, refs)
		// another controller's XRs must not count
		w.seedXRs("c1", [][]string{composedKinds})
		if err := w.eng.Start(ctrl, engine.WithNewControllerFn(w.newControllerFn)); err != nil {
			t.Fatal(err)
		}
		specs := rapid.SliceOfNDistinct(rapid.SampledFrom(allWatches(ctrl)), 1, 6, func(s watchSpec) string { return s.String() }).Draw(t, "watches")
		var ws []engine.Watch
		for _, s := range specs {
			ws = append(ws, w.watchFor(ctrl, s))
		}
		if err := w.eng.StartWatches(ctrl, ws...); err != nil {
			t.Fatal(err)
		}
		gc := watch.NewGarbageCollector(ctrl, resource.CompositeKind(gvk(xrKind(ctrl))), w.eng)
		if err := gc.GarbageCollectWatchesNow(context.Background()); err != nil {
			t.Fatalf("GarbageCollectWatchesNow: %v", err)
		}
		l, _ := w.listed(ctrl)
		att := attribute(w.cache, w.hits)
		hasUsed, hasUnused := false, false
		for _, s := range specs {
			live := att[handlerID{ctrl, s.Type, s.GVK}]
			wantLive := 1
			if s.Type == engine.WatchTypeComposedResource {
				if used[s.GVK.Kind] {
					hasUsed = true
				} else {
					hasUnused = true
					wantLive = 0
				}
			}
			if live != wantLive || l[s] != (wantLive == 1) {
				t.Fatalf("after watch garbage collection with XR references %v: watch %v has %d live handlers (listed=%v), want %d; watches were %v", refs, s, live, l[s], wantLive, specs)
			}
		}
		if hasUsed && hasUnused {
			rec.NonTrivial(fmt.Sprint(refs, specs), func() any { return map[string]any{"xrRefs": refs, "watches": fmt.Sprint(specs)} })
		}
		if nxr == 0 {
			rec.Label("gc:no-xrs")
		}
	})
}

// ---------------------------------------------------------------------------
// (3) concurrent schedules

type caseResult struct {
	trace []string
	hist  [][]string
}

func TestVerifC13Concurrent(t *testing.T) {
	rec := verifkit.New(t, "C13", "2-4 goroutines x op lists over 2 controllers; every call into the informers/cache/controller fakes is a scheduling point and the schedule is drawn by rapid; oracle at quiescence: no deadlock, running <=> exactly one live controller instance, <=1 live handler per (controller,type,kind), none for stopped controllers, none unlisted; then a sequential epilogue (StartWatches re-establishes, Stop removes everything); built with -race; non-trivial = >=2 goroutines touch the same controller with >=1 StartWatches; distinct=(ops,schedule)")
	rapid.Check(t, func(t *rapid.T) {
		w := newWorld()
		defer w.cleanup()
		for _, c := range ctrlNames {
			w.seedXRs(c, [][]string{{"KindA"}})
		}
		rec.Eval()
		// a prefix executed sequentially puts the engine into an interesting state
		pre := rapid.SliceOfN(genOp(true), 0, 4).Draw(t, "prefix")
		var preHist []string
		for _, o := range pre {
			o.Failing = false
			if o.Kind == "FailGet" || o.Kind == "FailRemove" {
				continue
			}
			preHist = append(preHist, o.String()+"="+w.exec(o))
		}
		nw := rapid.IntRange(2, 4).Draw(t, "workers")
		lists := make([][]op, nw)
		// lifecycle ops (Start/Stop) of one controller come from at most one goroutine, so that the final
		// running state is determined by program order.
		owner := map[string]int{}
		for _, c := range ctrlNames {
			owner[c] = rapid.IntRange(0, nw-1).Draw(t, "owner")
		}
		touch := map[string]map[int]bool{}
		foreignStart := map[string]bool{}
		startWatches := false
		for i := range lists {
			n := rapid.IntRange(1, 4).Draw(t, "nops")
			for j := 0; j < n; j++ {
				o := genOp(true).Draw(t, "op")
				if o.Kind == "Stop" && owner[o.Ctrl] != i {
					o.Kind = "IsRunning"
				}
				if o.Kind == "Start" && owner[o.Ctrl] != i {
					// Another goroutine may race the owner's Start of the same name; program order then no longer
					// determines the final state, the consistency invariants still do.
					foreignStart[o.Ctrl] = true
				}
				if o.Kind == "FailGet" || o.Kind == "FailRemove" {
					o.Kind = "GetWatches" // failure injection is exercised sequentially only
				}
				lists[i] = append(lists[i], o)
				if touch[o.Ctrl] == nil {
					touch[o.Ctrl] = map[int]bool{}
				}
				touch[o.Ctrl][i] = true
				if o.Kind == "StartWatches" {
					startWatches = true
				}
			}
		}
		hist := make([][]string, nw)
		w.y.mu.Lock()
		w.y.enabled = true
		w.y.mu.Unlock()
		var wg sync.WaitGroup
		ready := make(chan struct{}, nw)
		for i := range lists {
			wg.Add(1)
			go func(i int) {
				defer wg.Done()
				w.y.register(fmt.Sprintf("g%d", i))
				defer w.y.finish()
				ready <- struct{}{}
				w.y.yield("begin")
				for _, o := range lists[i] {
					res := w.exec(o)
					hist[i] = append(hist[i], o.String()+"="+res)
					w.y.yield("between ops")
				}
			}(i)
		}
		for range lists {
			<-ready
		}
		res := w.y.run(func(n int) int { return rapid.IntRange(0, n-1).Draw(t, "sched") }, 3*time.Millisecond, 3*time.Second)
		if res.deadlock {
			t.Fatalf("DEADLOCK: every goroutine is blocked on a mutex.\nprefix %v\nops %v\nschedule %v\n%s", preHist, lists, w.y.trace, firstLines(res.stacks, 80))
		}
		if res.inconclusive != "" {
			t.Logf("VERIF-INCONCLUSIVE: %s", res.inconclusive)
			t.Skip()
		}
		wg.Wait()
		w.y.mu.Lock()
		w.y.enabled = false
		trace := append([]string(nil), w.y.trace...)
		w.y.mu.Unlock()
		ctxmsg := fmt.Sprintf("\nprefix %v\nper-goroutine history %v\nschedule %v", preHist, hist, trace)

		// expected running state from program order of the owner goroutine (prefix, then its list)
		for _, c := range ctrlNames {
			want, known := false, !foreignStart[c]
			for _, o := range pre {
				if o.Ctrl == c && o.Kind == "Start" {
					want = true
				}
				if o.Ctrl == c && o.Kind == "Stop" {
					want = false
				}
			}
			for _, o := range lists[owner[c]] {
				if o.Ctrl == c && o.Kind == "Start" {
					if o.Failing {
						// A controller whose asynchronous start fails is cleaned up by the engine at a moment the
						// program order does not determine; only the consistency checks below apply.
						known = false
					}
					want = true
				}
				if o.Ctrl == c && o.Kind == "Stop" {
					want = false
				}
			}
			w.settle(func() bool {
				r := w.eng.IsRunning(c)
				a, p := w.instances(c)
				return (!known || r == want) && p == 0 && ((r && a == 1) || (!r && a == 0))
			})
			got := w.eng.IsRunning(c)
			if known && got != want {
				t.Fatalf("IsRunning(%s)=%v at quiescence, program order of its owning goroutine says %v%s", c, got, want, ctxmsg)
			}
			if ok, a, p := w.instancesOK(c, got); !ok {
				t.Fatalf("controller %s: IsRunning=%v but %d live (started, uncancelled) and %d pending controller instances%s", c, got, a, p, ctxmsg)
			}
		}
		att := attribute(w.cache, w.hits)
		for id, n := range att {
			if n > 1 {
				t.Fatalf("%d live event handlers for %v: at most one live watch per controller, watch type and kind%s", n, id, ctxmsg)
			}
			if !w.eng.IsRunning(id.Controller) {
				t.Fatalf("controller %s is not running but still has a live event handler %v%s", id.Controller, id, ctxmsg)
			}
			l, _ := w.listed(id.Controller)
			if !l[watchSpec{id.Type, id.GVK}] {
				t.Fatalf("live event handler %v belongs to no watch the engine lists (leaked handler, Stop will never remove it)%s", id, ctxmsg)
			}
		}
		// sequential epilogue
		for _, c := range ctrlNames {
			if !w.eng.IsRunning(c) {
				continue
			}
			all := allWatches(c)
			var ws []engine.Watch
			for _, s := range all {
				ws = append(ws, w.watchFor(c, s))
			}
			if err := w.eng.StartWatches(c, ws...); err != nil {
				t.Fatalf("epilogue StartWatches(%s): %v%s", c, err, ctxmsg)
			}
			att := attribute(w.cache, w.hits)
			for _, s := range all {
				if n := att[handlerID{c, s.Type, s.GVK}]; n != 1 {
					if n == 0 && verifkit.OpenFinding("C13", "shared-informer-restart") && w.removed[s.GVK] {
						continue
					}
					t.Fatalf("epilogue: after StartWatches the watch %v of %s has %d live handlers, want 1%s", s, c, n, ctxmsg)
				}
			}
			if err := w.eng.Stop(context.Background(), c); err != nil {
				t.Fatalf("epilogue Stop(%s): %v%s", c, err, ctxmsg)
			}
			att = attribute(w.cache, w.hits)
			for id, n := range att {
				if id.Controller == c && n > 0 {
					t.Fatalf("epilogue: after Stop(%s) a live event handler remains: %v%s", c, id, ctxmsg)
				}
			}
			w.settle(func() bool { a, p := w.instances(c); return a == 0 && p == 0 })
			if w.eng.IsRunning(c) || w.aliveInstances(c) != 0 {
				t.Fatalf("epilogue: after Stop(%s) IsRunning=%v, live instances=%d%s", c, w.eng.IsRunning(c), w.aliveInstances(c), ctxmsg)
			}
		}
		shared := false
		for _, m := range touch {
			if len(m) >= 2 {
				shared = true
			}
		}
		if shared && startWatches {
			rec.NonTrivial(fmt.Sprint(lists, trace), func() any { return map[string]any{"prefix": preHist, "ops": fmt.Sprint(lists), "schedule": trace} })
		}
		rec.Labelf("workers=%d", nw)
	})
}

func firstLines(s string, n int) string {
	l := strings.SplitN(s, "\n", n+1)
	if len(l) > n {
		l = l[:n]
	}
	return strings.Join(l, "\n")
}
