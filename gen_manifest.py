#!/usr/bin/env python3
"""Regenerates MANIFEST.json from checks.json + manifest_meta.json (kept valid at all times)."""
import json, os, glob
V = os.path.dirname(os.path.abspath(__file__))
cfg = json.load(open(os.path.join(V, "checks.json")))
meta = json.load(open(os.path.join(V, "manifest_meta.json")))
for fn in sorted(glob.glob(os.path.join(V, "checks.d", "*.json"))):
    cfg.update(json.load(open(fn)))
for fn in sorted(glob.glob(os.path.join(V, "meta.d", "*.json"))):
    meta["checks"].update(json.load(open(fn)))
props = [json.loads(l) for l in open(os.path.join(V, "properties.jsonl"))]
enabled = set(open(os.path.join(V, "enabled.txt")).read().split())
checks = []
na = []
for p in props:
    pid = p["id"]
    if pid in cfg and pid in meta["checks"] and pid in enabled:
        m = meta["checks"][pid]
        checks.append({
            "property_id": pid,
            "quick_cmd": "./check %s --tier quick" % pid,
            "thorough_cmd": "./check %s --tier thorough" % pid,
            "evidence_file": "/verif/evidence/%s.json" % pid,
            "replay_cmd_template": "./check %s --replay {path}" % pid,
            "engine": "rapid-harness",
            "level_claimed": {"category": cfg[pid]["level"], "text": m["text"], "design_ref": "DESIGN.md §4 " + pid},
            "level_note": m["note"],
            "technique": m["technique"],
        })
    else:
        na.append({"property_id": pid, "reason": meta.get("not_applicable", {}).get(pid, "check not built yet in this session; planned per DESIGN.md §4")})
man = {
    "version": 1,
    "setup_cmd": "./check --build-all",
    "hooks": {"guard": "verif", "enable": "go test -c -tags verif -overlay=/verif/build/<ID>/overlay.json -modfile=/verif/build/<ID>/go.mod (harness files are overlaid, /repo is not modified)",
              "baseline_off_cmd": meta["baseline_off_cmd"], "source_commits": [], "add_only": True},
    "engines": [{"name": "rapid-harness", "path": "/verif/check", "serves_properties": [c["property_id"] for c in checks],
                 "kind_free_text": "pgregory.net/rapid property-based tests (stateful where histories matter) and go native fuzzing compiled into /repo packages through a build overlay; verifsim simulated API server"}],
    "checks": checks,
    "notes": meta.get("notes", ""),
    "not_applicable": na,
}
json.dump(man, open(os.path.join(V, "MANIFEST.json"), "w"), indent=1)
print("checks:", [c["property_id"] for c in checks], "n/a:", len(na))
