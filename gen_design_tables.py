#!/usr/bin/env python3
"""Refreshes the generated tables of DESIGN.md §8 (between the BEGIN/END GENERATED markers)."""
import json, glob, os, re
V = os.path.dirname(os.path.abspath(__file__))
def findings():
    out = []
    for fn in [os.path.join(V, "known_findings.json")] + sorted(glob.glob(os.path.join(V, "known_findings.d", "*.json"))):
        d = json.load(open(fn))
        out += d["findings"] if isinstance(d, dict) else d
    return out
def esc(s): return str(s).replace("|", "\\|").replace("\n", " ")
lines = ["| property | key | status | commit | what |", "|---|---|---|---|---|"]
for f in sorted(findings(), key=lambda f: (f["property"], f["key"])):
    what = f["what"]
    if len(what) > 420: what = what[:417] + "..."
    lines.append("| %s | %s | **%s** | %s | %s |" % (f["property"], f["key"], f["status"], f.get("commit", "-"), esc(what)))
ledger = "\n".join(lines)
seeds = open(os.path.join(V, "seeded", "RESULTS.md")).read()
enabled = open(os.path.join(V, "enabled.txt")).read().split()
meta = {}
for fn in sorted(glob.glob(os.path.join(V, "meta.d", "*.json"))): meta.update(json.load(open(fn)))
cl = ["| property | level technique (as registered) |", "|---|---|"]
for pid in sorted(enabled):
    if pid in meta: cl.append("| %s | %s |" % (pid, esc(meta[pid]["technique"])))
gen = "<!-- BEGIN GENERATED -->\n### 8.2 Ledger of genuine defects (from known_findings.json and known_findings.d/)\n\n" + ledger + \
      "\n\n### 8.3 Seeded changes and which checks catch them\n\n" + seeds + "\n\n### 8.4 Registered checks\n\n" + "\n".join(cl) + "\n<!-- END GENERATED -->"
p = os.path.join(V, "DESIGN.md")
s = open(p).read()
if "<!-- BEGIN GENERATED -->" in s:
    s = re.sub(r"<!-- BEGIN GENERATED -->.*<!-- END GENERATED -->", lambda m: gen, s, flags=re.S)
else:
    s = s.replace("### 8.2 Genuine defects found on the unchanged tree\n\nSee `/verif/known_findings.json` (the ledger; `fixed` entries suppress nothing).\n", gen + "\n")
open(p, "w").write(s)
print("ok")
