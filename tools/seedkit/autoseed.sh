#!/bin/bash
# usage: autoseed.sh <name>   e.g. C01-e
N=$1; P=${N%%-*}
OUT=/tmp/seed/out/$N; WT=/tmp/seed/$N
F=$(ls $OUT/demo/*_test.go 2>/dev/null | head -1)
[ -z "$F" ] && { echo "$N: no demo test file"; exit 2; }
B=$(basename $F)
LOC=$(cd $WT && git status --short | awk '{print $2}' | grep "/$B$" | head -1)
[ -z "$LOC" ] && LOC=$(cd $WT && find . -name "$B" -not -path "./.git/*" | head -1)
PKG=./$(dirname $LOC | sed 's#^\./##')/
RE=$(grep -h "^func Test" $F | sed 's/func \(Test[A-Za-z0-9_]*\).*/\1/' | paste -sd'|')
echo "$N pkg=$PKG re=$RE"
/tmp/runseed.sh $N $P $PKG "^($RE)\$" 2>&1 | tail -3
