#!/bin/bash
# usage: run.sh <ID> "<checks to run>"
ID=$1; CHECKS=$2
WT=/tmp/benign/$ID
for i in 1 2 3; do
  D=/tmp/benign/out/$ID/benign-$i.diff
  [ -f $D ] || continue
  cd $WT && git checkout -q -- . && git apply $D || { echo "$ID benign-$i: cannot apply"; continue; }
  for c in $CHECKS; do
    cd /verif && VERIF_REPO=$WT ./check $c > /tmp/benign/out/$ID/run-$i-$c.log 2>&1; rc=$?
    echo "$ID benign-$i check=$c rc=$rc $(grep -v draw /tmp/benign/out/$ID/run-$i-$c.log | grep 'failed after' | head -1 | cut -c1-300)"
  done
  cd $WT && git checkout -q -- .
done
