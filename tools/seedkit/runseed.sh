#!/bin/bash
# usage: runseed.sh <name> <prop> <pkg> <regex>
N=$1; P=$2; PKG=$3; RE=$4
/verif/verify_seed.sh $N $PKG $RE 2>&1 | tail -2
cd /verif && (VERIF_REPO=/tmp/seed/$N ./check $P 2>&1 | grep -v draw | grep "failed after\|VIOLATION\|OK prop\|INCONCL" | cut -c1-260 | head -2)
