#!/bin/bash
# Applies every filed property-preserving ("benign") change to a scratch worktree of /repo HEAD and runs the
# property's quick check. Expected: exit 0 (silent) for every one. Usage: benign_regress.sh [pattern]
PAT=${1:-}
WT=/tmp/benign-regress-$$
git -C /repo worktree add --detach $WT HEAD -q || exit 2
cd /verif
for d in benign/C*/benign-*.diff; do
  p=$(basename $(dirname $d)); n=$p/$(basename $d .diff)
  [[ -n "$PAT" && ! "$n" =~ $PAT ]] && continue
  git -C $WT checkout -q -- . ; git -C $WT clean -fdq
  if ! git -C $WT apply /verif/$d 2>/dev/null; then echo "$n APPLY-FAILED"; continue; fi
  VERIF_REPO=$WT ./check $p > /tmp/benign-regress-$(echo $n | tr / -).log 2>&1; rc=$?
  echo "$n rc=$rc $( [ $rc -eq 0 ] && echo SILENT || echo ALARM-OR-INCONCLUSIVE )"
done
git -C /repo worktree remove --force $WT
