#!/bin/bash
# usage: verify_seed.sh <name e.g. C01-a> <go test pkg path> <test regex>
# Confirms in the seed worktree: demo fails with patch, passes without; then files it under /verif/seeded/<name>/
set -u
N=$1; PKG=$2; RE=$3
WT=/tmp/seed/$N; OUT=/tmp/seed/out/$N
export GOFLAGS=-mod=mod GOPROXY=off GOSUMDB=off GOTOOLCHAIN=local
cd $WT || exit 2
git diff --stat -- . ':!go.sum' | tail -3
echo "== with patch:"; go test -vet=off -count=1 -run "$RE" $PKG 2>&1 | tail -4; W=${PIPESTATUS[0]}
git apply -R $OUT/patch.diff || { echo "cannot revert"; exit 2; }
echo "== without patch:"; go test -vet=off -count=1 -run "$RE" $PKG 2>&1 | tail -3; WO=${PIPESTATUS[0]}
git apply $OUT/patch.diff
echo "with=$W without=$WO"
if [ $W -ne 0 ] && [ $WO -eq 0 ]; then
  mkdir -p /verif/seeded/$N && cp -r $OUT/patch.diff $OUT/meta.json $OUT/demo /verif/seeded/$N/ && echo FILED
fi
