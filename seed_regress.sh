#!/bin/bash
# Applies every filed seeded change to a scratch worktree of /repo HEAD and runs the property's quick check.
# Expected: exit 1 (caught) for every seed. Usage: seed_regress.sh [pattern]
PAT=${1:-}
WT=/tmp/seed-regress-$$
git -C /repo worktree remove --force $WT 2>/dev/null
git -C /repo worktree add --detach $WT HEAD -q || exit 2
cd /verif
for d in seeded/C*-*/; do
  n=$(basename $d); p=${n%%-*}
  [[ -n "$PAT" && ! "$n" =~ $PAT ]] && continue
  git -C $WT checkout -q -- . ; git -C $WT clean -fdq
  if ! git -C $WT apply /verif/$d/patch.diff 2>/dev/null; then echo "$n APPLY-FAILED"; continue; fi
  VERIF_REPO=$WT ./check $p > /tmp/seed-regress-$n.log 2>&1; rc=$?
  echo "$n rc=$rc $( [ $rc -eq 1 ] && echo CAUGHT || echo MISSED-OR-INCONCLUSIVE )"
done
git -C /repo worktree remove --force $WT
