#!/bin/bash
# usage: run_all.sh [tier] [seed]  - runs every enabled check, prints one line each
cd /verif
TIER=${1:-quick}; SEED=${2:-0}
for p in $(sort enabled.txt); do
  s=$(date +%s)
  VERIF_SEED=$SEED ./check $p --tier $TIER > /tmp/runall-$p.log 2>&1; rc=$?
  e=$(date +%s)
  echo "$p rc=$rc wall=$((e-s))s $(grep -c '^KNOWN-FINDING' /tmp/runall-$p.log) known $(grep '^property=' /tmp/runall-$p.log | tail -1)"
done
